//! C19: semantically equivalent formulations of a query return the same bag of rows.
//!
//! MODEL-FREE (metamorphic): both formulations run on the same TurDB database and their results are
//! compared with each other. The sqlm expression/query AST and the generators are used only to build
//! and render SQL. The check can NOT tell which of two disagreeing formulations is wrong; it reports
//! the pair of SQL texts with both results.
//!
//! Relations (segment 2 of the signature):
//!   partition     rows(WHERE p) + rows(WHERE NOT (p)) + rows(WHERE (p) IS NULL) == rows without WHERE
//!   commute       AND/OR operands mirrored at every level (WHERE or ON)
//!   reorder       FROM items of comma / inner joins permuted; select items permuted (up to the column permutation)
//!   add_true      `AND 1=1`, `AND id = id`, `OR 1=0`, `WHERE 1=1`
//!   on_vs_where   predicate in ON vs in WHERE vs comma join, INNER joins
//!   derived       FROM t WHERE p  vs FROM (SELECT * FROM t) AS s WHERE p  vs FROM (SELECT * FROM t WHERE p) AS s
//!   index         the same query before and after CREATE INDEX on a filtered column
//!   dialect_*     partition / commute / add_true over VECTOR distance, JSONB access and ROW_NUMBER() predicates
use crate::report::Ctx;
use crate::rng::{fnv, Rng};
use crate::sqlm::cmp::bag_diff;
use crate::sqlm::db::{is_panic, panic_tag, Db, Scratch};
use crate::sqlm::expr::{bin, shrink_expr, BinOp, E};
use crate::sqlm::gen::{gen_num, gen_pred, gen_spec, scope_of, ExprOpts, ScopeCol, TableSpec, Ty, WORDS};
use crate::sqlm::query::{FromItem, Item, Join, JoinKind, Query, Select};
use crate::sqlm::val::{rows_json, Row, V};
use crate::Args;
use serde_json::{json, Value as J};
use std::collections::{BTreeMap, BTreeSet};

// ---------------------------------------------------------------------------------------------
// small AST helpers
// ---------------------------------------------------------------------------------------------

fn tbl(name: &str) -> FromItem {
    FromItem::Table { name: name.to_string(), alias: None }
}
fn item(e: E) -> Item {
    Item::Expr { e, alias: None }
}
fn raw(s: &str) -> E {
    E::Lit(V::Other(s.to_string()))
}
fn and(a: E, b: E) -> E {
    bin(BinOp::And, a, b)
}
fn or(a: E, b: E) -> E {
    bin(BinOp::Or, a, b)
}
fn not(a: E) -> E {
    E::Not(Box::new(a))
}
fn is_null(a: E) -> E {
    E::IsNull(Box::new(a), false)
}
fn int(i: i64) -> E {
    E::Lit(V::Int(i))
}
fn col_of(c: &ScopeCol) -> E {
    E::Col { tbl: c.tbl.clone(), name: c.name.clone() }
}
fn conj(a: Option<E>, b: Option<E>) -> Option<E> {
    match (a, b) {
        (Some(a), Some(b)) => Some(and(a, b)),
        (Some(a), None) | (None, Some(a)) => Some(a),
        (None, None) => None,
    }
}

/// swap the operands of every AND/OR node
fn mirror(e: &E) -> E {
    match e {
        E::Bin(op, a, b) if matches!(op, BinOp::And | BinOp::Or) => E::Bin(*op, Box::new(mirror(b)), Box::new(mirror(a))),
        E::Not(x) => E::Not(Box::new(mirror(x))),
        other => other.clone(),
    }
}

/// stable class of an error message: its first words, letters only
fn err_class(e: &str) -> String {
    if is_panic(e) {
        return format!("panic@{}", panic_tag(e));
    }
    e.split(|c: char| !c.is_ascii_alphabetic()).filter(|w| !w.is_empty()).take(6).collect::<Vec<_>>().join("_").to_lowercase()
}

/// feature tags of an expression incl. the dialect fragments that are carried as raw SQL
fn feats(e: &E, out: &mut BTreeSet<String>) {
    e.features(out);
    e.visit(&mut |x| {
        if let E::Lit(V::Other(s)) = x {
            if s.contains("<->") {
                out.insert("vec_l2".into());
            }
            if s.contains("<=>") {
                out.insert("vec_cos".into());
            }
            if s.contains("->>") {
                out.insert("json_get_text".into());
            } else if s.contains(" -> ") {
                out.insert("json_get".into());
            }
        }
        if let E::Col { name, .. } = x {
            if name == "rn" {
                out.insert("col:row_number".into());
            }
            if name == "sm" {
                out.insert("col:window_sum".into());
            }
        }
    });
    // the generic "cmp(lit,...)" tag of a raw fragment carries no information
    let generic: Vec<String> = out.iter().filter(|t| t.starts_with("cmp(") && (t.contains("(lit,") || t.contains(",lit)"))).cloned().collect();
    for g in generic {
        out.remove(&g);
        out.insert(g.replace("(lit,", "(dialect,").replace(",lit)", ",dialect)"));
    }
}

// ---------------------------------------------------------------------------------------------
// sources (FROM shapes) shared by the relations
// ---------------------------------------------------------------------------------------------

#[derive(Clone, Debug)]
enum Shape {
    /// FROM t
    Table(String),
    /// FROM (SELECT * FROM t) AS s
    Derived(String),
    /// FROM a INNER JOIN b ON cond
    Inner(String, String),
    /// FROM a, b WHERE cond AND ..
    Comma(String, String),
    /// FROM (<raw select with a window function>) AS s
    Window(String),
}

impl Shape {
    fn tag(&self) -> &'static str {
        match self {
            Shape::Table(_) => "table",
            Shape::Derived(_) => "derived_table",
            Shape::Inner(..) => "inner_join",
            Shape::Comma(..) => "comma_join",
            Shape::Window(_) => "window_derived",
        }
    }
    fn needs_cond(&self) -> bool {
        matches!(self, Shape::Inner(..) | Shape::Comma(..))
    }
}

/// render `SELECT items FROM shape [ON cond] [WHERE w]`; for comma joins the join condition is a WHERE conjunct
fn render(shape: &Shape, items: &[Item], cond: Option<&E>, w: Option<E>) -> String {
    match shape {
        Shape::Table(t) => Select { items: items.to_vec(), from: vec![tbl(t)], where_: w, ..Default::default() }.sql(),
        Shape::Derived(t) => {
            let inner = Query::Select(Select { items: vec![Item::Star], from: vec![tbl(t)], ..Default::default() });
            Select { items: items.to_vec(), from: vec![FromItem::Sub { query: Box::new(inner), alias: "s".into() }], where_: w, ..Default::default() }.sql()
        }
        Shape::Inner(a, b) => Select { items: items.to_vec(), from: vec![tbl(a)], joins: vec![Join { kind: JoinKind::Inner, item: tbl(b), on: cond.cloned() }], where_: w, ..Default::default() }.sql(),
        Shape::Comma(a, b) => Select { items: items.to_vec(), from: vec![tbl(a), tbl(b)], where_: conj(cond.cloned(), w), ..Default::default() }.sql(),
        Shape::Window(inner) => {
            let frame = Select { items: items.to_vec(), from: vec![tbl("\u{0}")], where_: w, ..Default::default() }.sql();
            frame.replace("FROM \u{0}", &format!("FROM ({}) AS s", inner))
        }
    }
}

// ---------------------------------------------------------------------------------------------
// pairs and verdicts
// ---------------------------------------------------------------------------------------------

#[derive(Clone, Debug)]
struct Pair {
    /// results of these statements are united as bags
    left: Vec<String>,
    right: Vec<String>,
    /// left column k corresponds to right column perm[k]
    perm: Option<Vec<usize>>,
    /// run the left side on the index-free twin database (relation `index`)
    left_plain: bool,
    /// (tag when the left side has fewer rows, tag when the left side has more rows); None = symmetric relation
    sides: Option<(&'static str, &'static str)>,
}

impl Pair {
    fn two(l: String, r: String) -> Pair {
        Pair { left: vec![l], right: vec![r], perm: None, left_plain: false, sides: None }
    }
    fn texts_differ(&self) -> bool {
        self.left != self.right
    }
}

enum Verdict {
    Held { left_sizes: Vec<usize>, right_sizes: Vec<usize>, width: usize },
    BothErr(String, String),
    Fail { assertion: String, side: String, detail: J },
}

struct World {
    specs: Vec<TableSpec>,
    /// CREATE TABLE + INSERT statements (no secondary index)
    setup: Vec<String>,
    /// CREATE INDEX statements applied to `db` so far
    index_sql: Vec<String>,
    db: Db,
    /// lazily built copy of the database WITHOUT secondary indexes
    plain: Option<Db>,
    dbi: usize,
    dialect_ok: bool,
}

impl World {
    fn plain<'a>(&'a mut self, sc: &Scratch) -> Option<&'a mut Db> {
        if self.plain.is_none() {
            let mut d = Db::create(&sc.dir(&format!("db{}p", self.dbi))).ok()?;
            for s in &self.setup {
                if d.exec(s).is_err() {
                    return None;
                }
            }
            self.plain = Some(d);
        }
        self.plain.as_mut()
    }
}

fn run_side(db: &mut Db, sqls: &[String]) -> Result<(Vec<Row>, Vec<usize>), String> {
    let mut all = vec![];
    let mut sizes = vec![];
    for s in sqls {
        let rows = db.query(s)?;
        sizes.push(rows.len());
        all.extend(rows);
    }
    Ok((all, sizes))
}

/// run both sides and compare them as bags. `all_plain`: run BOTH sides on the index-free twin.
fn judge(w: &mut World, sc: &Scratch, pair: &Pair, all_plain: bool) -> Verdict {
    let l = if pair.left_plain || all_plain {
        match w.plain(sc) {
            Some(d) => run_side(d, &pair.left),
            None => Err("cannot build index-free twin".into()),
        }
    } else {
        run_side(&mut w.db, &pair.left)
    };
    let r = if all_plain {
        match w.plain(sc) {
            Some(d) => run_side(d, &pair.right),
            None => Err("cannot build index-free twin".into()),
        }
    } else {
        run_side(&mut w.db, &pair.right)
    };
    // the statement logs are only needed for setup; keep them short
    w.db.log.clear();
    if let Some(p) = w.plain.as_mut() {
        p.log.clear();
    }
    match (l, r) {
        (Err(a), Err(b)) => Verdict::BothErr(a, b),
        (Ok((lr, _)), Err(e)) => Verdict::Fail { assertion: "one_side_error".into(), side: format!("right:{}", err_class(&e)), detail: json!({"right_error": e, "left_rows": lr.len(), "left": rows_json(&lr, 12)}) },
        (Err(e), Ok((rr, _))) => Verdict::Fail { assertion: "one_side_error".into(), side: format!("left:{}", err_class(&e)), detail: json!({"left_error": e, "right_rows": rr.len(), "right": rows_json(&rr, 12)}) },
        (Ok((lr, ls)), Ok((rr, rs))) => {
            let lw = lr.first().map(|r| r.len());
            let rw = rr.first().map(|r| r.len());
            if let (Some(a), Some(b)) = (lw, rw) {
                if a != b {
                    return Verdict::Fail { assertion: "width".into(), side: String::new(), detail: json!({"left_width": a, "right_width": b, "left": rows_json(&lr, 4), "right": rows_json(&rr, 4)}) };
                }
            }
            let rr2: Vec<Row> = match &pair.perm {
                Some(p) if rw == Some(p.len()) => rr.iter().map(|r| p.iter().map(|i| r[*i].clone()).collect()).collect(),
                _ => rr.clone(),
            };
            match bag_diff(&lr, &rr2) {
                None => Verdict::Held { left_sizes: ls, right_sizes: rs, width: lw.or(rw).unwrap_or(0) },
                Some(d) => {
                    let missing = d["missing"].as_array().map(|a| !a.is_empty()).unwrap_or(false);
                    let extra = d["extra"].as_array().map(|a| !a.is_empty()).unwrap_or(false);
                    let side = match (&pair.sides, missing, extra) {
                        (Some((fewer, _)), true, false) => fewer.to_string(),
                        (Some((_, more)), false, true) => more.to_string(),
                        (Some(_), _, _) => "rows_differ".to_string(),
                        (None, _, _) => String::new(),
                    };
                    Verdict::Fail {
                        assertion: "bag".into(),
                        side,
                        detail: json!({"left_rows": lr.len(), "right_rows": rr.len(), "left_part_sizes": ls, "right_part_sizes": rs,
                            "only_in_right_or_fewer_in_left": d["missing"], "only_in_left_or_fewer_in_right": d["extra"],
                            "left": rows_json(&lr, 12), "right": rows_json(&rr2, 12)}),
                    }
                }
            }
        }
    }
}

// ---------------------------------------------------------------------------------------------
// cases
// ---------------------------------------------------------------------------------------------

struct Case {
    /// "<relation>" or "<relation>:<variant>"
    relation: String,
    /// structural tags that are part of the signature (FROM shape, ..)
    tags: Vec<String>,
    /// the predicates the pair is built from; None = clause omitted
    preds: Vec<Option<E>>,
    /// which predicates may be dropped entirely while shrinking
    optional: Vec<bool>,
    /// per predicate: a trivial replacement (always TRUE on the generated data / the primary-key equi-join) and the
    /// tag that replaces the predicate's feature set when the disagreement persists with it
    trivial: Vec<Vec<(E, &'static str)>>,
    /// which predicates are join conditions (tagged by class: equijoin / thetajoin)
    is_cond: Vec<bool>,
    /// set when the mechanism was measurably not exercised (relation `index`: the plan does not use an index)
    vacuous: bool,
    /// the select list and its class ("star" / "cols" / "" = fixed by the relation)
    items: Sel,
    build: Box<dyn Fn(&[Option<E>], &[Item]) -> Pair>,
}

/// a select list with the alternatives tried while shrinking: the class tag stays in the signature only
/// if the disagreement disappears under one of the alternatives
#[derive(Clone, Default)]
struct Sel {
    items: Vec<Item>,
    tag: &'static str,
    alts: Vec<Vec<Item>>,
}

/// canonical replacements for a WHERE predicate: always TRUE on the data (`id IS NOT NULL`), then a plain selective
/// range on a primary key (`id <= 2`) of each table in scope. If the disagreement persists, the predicate's own
/// features are not part of the cause.
fn trivial_true(scope: &[ScopeCol]) -> Vec<(E, &'static str)> {
    let mut v = vec![(E::IsNull(Box::new(col_of(&scope[0])), true), "trivial_pred")];
    for c in scope.iter().filter(|c| c.name == "id") {
        v.push((bin(BinOp::Le, col_of(c), int(2)), "pk_range_pred"));
    }
    v
}

/// join conditions are not replaced by a canonical one (that would switch the join algorithm and with it the
/// root cause); instead a plain column-to-column condition is tagged by its class only
fn trivial_cond(_sh: &Shape) -> Vec<(E, &'static str)> {
    vec![]
}

/// `a.x = b.y` -> "equijoin", `a.x < b.y` -> "thetajoin"; anything else keeps its feature set
fn cond_class(e: &E) -> Option<&'static str> {
    match e {
        E::Bin(op, a, b) if op.is_cmp() => match (&**a, &**b) {
            (E::Col { tbl: Some(x), .. }, E::Col { tbl: Some(y), .. }) if x != y => Some(if *op == BinOp::Eq { "equijoin" } else { "thetajoin" }),
            _ => None,
        },
        _ => None,
    }
}

/// access paths / join algorithms named in EXPLAIN (Project, Filter, Sort, Limit are not access paths)
fn plan_ops(plan: &str, out: &mut BTreeSet<String>) {
    for line in plan.lines() {
        if let Some(i) = line.find("-> ") {
            let op: String = line[i + 3..].chars().take_while(|c| c.is_ascii_alphanumeric()).collect();
            if !op.is_empty() && !matches!(op.as_str(), "Project" | "Filter" | "Sort" | "Limit" | "TopK") {
                out.insert(op);
            }
        }
    }
}

/// the set of access paths used by the statements of a pair ("?" if EXPLAIN is refused)
fn pair_paths(w: &mut World, sc: &Scratch, pair: &Pair) -> String {
    let mut ops = BTreeSet::new();
    for (k, sqls) in [&pair.left, &pair.right].iter().enumerate() {
        for s in sqls.iter() {
            let plan = if k == 0 && pair.left_plain {
                match w.plain(sc) {
                    Some(d) => d.explain(s),
                    None => None,
                }
            } else {
                w.db.explain(s)
            };
            match plan {
                Some(p) => plan_ops(&p, &mut ops),
                None => {
                    ops.insert("?".into());
                }
            }
        }
    }
    ops.into_iter().collect::<Vec<_>>().join("+")
}

fn base_relation(r: &str) -> &str {
    r.split(':').next().unwrap_or(r)
}

// ---------------------------------------------------------------------------------------------
// generators
// ---------------------------------------------------------------------------------------------

fn cmp_op(rng: &mut Rng) -> BinOp {
    *rng.pick(&[BinOp::Eq, BinOp::Ne, BinOp::Lt, BinOp::Le, BinOp::Gt, BinOp::Ge])
}

/// atoms the shared generator does not produce: CASE / COALESCE / NULLIF inside a comparison
fn gen_atom_ext(rng: &mut Rng, scope: &[ScopeCol]) -> E {
    let o = ExprOpts::all();
    let op = cmp_op(rng);
    match rng.below(3) {
        0 => {
            let w = gen_pred(rng, scope, 1, &o);
            let t = gen_num(rng, scope, 1, &o, false);
            let els = if rng.chance(2, 3) { Some(Box::new(gen_num(rng, scope, 0, &o, false))) } else { None };
            bin(op, E::Case { whens: vec![(w, t)], els }, gen_num(rng, scope, 0, &o, false))
        }
        1 => bin(op, E::Func("COALESCE".into(), vec![gen_num(rng, scope, 1, &o, false), int(rng.range(-5, 12))]), gen_num(rng, scope, 0, &o, false)),
        _ => bin(op, E::Func("NULLIF".into(), vec![gen_num(rng, scope, 0, &o, false), int(rng.range(-5, 12))]), gen_num(rng, scope, 0, &o, false)),
    }
}

fn gen_p(rng: &mut Rng, scope: &[ScopeCol], depth: u32, ext: bool) -> E {
    let o = ExprOpts::all();
    if ext {
        let a = gen_atom_ext(rng, scope);
        if depth == 0 || rng.chance(1, 3) {
            return a;
        }
        let b = gen_pred(rng, scope, depth - 1, &o);
        let (x, y) = if rng.chance(1, 2) { (a, b) } else { (b, a) };
        return if rng.chance(1, 2) { and(x, y) } else { or(x, y) };
    }
    gen_pred(rng, scope, depth, &o)
}

/// predicate whose top node is AND/OR (so that mirroring changes the text)
fn gen_andor(rng: &mut Rng, scope: &[ScopeCol], depth: u32, ext: bool) -> E {
    let d = depth.max(1) - 1;
    let a = gen_p(rng, scope, d, ext);
    let b = gen_p(rng, scope, d, false);
    if rng.chance(1, 2) {
        and(a, b)
    } else {
        or(a, b)
    }
}

/// predicate of random depth <= maxd; `maybe_ext`: with probability 1/5 it contains a CASE/COALESCE/NULLIF atom
fn gen_pd(rng: &mut Rng, scope: &[ScopeCol], maxd: u32, maybe_ext: bool) -> E {
    let d = depth(rng).min(maxd);
    let ext = maybe_ext && rng.chance(1, 5);
    gen_p(rng, scope, d, ext)
}

fn depth(rng: &mut Rng) -> u32 {
    *rng.pick(&[0u32, 1, 1, 2, 2, 3])
}

/// join condition between two tables (qualified columns): mostly an equality between same-typed columns
fn gen_join_cond(rng: &mut Rng, a: &TableSpec, b: &TableSpec) -> E {
    let sa = scope_of(a, Some(&a.name));
    let sb = scope_of(b, Some(&b.name));
    let mut pairs: Vec<(&ScopeCol, &ScopeCol)> = vec![];
    for x in &sa {
        for y in &sb {
            if x.ty == y.ty && matches!(x.ty, Ty::Int | Ty::Text) {
                pairs.push((x, y));
            }
        }
    }
    let r = rng.below(10);
    if r < 7 || pairs.is_empty() {
        if pairs.is_empty() || rng.chance(1, 5) {
            return bin(BinOp::Eq, col_of(&sa[0]), col_of(&sb[0])); // id = id
        }
        let (x, y) = *rng.pick(&pairs);
        let (l, rr) = if rng.chance(1, 2) { (col_of(x), col_of(y)) } else { (col_of(y), col_of(x)) };
        return bin(BinOp::Eq, l, rr);
    }
    if r < 9 {
        let (x, y) = *rng.pick(&pairs);
        return bin(cmp_op(rng), col_of(x), col_of(y));
    }
    let mut joint = sa.clone();
    joint.extend(sb.iter().cloned());
    gen_pred(rng, &joint, 1, &ExprOpts::all())
}

/// `join`: over a join `*` is not offered as an alternative (it is compared against the column list by `star_vs_cols`)
fn pick_items(rng: &mut Rng, scope: &[ScopeCol], join: bool, star_pm: u64) -> Sel {
    let all: Vec<Item> = scope.iter().map(|c| item(col_of(c))).collect();
    if rng.below(1000) < star_pm {
        return Sel { items: vec![Item::Star], tag: "star", alts: vec![all] };
    }
    let n = rng.usize(1, scope.len().min(4));
    let mut idx: Vec<usize> = (0..scope.len()).collect();
    rng.shuffle(&mut idx);
    idx.truncate(n);
    let items = idx.into_iter().map(|i| item(col_of(&scope[i]))).collect();
    Sel { items, tag: "cols", alts: if join { vec![all] } else { vec![vec![Item::Star], all] } }
}

/// a random FROM shape over the ordinary tables with its scope
fn gen_shape(rng: &mut Rng, specs: &[TableSpec], allow: &[&str]) -> (Shape, Vec<ScopeCol>) {
    let kind = *rng.pick(allow);
    let ti = rng.below(2) as usize;
    match kind {
        "table" => (Shape::Table(specs[ti].name.clone()), scope_of(&specs[ti], None)),
        "derived" => (Shape::Derived(specs[ti].name.clone()), scope_of(&specs[ti], None)),
        _ => {
            let (a, b) = if rng.chance(1, 2) { (0, 1) } else { (1, 0) };
            let (a, b) = if rng.chance(1, 4) { (a, 2) } else { (a, b) };
            let mut sc = scope_of(&specs[a], Some(&specs[a].name));
            sc.extend(scope_of(&specs[b], Some(&specs[b].name)));
            let sh = if kind == "inner" { Shape::Inner(specs[a].name.clone(), specs[b].name.clone()) } else { Shape::Comma(specs[a].name.clone(), specs[b].name.clone()) };
            (sh, sc)
        }
    }
}

fn spec_by_name<'a>(specs: &'a [TableSpec], n: &str) -> &'a TableSpec {
    specs.iter().find(|s| s.name == n).unwrap()
}

fn shape_cond(rng: &mut Rng, specs: &[TableSpec], sh: &Shape) -> Option<E> {
    match sh {
        Shape::Inner(a, b) | Shape::Comma(a, b) => Some(gen_join_cond(rng, spec_by_name(specs, a), spec_by_name(specs, b))),
        _ => None,
    }
}

fn shape_tags(sh: &Shape) -> Vec<String> {
    vec![sh.tag().to_string()]
}

const ALL_SHAPES: &[&str] = &["table", "table", "table", "derived", "inner", "inner", "comma"];

// (1) ternary partition -------------------------------------------------------------------------
fn partition_case(relation: &str, sh: Shape, scope: &[ScopeCol], items: Sel, p: E, cond: Option<E>) -> Case {
    Case {
        relation: relation.to_string(),
        tags: shape_tags(&sh),
        preds: vec![Some(p), cond],
        optional: vec![false, false],
        is_cond: vec![false, true],
        trivial: vec![trivial_true(scope), trivial_cond(&sh)],
        items,
        vacuous: false,
        build: Box::new(move |ps, items| {
            let p = ps[0].clone().unwrap();
            let c = ps[1].as_ref();
            Pair {
                left: vec![render(&sh, items, c, Some(p.clone())), render(&sh, items, c, Some(not(p.clone()))), render(&sh, items, c, Some(is_null(p)))],
                right: vec![render(&sh, items, c, None)],
                perm: None,
                left_plain: false,
                sides: Some(("partition_loses_rows", "partition_gains_rows")),
            }
        }),
    }
}

fn star_pm(sh: &Shape) -> u64 {
    if sh.needs_cond() {
        120
    } else {
        450
    }
}

fn rel_partition(rng: &mut Rng, specs: &[TableSpec]) -> Case {
    let (sh, scope) = gen_shape(rng, specs, ALL_SHAPES);
    let items = pick_items(rng, &scope, sh.needs_cond(), star_pm(&sh));
    let p = gen_pd(rng, &scope, 3, true);
    let cond = shape_cond(rng, specs, &sh);
    partition_case("partition", sh, &scope, items, p, cond)
}

// (2) commuting AND/OR ---------------------------------------------------------------------------
fn commute_case(relation: &str, sh: Shape, items: Sel, p: E, cond: Option<E>, in_on: bool) -> Case {
    let mut tags = shape_tags(&sh);
    if in_on {
        tags.push("in_on".into());
    }
    Case {
        relation: relation.to_string(),
        tags,
        preds: vec![Some(p), cond],
        optional: vec![false, in_on],
        is_cond: vec![false, true],
        trivial: vec![vec![], trivial_cond(&sh)],
        items,
        vacuous: false,
        build: Box::new(move |ps, items| {
            let p = ps[0].clone().unwrap();
            let c = ps[1].clone();
            if in_on {
                // the AND/OR predicate is (part of) the ON condition
                let on1 = conj(c.clone(), Some(p.clone())).unwrap();
                let on2 = match c {
                    Some(c) => and(mirror(&p), c),
                    None => mirror(&p),
                };
                Pair::two(render(&sh, items, Some(&on1), None), render(&sh, items, Some(&on2), None))
            } else {
                Pair::two(render(&sh, items, c.as_ref(), Some(p.clone())), render(&sh, items, c.as_ref(), Some(mirror(&p))))
            }
        }),
    }
}

fn rel_commute(rng: &mut Rng, specs: &[TableSpec]) -> Case {
    let (sh, scope) = gen_shape(rng, specs, ALL_SHAPES);
    let items = pick_items(rng, &scope, sh.needs_cond(), star_pm(&sh));
    let d = depth(rng).max(1);
    let ext = rng.chance(1, 5);
    let p = gen_andor(rng, &scope, d, ext);
    let in_on = matches!(sh, Shape::Inner(..)) && rng.chance(1, 2);
    let cond = if in_on && rng.chance(1, 2) { None } else { shape_cond(rng, specs, &sh) };
    commute_case("commute", sh, items, p, cond, in_on)
}

// (3) reordering ---------------------------------------------------------------------------------
fn rel_reorder(rng: &mut Rng, specs: &[TableSpec]) -> Case {
    let kind = rng.below(10);
    if kind < 4 {
        // select items permuted
        let (sh, scope) = gen_shape(rng, specs, ALL_SHAPES);
        let n = rng.usize(2, scope.len().min(5));
        let mut idx: Vec<usize> = (0..scope.len()).collect();
        rng.shuffle(&mut idx);
        idx.truncate(n);
        let o = ExprOpts::all();
        let mut exprs: Vec<E> = idx.iter().map(|i| col_of(&scope[*i])).collect();
        let mut has_expr = false;
        if rng.chance(1, 3) {
            let k = rng.below(exprs.len() as u64) as usize;
            exprs[k] = gen_num(rng, &scope, 2, &o, false);
            has_expr = true;
        }
        // a permutation that is not the identity
        let mut perm: Vec<usize> = (0..n).collect();
        for _ in 0..8 {
            rng.shuffle(&mut perm);
            if perm.iter().enumerate().any(|(i, p)| i != *p) {
                break;
            }
        }
        let p = if rng.chance(3, 4) { Some(gen_pd(rng, &scope, 3, false)) } else { None };
        let cond = shape_cond(rng, specs, &sh);
        let mut tags = shape_tags(&sh);
        if has_expr {
            tags.push("item_expr".into());
        }
        // right select list: position j holds left item perm[j]; so left column k is right column inv[k]
        let mut inv = vec![0usize; n];
        for (j, k) in perm.iter().enumerate() {
            inv[*k] = j;
        }
        return Case {
            relation: "reorder:select_items".into(),
            tags,
            preds: vec![p, cond],
            optional: vec![true, false],
            is_cond: vec![false, true],
            trivial: vec![trivial_true(&scope), trivial_cond(&sh)],
            items: Sel::default(),
            vacuous: false,
            build: Box::new(move |ps, _| {
                let l: Vec<Item> = exprs.iter().cloned().map(item).collect();
                let r: Vec<Item> = perm.iter().map(|k| item(exprs[*k].clone())).collect();
                let mut pr = Pair::two(render(&sh, &l, ps[1].as_ref(), ps[0].clone()), render(&sh, &r, ps[1].as_ref(), ps[0].clone()));
                pr.perm = Some(inv.clone());
                pr
            }),
        };
    }
    if kind < 8 {
        // two FROM items swapped (comma or inner join); explicit columns, so no column permutation is involved
        let comma = rng.chance(1, 2);
        let (sh, scope) = gen_shape(rng, specs, if comma { &["comma"] } else { &["inner"] });
        let (a, b) = match &sh {
            Shape::Inner(a, b) | Shape::Comma(a, b) => (a.clone(), b.clone()),
            _ => unreachable!(),
        };
        let sh2 = if comma { Shape::Comma(b.clone(), a.clone()) } else { Shape::Inner(b.clone(), a.clone()) };
        let items = pick_items(rng, &scope, true, 0);
        let p = if rng.chance(3, 4) { Some(gen_pd(rng, &scope, 3, false)) } else { None };
        let cond = shape_cond(rng, specs, &sh);
        return Case {
            relation: "reorder:from_items".into(),
            tags: shape_tags(&sh),
            preds: vec![p, cond],
            optional: vec![true, false],
            is_cond: vec![false, true],
            trivial: vec![trivial_true(&scope), trivial_cond(&sh)],
            items,
            vacuous: false,
            build: Box::new(move |ps, items| Pair::two(render(&sh, items, ps[1].as_ref(), ps[0].clone()), render(&sh2, items, ps[1].as_ref(), ps[0].clone()))),
        };
    }
    // three FROM items: t, u, w with conditions (t,u) and (t,w); the last two items swapped
    let comma = rng.chance(1, 2);
    let names: Vec<String> = specs.iter().take(3).map(|s| s.name.clone()).collect();
    let mut scope = vec![];
    for s in specs.iter().take(3) {
        scope.extend(scope_of(s, Some(&s.name)));
    }
    let items = pick_items(rng, &scope, true, 0);
    let c1 = gen_join_cond(rng, &specs[0], &specs[1]);
    let c2 = gen_join_cond(rng, &specs[0], &specs[2]);
    let p = if rng.chance(2, 3) { Some(gen_pd(rng, &scope, 2, false)) } else { None };
    let t1 = trivial_cond(&Shape::Inner(names[0].clone(), names[1].clone()));
    let t2 = trivial_cond(&Shape::Inner(names[0].clone(), names[2].clone()));
    Case {
        relation: "reorder:from_items3".into(),
        tags: vec![if comma { "comma_join".into() } else { "inner_join".into() }],
        preds: vec![p, Some(c1), Some(c2)],
        optional: vec![true, false, false],
        is_cond: vec![false, true, true],
        trivial: vec![trivial_true(&scope), t1, t2],
        items,
        vacuous: false,
        build: Box::new(move |ps, items| {
            let mk = |order: [usize; 2]| -> String {
                let conds = [ps[1].clone().unwrap(), ps[2].clone().unwrap()];
                if comma {
                    let from = vec![tbl(&names[0]), tbl(&names[order[0]]), tbl(&names[order[1]])];
                    Select { items: items.to_vec(), from, where_: conj(Some(and(conds[0].clone(), conds[1].clone())), ps[0].clone()), ..Default::default() }.sql()
                } else {
                    let joins = order.iter().map(|k| Join { kind: JoinKind::Inner, item: tbl(&names[*k]), on: Some(conds[*k - 1].clone()) }).collect();
                    Select { items: items.to_vec(), from: vec![tbl(&names[0])], joins, where_: ps[0].clone(), ..Default::default() }.sql()
                }
            };
            Pair::two(mk([1, 2]), mk([2, 1]))
        }),
    }
}

// (3b) `*` vs the explicit list of all columns in FROM order ------------------------------------------
fn rel_star_vs_cols(rng: &mut Rng, specs: &[TableSpec]) -> Case {
    let (sh, scope) = gen_shape(rng, specs, ALL_SHAPES);
    let all: Vec<Item> = scope.iter().map(|c| item(col_of(c))).collect();
    let p = if rng.chance(2, 3) { Some(gen_pd(rng, &scope, 2, false)) } else { None };
    let cond = shape_cond(rng, specs, &sh);
    Case {
        relation: "star_vs_cols".into(),
        tags: shape_tags(&sh),
        preds: vec![p, cond],
        optional: vec![true, false],
        is_cond: vec![false, true],
        trivial: vec![trivial_true(&scope), trivial_cond(&sh)],
        items: Sel::default(),
        vacuous: false,
        build: Box::new(move |ps, _| {
            let mut pr = Pair::two(render(&sh, &[Item::Star], ps[1].as_ref(), ps[0].clone()), render(&sh, &all, ps[1].as_ref(), ps[0].clone()));
            pr.sides = Some(("star_form_fewer_rows", "cols_form_fewer_rows"));
            pr
        }),
    }
}

// (4) always-true conjuncts / always-false disjuncts ---------------------------------------------
fn add_true_case(relation_prefix: &str, variant: &str, sh: Shape, scope: &[ScopeCol], items: Sel, p: Option<E>, cond: Option<E>) -> Case {
    let v = variant.to_string();
    let id_col = col_of(&scope[0]);
    Case {
        relation: format!("{}:{}", relation_prefix, variant),
        tags: shape_tags(&sh),
        preds: vec![p, cond],
        optional: vec![v == "where_1eq1", false],
        is_cond: vec![false, true],
        trivial: vec![trivial_true(scope), trivial_cond(&sh)],
        items,
        vacuous: false,
        build: Box::new(move |ps, items| {
            let c = ps[1].as_ref();
            let one = || bin(BinOp::Eq, int(1), int(1));
            let zero = || bin(BinOp::Eq, int(1), int(0));
            let orig = ps[0].clone();
            let aug = match (v.as_str(), orig.clone()) {
                (_, None) => one(),
                ("where_1eq1", Some(p)) => and(p, one()),
                ("and_1eq1_right", Some(p)) => and(p, one()),
                ("and_1eq1_left", Some(p)) => and(one(), p),
                ("and_id_eq_id", Some(p)) => and(p, bin(BinOp::Eq, id_col.clone(), id_col.clone())),
                ("or_1eq0_right", Some(p)) => or(p, zero()),
                ("or_1eq0_left", Some(p)) => or(zero(), p),
                (_, Some(p)) => p,
            };
            let mut pr = Pair::two(render(&sh, items, c, orig), render(&sh, items, c, Some(aug)));
            pr.sides = Some(("augmented_gains_rows", "augmented_loses_rows"));
            pr
        }),
    }
}

const TRUE_VARIANTS: &[&str] = &["and_1eq1_right", "and_1eq1_left", "and_id_eq_id", "or_1eq0_right", "or_1eq0_left", "where_1eq1"];

fn rel_add_true(rng: &mut Rng, specs: &[TableSpec]) -> Case {
    let (sh, scope) = gen_shape(rng, specs, ALL_SHAPES);
    let items = pick_items(rng, &scope, sh.needs_cond(), star_pm(&sh));
    let variant = *rng.pick(TRUE_VARIANTS);
    let p = if variant == "where_1eq1" { None } else { Some(gen_pd(rng, &scope, 3, true)) };
    let cond = shape_cond(rng, specs, &sh);
    add_true_case("add_true", variant, sh, &scope, items, p, cond)
}

// (5) predicate in ON vs in WHERE ----------------------------------------------------------------
fn rel_on_vs_where(rng: &mut Rng, specs: &[TableSpec]) -> Case {
    let (sh, scope) = gen_shape(rng, specs, &["inner"]);
    let (a, b) = match &sh {
        Shape::Inner(a, b) => (a.clone(), b.clone()),
        _ => unreachable!(),
    };
    let items = pick_items(rng, &scope, true, 0);
    let cond = shape_cond(rng, specs, &sh).unwrap();
    // p over one side's columns (the pushdown case) or over both
    let p = if rng.chance(1, 2) {
        let one = if rng.chance(1, 2) { &a } else { &b };
        let s1 = scope_of(spec_by_name(specs, one), Some(one));
        gen_pd(rng, &s1, 2, false)
    } else {
        gen_pd(rng, &scope, 2, false)
    };
    let forms = ["on_c_and_p", "on_c_where_p", "comma_where_c_and_p", "on_p_where_c"];
    let i = rng.below(4) as usize;
    let mut j = rng.below(3) as usize;
    if j >= i {
        j += 1;
    }
    let (i, j) = (i.min(j), i.max(j));
    Case {
        relation: format!("on_vs_where:{}|{}", forms[i], forms[j]),
        tags: vec![],
        preds: vec![Some(p), Some(cond)],
        optional: vec![false, false],
        is_cond: vec![false, true],
        trivial: vec![trivial_true(&scope), trivial_cond(&sh)],
        items,
        vacuous: false,
        build: Box::new(move |ps, items| {
            let p = ps[0].clone().unwrap();
            let c = ps[1].clone().unwrap();
            let inner = Shape::Inner(a.clone(), b.clone());
            let comma = Shape::Comma(a.clone(), b.clone());
            let mk = |f: usize| match f {
                0 => render(&inner, items, Some(&and(c.clone(), p.clone())), None),
                1 => render(&inner, items, Some(&c), Some(p.clone())),
                2 => render(&comma, items, Some(&c), Some(p.clone())),
                _ => render(&inner, items, Some(&p), Some(c.clone())),
            };
            let mut pr = Pair::two(mk(i), mk(j));
            pr.sides = Some(("first_form_fewer_rows", "second_form_fewer_rows"));
            pr
        }),
    }
}

// (6) derived tables -----------------------------------------------------------------------------
fn rel_derived(rng: &mut Rng, specs: &[TableSpec]) -> Case {
    let ti = rng.below(2) as usize;
    let t = specs[ti].name.clone();
    let scope = scope_of(&specs[ti], None);
    let items = pick_items(rng, &scope, false, 250);
    let p = gen_pd(rng, &scope, 3, true);
    // inner select list: `*` or all columns by name
    let inner_star = rng.chance(2, 3);
    let inner_items: Vec<Item> = if inner_star { vec![Item::Star] } else { scope.iter().map(|c| item(col_of(c))).collect() };
    let forms = ["plain", "outer_where", "inner_where"];
    let i = rng.below(3) as usize;
    let mut j = rng.below(2) as usize;
    if j >= i {
        j += 1;
    }
    let (i, j) = (i.min(j), i.max(j));
    let mut tags = vec![];
    if !inner_star {
        tags.push("inner_cols".to_string());
    }
    Case {
        relation: format!("derived:{}|{}", forms[i], forms[j]),
        tags,
        preds: vec![Some(p)],
        optional: vec![false],
        is_cond: vec![false],
        trivial: vec![trivial_true(&scope)],
        items,
        vacuous: false,
        build: Box::new(move |ps, items| {
            let p = ps[0].clone().unwrap();
            let mk = |f: usize| match f {
                0 => Select { items: items.to_vec(), from: vec![tbl(&t)], where_: Some(p.clone()), ..Default::default() }.sql(),
                1 => {
                    let inner = Query::Select(Select { items: inner_items.clone(), from: vec![tbl(&t)], ..Default::default() });
                    Select { items: items.to_vec(), from: vec![FromItem::Sub { query: Box::new(inner), alias: "s".into() }], where_: Some(p.clone()), ..Default::default() }.sql()
                }
                _ => {
                    let inner = Query::Select(Select { items: inner_items.clone(), from: vec![tbl(&t)], where_: Some(p.clone()), ..Default::default() });
                    Select { items: items.to_vec(), from: vec![FromItem::Sub { query: Box::new(inner), alias: "s".into() }], ..Default::default() }.sql()
                }
            };
            let mut pr = Pair::two(mk(i), mk(j));
            pr.sides = Some(("first_form_fewer_rows", "second_form_fewer_rows"));
            pr
        }),
    }
}

// (7) index --------------------------------------------------------------------------------------
/// a query that filters / joins on the column `c` of table `ti` (the column that gets the index)
fn rel_index_query(rng: &mut Rng, specs: &[TableSpec], ti: usize, c: &ScopeCol, values: &[V]) -> Case {
    let spec = &specs[ti];
    let o = ExprOpts::all();
    let cv = |rng: &mut Rng| -> E {
        if !values.is_empty() && rng.chance(3, 4) {
            E::Lit(rng.pick(values).clone())
        } else if c.ty == Ty::Text {
            E::Lit(V::Text(rng.pick(WORDS).to_string()))
        } else {
            int(rng.range(-5, 12))
        }
    };
    let join = rng.chance(1, 4);
    let (sh, scope, ccol): (Shape, Vec<ScopeCol>, E) = if join {
        let oi = if ti == 0 { 1 } else { 0 };
        let (first, second) = if rng.chance(1, 2) { (ti, oi) } else { (oi, ti) };
        let mut sc = scope_of(&specs[first], Some(&specs[first].name));
        sc.extend(scope_of(&specs[second], Some(&specs[second].name)));
        (Shape::Inner(specs[first].name.clone(), specs[second].name.clone()), sc, E::Col { tbl: Some(spec.name.clone()), name: c.name.clone() })
    } else {
        (Shape::Table(spec.name.clone()), scope_of(spec, None), E::Col { tbl: None, name: c.name.clone() })
    };
    // atom on the indexed column
    // the planner uses a secondary index only for an equality that is the predicate or its first conjunct,
    // so equality atoms dominate; the other forms check that an unused index changes nothing either
    let k = rng.below(14);
    let atom = match k {
        0..=5 => bin(BinOp::Eq, ccol.clone(), cv(rng)),
        6..=7 => bin(BinOp::Eq, cv(rng), ccol.clone()),
        8 => {
            let op = cmp_op(rng);
            bin(op, cv(rng), ccol.clone())
        }
        9 => {
            let n = rng.usize(1, 3);
            let l: Vec<E> = (0..n).map(|_| cv(rng)).collect();
            E::InList(Box::new(ccol.clone()), l, rng.chance(1, 4))
        }
        10 => {
            let (lo, hi) = (cv(rng), cv(rng));
            E::Between(Box::new(ccol.clone()), Box::new(lo), Box::new(hi), rng.chance(1, 4))
        }
        11 => E::IsNull(Box::new(ccol.clone()), rng.chance(1, 2)),
        12 if c.ty == Ty::Text => E::Like(Box::new(ccol.clone()), Box::new(E::Lit(V::Text(rng.pick(&["a%", "ab%", "%b", "a_c", "%"]).to_string()))), false),
        _ => {
            let op = cmp_op(rng);
            bin(op, ccol.clone(), cv(rng))
        }
    };
    let p = match rng.below(10) {
        0..=3 => atom,
        4..=6 => {
            let q = gen_pred(rng, &scope, 1, &o);
            if rng.chance(3, 4) {
                and(atom, q)
            } else {
                and(q, atom)
            }
        }
        7..=8 => or(atom, gen_pred(rng, &scope, 1, &o)),
        _ => not(atom),
    };
    let cond = if join {
        // join on the indexed column where the types allow it (index nested loop candidates)
        let other = match &sh {
            Shape::Inner(a, b) => {
                if *a == spec.name {
                    b.clone()
                } else {
                    a.clone()
                }
            }
            _ => unreachable!(),
        };
        let os = scope_of(spec_by_name(specs, &other), Some(&other));
        let same: Vec<&ScopeCol> = os.iter().filter(|x| x.ty == c.ty).collect();
        if !same.is_empty() && rng.chance(2, 3) {
            Some(bin(BinOp::Eq, col_of(*rng.pick(&same)), ccol.clone()))
        } else {
            shape_cond(rng, specs, &sh)
        }
    } else {
        None
    };
    let items = pick_items(rng, &scope, join, if join { 0 } else { 400 });
    let mut tags = shape_tags(&sh);
    tags.push(format!(
        "index_on_{}",
        match c.ty {
            Ty::Int => "int",
            Ty::Float => "float",
            Ty::Text => "text",
            Ty::Bool => "bool",
        }
    ));
    Case {
        relation: "index".into(),
        tags,
        preds: vec![Some(p), cond],
        optional: vec![false, false],
        is_cond: vec![false, true],
        trivial: vec![vec![], vec![]],
        items,
        vacuous: false,
        build: Box::new(move |ps, items| {
            let q = render(&sh, items, ps[1].as_ref(), ps[0].clone());
            Pair { left: vec![q.clone()], right: vec![q], perm: None, left_plain: true, sides: Some(("indexed_gains_rows", "indexed_loses_rows")) }
        }),
    }
}

// (8) dialect features ---------------------------------------------------------------------------
const DIALECT_CREATE: &str = "CREATE TABLE d (id BIGINT PRIMARY KEY, g BIGINT, i BIGINT, v VECTOR(3), j JSONB)";

fn gen_dialect_rows(rng: &mut Rng, n: usize) -> Vec<String> {
    let mut out = vec![];
    for id in 1..=n {
        let g = if rng.chance(1, 6) { "NULL".to_string() } else { rng.range(1, 3).to_string() };
        let i = if rng.chance(1, 5) { "NULL".to_string() } else { V::Int(rng.range(-3, 8)).sql() };
        let v = if rng.chance(1, 6) {
            "NULL".to_string()
        } else {
            format!("'[{:.2}, {:.2}, {:.2}]'", rng.range(-8, 8) as f64 / 4.0, rng.range(-8, 8) as f64 / 4.0, rng.range(-8, 8) as f64 / 4.0)
        };
        let j = if rng.chance(1, 6) {
            "NULL".to_string()
        } else {
            let mut parts = vec![];
            match rng.below(4) {
                0 => {}
                1 => parts.push("\"a\": null".to_string()),
                _ => parts.push(format!("\"a\": {}", rng.range(0, 4))),
            }
            if rng.chance(2, 3) {
                parts.push(format!("\"b\": \"{}\"", rng.pick(&["x", "y", "ab", ""])));
            }
            if rng.chance(1, 2) {
                parts.push(format!("\"n\": {}", rng.range(-2, 9) as f64 / 2.0));
            }
            format!("'{{{}}}'", parts.join(", "))
        };
        out.push(format!("INSERT INTO d VALUES ({}, {}, {}, {}, {})", id, g, i, v, j));
    }
    out
}

fn gen_vec_atom(rng: &mut Rng) -> E {
    let lit = format!("'[{:.2}, {:.2}, {:.2}]'", rng.range(-8, 8) as f64 / 4.0, rng.range(-8, 8) as f64 / 4.0, rng.range(-8, 8) as f64 / 4.0);
    let cos = rng.chance(1, 4);
    let dist = raw(&format!("(v {} {})", if cos { "<=>" } else { "<->" }, lit));
    let c = if cos { E::Lit(V::Float(rng.range(0, 8) as f64 / 4.0)) } else { E::Lit(V::Float(rng.range(0, 16) as f64 / 4.0)) };
    let op = *rng.pick(&[BinOp::Lt, BinOp::Lt, BinOp::Le, BinOp::Gt, BinOp::Ge]);
    bin(op, dist, c)
}

fn gen_json_atom(rng: &mut Rng) -> E {
    match rng.below(6) {
        0 => {
            let op = *rng.pick(&[BinOp::Eq, BinOp::Ne]);
            bin(op, raw("(j ->> 'b')"), E::Lit(V::Text(rng.pick(&["x", "y", "ab", ""]).to_string())))
        }
        1 => {
            let op = *rng.pick(&[BinOp::Eq, BinOp::Ne]);
            bin(op, raw("(j ->> 'a')"), E::Lit(V::Text(rng.range(0, 4).to_string())))
        }
        2 => E::IsNull(Box::new(raw(*rng.pick(&["(j -> 'a')", "(j ->> 'b')", "(j -> 'n')", "(j ->> 'zz')"]))), rng.chance(1, 2)),
        3 => {
            let op = cmp_op(rng);
            bin(op, raw("(j -> 'a')"), int(rng.range(0, 4)))
        }
        4 => {
            let op = cmp_op(rng);
            bin(op, raw("(j -> 'n')"), E::Lit(V::Float(rng.range(-2, 9) as f64 / 2.0)))
        }
        _ => E::Like(Box::new(raw("(j ->> 'b')")), Box::new(E::Lit(V::Text(rng.pick(&["a%", "%", "_", "x"]).to_string()))), rng.chance(1, 3)),
    }
}

fn dialect_scope() -> Vec<ScopeCol> {
    ["id", "g", "i"].iter().map(|n| ScopeCol { tbl: None, name: n.to_string(), ty: Ty::Int }).collect()
}

const WINDOW_FORMS: &[(&str, &str)] = &[
    ("rn_part_g_by_id", "SELECT id, g, i, ROW_NUMBER() OVER (PARTITION BY g ORDER BY id) AS rn FROM d"),
    ("rn_part_g_by_id_desc", "SELECT id, g, i, ROW_NUMBER() OVER (PARTITION BY g ORDER BY id DESC) AS rn FROM d"),
    ("rn_by_id", "SELECT id, g, i, ROW_NUMBER() OVER (ORDER BY id) AS rn FROM d"),
    ("rn_part_g_by_i_id", "SELECT id, g, i, ROW_NUMBER() OVER (PARTITION BY g ORDER BY i, id) AS rn FROM d"),
    ("sum_part_g", "SELECT id, g, i, SUM(i) OVER (PARTITION BY g) AS sm FROM d"),
];

/// relations (1), (2), (4) over a dialect predicate; generated only if the plain `WHERE atom` form is accepted
fn rel_dialect(rng: &mut Rng, w: &mut World, ctx: &mut Ctx) -> Option<Case> {
    let kind = *rng.pick(&["vec", "vec", "json", "json", "window", "window"]);
    let o = ExprOpts::all();
    let (sh, scope, atom, sub): (Shape, Vec<ScopeCol>, E, String) = match kind {
        "vec" => (Shape::Table("d".into()), dialect_scope(), gen_vec_atom(rng), "vec".into()),
        "json" => (Shape::Table("d".into()), dialect_scope(), gen_json_atom(rng), "json".into()),
        _ => {
            let (name, inner) = *rng.pick(WINDOW_FORMS);
            let wc = if name.starts_with("sum") { "sm" } else { "rn" };
            let mut sc = dialect_scope();
            sc.push(ScopeCol { tbl: None, name: wc.to_string(), ty: Ty::Int });
            let wcol = E::Col { tbl: None, name: wc.to_string() };
            let atom = match rng.below(4) {
                0 => bin(BinOp::Eq, wcol, int(rng.range(1, 3))),
                1 => {
                    let op = cmp_op(rng);
                    bin(op, wcol, int(rng.range(1, 4)))
                }
                2 => {
                    let op = cmp_op(rng);
                    bin(op, wcol, E::Col { tbl: None, name: (*rng.pick(&["g", "i", "id"])).to_string() })
                }
                // a predicate on the non-window columns only: pushing it below the window would change rn
                _ => gen_pred(rng, &dialect_scope(), 1, &o),
            };
            (Shape::Window(inner.to_string()), sc, atom, format!("window:{}", name))
        }
    };
    // acceptance probe: the syntax must be accepted at all; otherwise the feature is not generated
    let probe_items = vec![item(E::Col { tbl: None, name: "id".into() })];
    let probe = render(&sh, &probe_items, None, Some(atom.clone()));
    ctx.count("dialect_probe", 1);
    if let Err(e) = w.db.query(&probe) {
        ctx.count(&format!("dialect_rejected:{}:{}", sub, err_class(&e)), 1);
        if is_panic(&e) {
            // a panic is never "syntax not accepted"; it is reported as its own violation
            ctx.violation("no_panic", &format!("C19/dialect_probe/{}/{}", sub.split(':').next().unwrap_or(""), err_class(&e)), json!({"sql": probe, "error": e, "setup": w.setup}));
        }
        return None;
    }
    let p = match rng.below(10) {
        0..=3 => atom,
        4..=6 => {
            let q = gen_pred(rng, &scope, 1, &o);
            let (a, b) = if rng.chance(1, 2) { (atom, q) } else { (q, atom) };
            if rng.chance(1, 2) {
                and(a, b)
            } else {
                or(a, b)
            }
        }
        7 => not(atom),
        _ => {
            let q = match kind {
                "vec" => gen_vec_atom(rng),
                "json" => gen_json_atom(rng),
                _ => gen_pred(rng, &scope, 1, &o),
            };
            if rng.chance(1, 2) {
                and(atom, q)
            } else {
                or(atom, q)
            }
        }
    };
    let items = pick_items(rng, &scope, false, 330);
    let has_andor = matches!(&p, E::Bin(BinOp::And | BinOp::Or, _, _));
    let mut c = match rng.below(if has_andor { 3 } else { 2 }) {
        0 => partition_case(&format!("dialect_partition:{}", sub), sh, &scope, items, p, None),
        1 => {
            let variant = *rng.pick(&TRUE_VARIANTS[..5]);
            add_true_case(&format!("dialect_add_true:{}", sub), variant, sh, &scope, items, Some(p), None)
        }
        _ => commute_case(&format!("dialect_commute:{}", sub), sh, items, p, None, false),
    };
    // the shape is implied by the relation name
    c.tags.clear();
    Some(c)
}


// ---------------------------------------------------------------------------------------------
// running a case: judge, shrink, sign, report
// ---------------------------------------------------------------------------------------------

#[derive(Default)]
struct Stats {
    per_relation: BTreeMap<String, BTreeMap<String, u64>>,
    sigs: BTreeMap<String, u64>,
    /// access paths (from EXPLAIN) of every 8th pair that held
    held_paths: BTreeMap<String, u64>,
    /// access paths of the minimal pairs that disagreed
    failed_paths: BTreeMap<String, u64>,
}

impl Stats {
    fn bump(&mut self, rel: &str, what: &str) {
        *self.per_relation.entry(rel.to_string()).or_default().entry(what.to_string()).or_insert(0) += 1;
    }
}

fn pair_json(p: &Pair) -> J {
    json!({"left": p.left, "right": p.right, "right_column_permutation": p.perm, "left_runs_on_index_free_twin": p.left_plain})
}

fn same_fail(v: &Verdict, assertion: &str) -> bool {
    matches!(v, Verdict::Fail { assertion: a, .. } if a == assertion)
}

fn items_sql(items: &[Item]) -> String {
    Select { items: items.to_vec(), ..Default::default() }.sql()
}

fn run_case(ctx: &mut Ctx, w: &mut World, sc: &Scratch, st: &mut Stats, case: Case, first: Option<Verdict>) {
    let rel = base_relation(&case.relation).to_string();
    let pair = (case.build)(&case.preds, &case.items.items);
    ctx.eval();
    let v = match first {
        Some(v) => v,
        None => judge(w, sc, &pair, false),
    };
    match v {
        Verdict::Held { left_sizes, right_sizes, width } => {
            st.bump(&rel, "held");
            if ctx.evaluations % 8 == 0 {
                let p = pair_paths(w, sc, &pair);
                *st.held_paths.entry(p).or_insert(0) += 1;
            }
            let total: usize = left_sizes.iter().sum();
            // the mechanism was exercised: the two formulations differ as texts (or run with/without the index), rows with
            // columns came back, and (partition) the predicate splits the rows into at least two non-empty parts
            let differ = pair.texts_differ() || pair.left_plain;
            let split = !rel.ends_with("partition") || left_sizes.iter().filter(|n| **n > 0).count() >= 2;
            if differ && total > 0 && width > 0 && split && !case.vacuous {
                st.bump(&rel, "held_nontrivial");
                ctx.nontrivial(fnv(format!("{:?}{:?}{}", pair.left, pair.right, w.dbi).as_bytes()));
                if ctx.samples.iter().all(|s| s["relation"] != json!(case.relation)) {
                    ctx.sample(json!({"relation": case.relation, "pair": pair_json(&pair), "left_part_sizes": left_sizes, "right_part_sizes": right_sizes}));
                }
            } else if width == 0 && total > 0 {
                st.bump(&rel, "held_but_zero_width_rows");
            }
        }
        Verdict::BothErr(a, b) => {
            st.bump(&rel, "not_judged_both_error");
            ctx.count(&format!("both_error:{}:{}", rel, err_class(&a)), 1);
            if is_panic(&a) || is_panic(&b) {
                ctx.count("both_sides_panic", 1);
            }
        }
        Verdict::Fail { assertion, side: side0, detail: detail0 } => {
            st.bump(&rel, "failed");
            // --- shrink: per predicate (a) drop it, (b) replace it by the trivial one, (c) shrink_expr; then the select list
            let mut cur = case.preds.clone();
            let mut replaced: Vec<Option<&'static str>> = vec![None; cur.len()];
            let items0 = case.items.items.clone();
            let mut budget_left: usize = 160;
            // a simplification is accepted only if the same sub-assertion still fails AND the statements still take
            // the same access paths / join algorithms (otherwise the smaller case may fail for a different reason)
            let paths0 = pair_paths(w, sc, &pair);
            let accept = |w: &mut World, p: &Pair| -> bool { same_fail(&judge(w, sc, p, false), &assertion) && pair_paths(w, sc, p) == paths0 };
            for i in 0..cur.len() {
                if cur[i].is_none() {
                    continue;
                }
                if case.optional[i] {
                    let mut cand = cur.clone();
                    cand[i] = None;
                    if accept(w, &(case.build)(&cand, &items0)) {
                        cur = cand;
                        continue;
                    }
                }
                let mut done = false;
                for (t, tag) in &case.trivial[i] {
                    let mut cand = cur.clone();
                    cand[i] = Some(t.clone());
                    if accept(w, &(case.build)(&cand, &items0)) {
                        cur = cand;
                        replaced[i] = Some(*tag);
                        done = true;
                        break;
                    }
                }
                if done {
                    continue;
                }
                let start = cur[i].clone().unwrap();
                let mut used = 0usize;
                let small = {
                    let mut fails = |c: &E| {
                        used += 1;
                        let mut cand = cur.clone();
                        cand[i] = Some(c.clone());
                        accept(w, &(case.build)(&cand, &items0))
                    };
                    shrink_expr(&start, &mut fails, budget_left.min(100))
                };
                budget_left = budget_left.saturating_sub(used);
                cur[i] = Some(small);
            }
            // does the select list matter? it does if the disagreement disappears under some alternative list
            let mut items_matter = false;
            let mut alt_results = vec![];
            for alt in &case.items.alts {
                if items_sql(alt) == items_sql(&items0) {
                    continue;
                }
                let still = accept(w, &(case.build)(&cur, alt));
                alt_results.push(json!({"select_list": items_sql(alt), "still_disagrees": still}));
                if !still {
                    items_matter = true;
                }
            }
            let min_pair = (case.build)(&cur, &items0);
            let (side, min_detail, reproduced) = match judge(w, sc, &min_pair, false) {
                Verdict::Fail { assertion: a, side, detail } if a == assertion => (side, detail, true),
                _ => (side0.clone(), J::Null, false),
            };
            let mut f = BTreeSet::new();
            for (i, p) in cur.iter().enumerate() {
                match (p, replaced[i]) {
                    (Some(_), Some(tag)) => {
                        f.insert(tag.to_string());
                    }
                    (Some(p), None) => match (case.is_cond[i], cond_class(p)) {
                        (true, Some(c)) => {
                            f.insert(c.to_string());
                        }
                        _ => feats(p, &mut f),
                    },
                    _ => {}
                }
            }
            let paths = pair_paths(w, sc, &min_pair);
            *st.failed_paths.entry(paths.clone()).or_insert(0) += 1;
            // does the disagreement need the secondary index? (same minimal pair on the index-free twin)
            let mut needs_index = false;
            if !w.index_sql.is_empty() && !min_pair.left_plain && reproduced {
                if let Verdict::Held { .. } = judge(w, sc, &min_pair, true) {
                    needs_index = true;
                }
            }
            // signature: coarse, root-cause-indicating components first (so that a known finding can end in `*`):
            // relation / FROM shape + select-list class / access paths (+ whether the secondary index is needed) /
            // failing sub-assertion + side / minimal predicate features
            let mut structural = case.tags.clone();
            if items_matter && !case.items.tag.is_empty() {
                structural.push(format!("select_{}", case.items.tag));
            }
            if structural.is_empty() {
                structural.push("-".into());
            }
            let mut path_part = if paths.is_empty() { "-".to_string() } else { paths.clone() };
            if needs_index {
                path_part.push_str("+needs_secondary_index");
            }
            let feat_part = if f.is_empty() { "-".to_string() } else { f.into_iter().collect::<Vec<_>>().join("+") };
            let mut parts = vec!["C19".to_string(), case.relation.clone(), structural.join("+"), path_part];
            parts.push(if side.is_empty() { assertion.clone() } else { format!("{}:{}", assertion, side) });
            parts.push(feat_part);
            if !reproduced {
                parts.push("not_reproducible".into());
            }
            let sig = parts.join("/");
            let firstsig = {
                let e = st.sigs.entry(sig.clone()).or_insert(0);
                *e += 1;
                *e == 1
            };
            let detail = if firstsig {
                json!({
                    "note": "model-free metamorphic check: the two formulations disagree; the check cannot tell which one is wrong",
                    "relation": case.relation,
                    "original_pair": pair_json(&pair),
                    "original_result": detail0,
                    "minimal_pair": pair_json(&min_pair),
                    "minimal_result": min_detail,
                    "minimal_predicates": cur.iter().map(|p| p.as_ref().map(|e| e.sql())).collect::<Vec<_>>(),
                    "select_list_alternatives": alt_results,
                    "setup": w.setup,
                    "indexes": w.index_sql,
                    "needs_index": needs_index,
                    "access_paths": paths,
                })
            } else {
                json!({"relation": case.relation, "minimal_pair": pair_json(&min_pair)})
            };
            // debugging aid: TV_C19_DUMP=<file> appends every first-of-signature violation as a JSON line
            if firstsig {
                if let Ok(path) = std::env::var("TV_C19_DUMP") {
                    use std::io::Write;
                    if let Ok(mut f) = std::fs::OpenOptions::new().create(true).append(true).open(&path) {
                        let _ = writeln!(f, "{}", json!({"sig": sig, "detail": detail}));
                    }
                }
            }
            ctx.violation(&assertion, &sig, detail);
        }
    }
}


// ---------------------------------------------------------------------------------------------
// one database
// ---------------------------------------------------------------------------------------------

fn index_phase(ctx: &mut Ctx, rng: &mut Rng, w: &mut World, sc: &Scratch, st: &mut Stats, rows: &[Vec<Row>], nq: usize) {
    // one or two indexed columns on t / u
    let nidx = if rng.chance(1, 3) { 2 } else { 1 };
    let mut targets: Vec<(usize, ScopeCol, Vec<V>)> = vec![];
    for k in 0..nidx {
        let ti = if nidx == 2 { k } else { rng.below(2) as usize };
        let scope = scope_of(&w.specs[ti], None);
        let cands: Vec<(usize, &ScopeCol)> = scope.iter().enumerate().filter(|(i, c)| *i > 0 && matches!(c.ty, Ty::Int | Ty::Text)).collect();
        if cands.is_empty() {
            continue;
        }
        let (ci, c) = *rng.pick(&cands);
        let mut vals: Vec<V> = rows[ti].iter().map(|r| r[ci].clone()).filter(|v| !v.is_null()).collect();
        vals.truncate(12);
        targets.push((ti, c.clone(), vals));
    }
    if targets.is_empty() {
        ctx.count("index_phase_skipped_no_candidate_column", 1);
        return;
    }
    // queries + their results BEFORE the index exists
    let mut pending: Vec<(Case, Result<(Vec<Row>, Vec<usize>), String>)> = vec![];
    for _ in 0..nq {
        let (ti, c, vals) = rng.pick(&targets).clone();
        let specs = w.specs.clone();
        let case = rel_index_query(rng, &specs, ti, &c, &vals);
        let pair = (case.build)(&case.preds, &case.items.items);
        let before = run_side(&mut w.db, &pair.left);
        pending.push((case, before));
    }
    for (ti, c, _) in &targets {
        let t = &w.specs[*ti].name;
        let sql = format!("CREATE INDEX ix_{}_{} ON {} ({})", t, c.name, t, c.name);
        match w.db.exec(&sql) {
            Ok(_) => w.index_sql.push(sql),
            Err(e) => {
                ctx.violation("create_index", &format!("C19/index/create_index_failed/{}", err_class(&e)), json!({"sql": sql, "error": e, "setup": w.setup}));
                return;
            }
        }
    }
    // re-run on the same database
    for (mut case, before) in pending {
        let pair = (case.build)(&case.preds, &case.items.items);
        let after = run_side(&mut w.db, &pair.right);
        // measured: does the plan of the re-run actually use an index?
        let uses_index = w.db.explain(&pair.right[0]).map(|p| p.contains("IndexScan") || p.contains("IndexNestedLoopJoin")).unwrap_or(false);
        st.bump("index", if uses_index { "plan_uses_an_index" } else { "plan_does_not_use_an_index" });
        case.vacuous = !uses_index;
        let same = match (&before, &after) {
            (Ok((b, _)), Ok((a, _))) => bag_diff(b, a).is_none(),
            (Err(_), Err(_)) => true,
            _ => false,
        };
        if same {
            // held (or both errored): account through the common path with the recorded results
            let v = match (before, after) {
                (Ok((b, bs)), Ok((_, as_))) => Verdict::Held { width: b.first().map(|r| r.len()).unwrap_or(0), left_sizes: bs, right_sizes: as_ },
                (Err(a), Err(b)) => Verdict::BothErr(a, b),
                _ => unreachable!(),
            };
            run_case(ctx, w, sc, st, case, Some(v));
        } else {
            // disagreement between before and after: continue on (index-free twin, indexed database), which is the same comparison
            run_case(ctx, w, sc, st, case, None);
        }
    }
}

fn one_db(ctx: &mut Ctx, rng: &mut Rng, sc: &Scratch, st: &mut Stats, dbi: usize, ncases: usize, nindexq: usize) -> bool {
    let mut specs = vec![];
    let mut rows = vec![];
    let mut setup = vec![];
    for (k, name) in ["t", "u", "w"].iter().enumerate() {
        let ncols = rng.usize(2, if k == 2 { 3 } else { 5 });
        let spec = gen_spec(rng, name, ncols, true);
        let n = match k {
            0 => rng.usize(6, 24),
            1 => rng.usize(4, 14),
            _ => rng.usize(2, 6),
        };
        let r = spec.gen_rows(rng, n);
        setup.push(spec.create_sql());
        setup.extend(spec.insert_sql(&r));
        specs.push(spec);
        rows.push(r);
    }
    let nd = rng.usize(5, 18);
    let dialect_setup: Vec<String> = std::iter::once(DIALECT_CREATE.to_string()).chain(gen_dialect_rows(rng, nd)).collect();
    let db = match Db::create(&sc.dir(&format!("db{}", dbi))) {
        Ok(d) => d,
        Err(e) => {
            ctx.inconclusive(&format!("cannot create database: {}", e));
            return false;
        }
    };
    let mut w = World { specs, setup: vec![], index_sql: vec![], db, plain: None, dbi, dialect_ok: true };
    for s in &setup {
        if let Err(e) = w.db.exec(s) {
            ctx.violation("setup", &format!("C19/setup_failed/{}", err_class(&e)), json!({"statement": s, "error": e, "setup": setup}));
            return true;
        }
    }
    w.setup = setup;
    // the dialect table: if it is not accepted the dialect relations are not generated in this database
    for s in &dialect_setup {
        if let Err(e) = w.db.exec(s) {
            w.dialect_ok = false;
            ctx.count(&format!("dialect_setup_rejected:{}", err_class(&e)), 1);
            if is_panic(&e) {
                ctx.violation("no_panic", &format!("C19/dialect_setup/{}", err_class(&e)), json!({"statement": s, "error": e}));
            }
            break;
        }
    }
    if w.dialect_ok {
        w.setup.extend(dialect_setup);
    }
    w.db.log.clear();
    let index_first = rng.chance(1, 2);
    if index_first {
        index_phase(ctx, rng, &mut w, sc, st, &rows, nindexq);
    }
    for _ in 0..ncases {
        let specs = w.specs.clone();
        let case = match rng.below(100) {
            0..=17 => Some(rel_partition(rng, &specs)),
            18..=29 => Some(rel_commute(rng, &specs)),
            30..=44 => Some(rel_reorder(rng, &specs)),
            45..=56 => Some(rel_add_true(rng, &specs)),
            57..=67 => Some(rel_on_vs_where(rng, &specs)),
            68..=77 => Some(rel_derived(rng, &specs)),
            78..=81 => Some(rel_star_vs_cols(rng, &specs)),
            _ => {
                if w.dialect_ok {
                    rel_dialect(rng, &mut w, ctx)
                } else {
                    None
                }
            }
        };
        if let Some(c) = case {
            run_case(ctx, &mut w, sc, st, c, None);
        }
    }
    if !index_first {
        index_phase(ctx, rng, &mut w, sc, st, &rows, nindexq);
    }
    let paths: Vec<std::path::PathBuf> = std::iter::once(w.db.path.clone()).chain(w.plain.as_ref().map(|p| p.path.clone())).collect();
    drop(w);
    for p in paths {
        let _ = std::fs::remove_dir_all(p);
    }
    true
}

pub fn run(a: &Args) -> i32 {
    let mut ctx = Ctx::new(
        "C19",
        &a.tier,
        a.seed,
        "exploration",
        "model-free metamorphic relations; both formulations run on the same generated TurDB database (tables t,u,w: id PK + 2..5 typed columns with NULL strata, 2..24 rows; table d: VECTOR(3) + JSONB) and their results are compared with each other as bags: (1) ternary partition WHERE p / NOT (p) / (p) IS NULL vs no WHERE over a table, a derived table, an inner join and a comma join; (2) AND/OR operands mirrored at every level, in WHERE and in ON; (3) FROM items of comma/inner joins reordered (2 and 3 tables), select items permuted (compared up to the column permutation); (4) AND 1=1 / AND id = id / OR 1=0 / WHERE 1=1; (5) predicate in ON vs WHERE vs comma-join WHERE; (6) FROM t WHERE p vs FROM (SELECT * FROM t) AS s WHERE p vs FROM (SELECT * FROM t WHERE p) AS s; (7) the same filter/join queries before and after CREATE INDEX on the filtered column (half of the databases run all other relations with the index in place); (8) relations 1,2,4 over vector-distance, JSONB -> / ->> and ROW_NUMBER()/SUM() OVER derived-table predicates, generated only after the plain form was accepted. A disagreement is shrunk with sqlm::expr::shrink_expr to a minimal predicate; a pair that errors on both sides is not judged, on one side only it is `one_side_error`. distinct_nontrivial = distinct (database, pair) whose two texts differ, returned at least one row with columns, and (partition) at least two of the three parts were non-empty",
    );
    ctx.max_samples = 10;
    let mut rng = Rng::derive(a.seed, 19);
    let quick = ctx.quick();
    let (ndb, per_db, nindexq, deadline) = if cfg!(miri) {
        (2, 10, 3, 1.0e9)
    } else if quick {
        (40, 60, 8, 48.0)
    } else {
        (3000, 60, 8, 540.0)
    };
    let scratch = Scratch::new("c19");
    let mut st = Stats::default();
    let mut dbs_done = 0u64;
    for dbi in 0..ndb {
        if ctx.elapsed() > deadline {
            ctx.count("stopped_at_wall_budget", 1);
            break;
        }
        if !one_db(&mut ctx, &mut rng, &scratch, &mut st, dbi, per_db, nindexq) {
            break;
        }
        dbs_done += 1;
    }
    ctx.count("databases", dbs_done);
    ctx.extra.insert("per_relation".into(), json!(st.per_relation));
    ctx.extra.insert("violation_signatures".into(), json!(st.sigs));
    ctx.extra.insert("access_paths_of_held_pairs_sampled_1_in_8".into(), json!(st.held_paths));
    ctx.extra.insert("access_paths_of_disagreeing_minimal_pairs".into(), json!(st.failed_paths));
    // a relation that never produced a judged, non-trivial pair is inconclusive for that relation
    for r in ["partition", "commute", "reorder", "star_vs_cols", "add_true", "on_vs_where", "derived", "index", "dialect_partition", "dialect_commute", "dialect_add_true"] {
        let m = st.per_relation.get(r);
        let seen = m.map(|m| m.get("held_nontrivial").copied().unwrap_or(0) + m.get("failed").copied().unwrap_or(0)).unwrap_or(0);
        if seen == 0 {
            ctx.count(&format!("relation_never_exercised:{}", r), 1);
        }
    }
    ctx.assumptions.push("the generated predicates never raise run-time errors (no division, magnitudes far from overflow), so an error on exactly one side is a disagreement and short-circuit evaluation cannot explain it".into());
    ctx.assumptions.push("window functions use ORDER BY keys ending in the unique id, so ROW_NUMBER() is deterministic".into());
    ctx.assumptions.push("bags are compared with sqlm::cmp::bag_diff (TRUE==1, 1.0==1, floats to 9 significant digits); vectors and JSONB values are compared by their debug rendering".into());
    ctx.finish()
}

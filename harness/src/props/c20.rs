//! C20: scalar functions, CAST, control flow and arithmetic operators match their documented
//! definitions (README "SQL Functions" tables + module docs of src/sql/functions/*.rs; the functions
//! are MySQL-named, so MySQL semantics is the definition where the README gives name + one line).
//!
//! Every case is one function/operator application. It is run as a constant expression
//! (`SELECT f(<literals>)`) and over table columns (`SELECT f(c1, c2) FROM c WHERE id = k`, after the
//! stored arguments were read back and found intact). The oracle (`build`) is written here,
//! independently of TurDB's implementation, over Unicode scalar values / exact i128 arithmetic.
//! Only what the docs pin is asserted; everything else is `NoPanic`.
//!
//! Signature: `C20/<function or operator>/<class of argument>/<assertion>`; arithmetic panics:
//! `C20/no_wrap/panic/<file:line>`.
use crate::report::Ctx;
use crate::rng::{fnv, Rng};
use crate::sqlm::db::{is_panic, Db, Scratch};
use crate::sqlm::val::V;
use crate::Args;
use serde_json::{json, Value as J};
use std::collections::BTreeMap;

// ---------------------------------------------------------------------------------------------
// expectations
// ---------------------------------------------------------------------------------------------

#[derive(Clone, Debug)]
pub enum Exp {
    /// exactly this value (an integral float equal to the expected integer is accepted and vice versa;
    /// TRUE/FALSE are accepted as 1/0)
    Is(V),
    /// a number within relative tolerance
    Near(f64, f64),
    /// must be NULL
    Null,
    /// NULL or an SQL error
    NullOrErr,
    /// float overflow: +-inf, NULL or an SQL error
    InfOrNullOrErr,
    OneOf(Vec<Exp>),
    /// any non-NULL text
    TextAny,
    /// float in [0, 1)
    Unit01,
    /// definition not pinned by the docs: only "does not panic"
    NoPanic,
}

fn exact_int_of_float(f: f64) -> Option<i128> {
    if f.is_finite() && f.fract() == 0.0 && f.abs() < 1.0e38 {
        Some(f as i128)
    } else {
        None
    }
}

fn accepts(exp: &Exp, got: &Result<V, String>) -> bool {
    match exp {
        Exp::NoPanic => true,
        Exp::OneOf(xs) => xs.iter().any(|x| accepts(x, got)),
        Exp::NullOrErr => matches!(got, Err(_) | Ok(V::Null)),
        Exp::InfOrNullOrErr => match got {
            Err(_) | Ok(V::Null) => true,
            Ok(V::Float(f)) => f.is_infinite(),
            _ => false,
        },
        Exp::Null => matches!(got, Ok(V::Null)),
        Exp::TextAny => matches!(got, Ok(V::Text(_))),
        Exp::Unit01 => matches!(got, Ok(V::Float(f)) if *f >= 0.0 && *f < 1.0),
        Exp::Near(x, tol) => {
            let g = match got {
                Ok(V::Float(f)) => *f,
                Ok(V::Int(i)) => *i as f64,
                _ => return false,
            };
            if x.is_infinite() || g.is_infinite() {
                return *x == g;
            }
            if g.is_nan() {
                return false;
            }
            (g - x).abs() <= tol * x.abs().max(1e-300)
        }
        Exp::Is(want) => {
            let g = match got {
                Ok(g) => g,
                Err(_) => return false,
            };
            match (want, g) {
                (V::Null, V::Null) => true,
                (V::Text(a), V::Text(b)) => a == b,
                (V::Int(a), V::Int(b)) => a == b,
                (V::Int(a), V::Bool(b)) => *a == *b as i64,
                (V::Bool(a), V::Bool(b)) => a == b,
                (V::Bool(a), V::Int(b)) => (*a as i64) == *b,
                (V::Int(a), V::Float(f)) => exact_int_of_float(*f) == Some(*a as i128),
                (V::Float(a), V::Float(b)) => a == b || (a.is_nan() && b.is_nan()),
                (V::Float(a), V::Int(b)) => exact_int_of_float(*a) == Some(*b as i128),
                _ => false,
            }
        }
    }
}

// ---------------------------------------------------------------------------------------------
// cases
// ---------------------------------------------------------------------------------------------

#[derive(Clone, Debug)]
pub struct Case {
    /// canonical function/operator name (signature component)
    pub func: String,
    /// class of argument (signature component)
    pub class: String,
    /// expression with {0},{1},.. placeholders
    pub tmpl: String,
    pub args: Vec<V>,
    /// column class per argument: 'i' BIGINT, 'f' DOUBLE PRECISION, 's' TEXT
    pub tys: Vec<char>,
    pub exp: Exp,
    /// name of the sub-assertion when the expectation fails
    pub assertion: &'static str,
    /// per argument: NULL in => NULL out
    pub np: Vec<bool>,
    /// name the case was built from (for rebuilding while shrinking)
    pub call: &'static str,
}

pub fn lit(v: &V) -> String {
    match v {
        V::Int(i) if *i == i64::MIN => "(-9223372036854775807 - 1)".into(),
        V::Int(i) if *i < 0 => format!("({})", i),
        V::Int(i) => i.to_string(),
        V::Float(f) => {
            let s = if f.fract() == 0.0 && f.abs() < 1e15 { format!("{:.1}", f.abs()) } else { format!("{:?}", f.abs()) };
            if f.is_sign_negative() {
                format!("(-{})", s)
            } else {
                s
            }
        }
        other => other.sql(),
    }
}

/// literal as accepted inside INSERT .. VALUES (no expressions there)
fn ins_lit(v: &V) -> String {
    match v {
        V::Int(i) if *i == i64::MIN => "-9223372036854775808".into(),
        V::Int(i) => i.to_string(),
        V::Float(f) => {
            let s = if f.fract() == 0.0 && f.abs() < 1e15 { format!("{:.1}", f.abs()) } else { format!("{:?}", f.abs()) };
            if f.is_sign_negative() {
                format!("-{}", s)
            } else {
                s
            }
        }
        other => other.sql(),
    }
}

fn render(tmpl: &str, parts: &[String]) -> String {
    let mut out = tmpl.to_string();
    for (i, p) in parts.iter().enumerate().rev() {
        out = out.replace(&format!("{{{}}}", i), p);
    }
    out
}

impl Case {
    pub fn const_sql(&self) -> String {
        format!("SELECT {}", render(&self.tmpl, &self.args.iter().map(lit).collect::<Vec<_>>()))
    }
    /// column names assigned to the arguments, None if there are not enough columns of a class
    fn col_names(&self) -> Option<Vec<String>> {
        let (mut ni, mut nf, mut ns) = (0, 0, 0);
        let mut out = vec![];
        for t in &self.tys {
            match t {
                'i' => {
                    ni += 1;
                    if ni > 4 {
                        return None;
                    }
                    out.push(format!("i{}", ni));
                }
                'f' => {
                    nf += 1;
                    if nf > 3 {
                        return None;
                    }
                    out.push(format!("f{}", nf));
                }
                _ => {
                    ns += 1;
                    if ns > 4 {
                        return None;
                    }
                    out.push(format!("s{}", ns));
                }
            }
        }
        Some(out)
    }
}

const C_COLS: [&str; 11] = ["i1", "i2", "i3", "i4", "f1", "f2", "f3", "s1", "s2", "s3", "s4"];

pub fn err_class(e: &str) -> String {
    e.split(|c: char| !c.is_ascii_alphabetic()).filter(|w| !w.is_empty()).take(6).collect::<Vec<_>>().join("_").to_lowercase()
}

fn site_tag(e: &str) -> (String, bool) {
    let site = crate::report::panic_site(e);
    let in_repo = site.starts_with("/repo/");
    (site.rsplit('/').next().unwrap_or("").to_string(), in_repo)
}

// ---------------------------------------------------------------------------------------------
// harness state
// ---------------------------------------------------------------------------------------------

pub struct H {
    pub ctx: Ctx,
    scratch: Scratch,
    db: Option<Db>,
    dbn: usize,
    next_id: i64,
    /// signature -> (occurrences, first example)
    sigs: BTreeMap<String, (u64, J)>,
    judged: BTreeMap<String, u64>,
    np_done: BTreeMap<String, u32>,
    np_cap: u32,
}

impl H {
    fn fresh_db(&mut self) -> bool {
        self.db = None;
        self.dbn += 1;
        let dir = self.scratch.dir(&format!("db{}", self.dbn % 4));
        match Db::create(&dir) {
            Ok(mut d) => {
                let ok = d.exec("CREATE TABLE c (id INT PRIMARY KEY, i1 BIGINT, i2 BIGINT, i3 BIGINT, i4 BIGINT, f1 DOUBLE PRECISION, f2 DOUBLE PRECISION, f3 DOUBLE PRECISION, s1 TEXT, s2 TEXT, s3 TEXT, s4 TEXT)").is_ok()
                    && d.exec("CREATE TABLE w (id INT PRIMARY KEY, i1 BIGINT, i2 BIGINT, r BIGINT)").is_ok();
                if !ok {
                    self.ctx.inconclusive("cannot create the work tables");
                    return false;
                }
                self.db = Some(d);
                self.next_id = 0;
                true
            }
            Err(e) => {
                self.ctx.inconclusive(&format!("cannot create database: {}", e));
                false
            }
        }
    }
    fn db(&mut self) -> &mut Db {
        if self.db.is_none() || self.next_id > 4000 {
            self.fresh_db();
        }
        self.db.as_mut().expect("database")
    }
    /// one-row one-column query
    fn q1(&mut self, sql: &str) -> Result<V, String> {
        let r = self.db().query(sql);
        self.db().log.clear();
        match r {
            Ok(rows) => {
                if rows.len() == 1 && rows[0].len() == 1 {
                    Ok(rows[0][0].clone())
                } else {
                    Err(format!("SHAPE: {} rows x {} columns", rows.len(), rows.first().map(|r| r.len()).unwrap_or(0)))
                }
            }
            Err(e) => Err(e),
        }
    }
    fn exec(&mut self, sql: &str) -> Result<(), String> {
        let r = self.db().exec(sql).map(|_| ());
        self.db().log.clear();
        r
    }
    fn ids(&mut self, sql: &str) -> Result<Vec<i64>, String> {
        let r = self.db().query(sql);
        self.db().log.clear();
        r.map(|rows| rows.iter().map(|r| if let Some(V::Int(i)) = r.first() { *i } else { -1 }).collect())
    }

    fn record(&mut self, sig: String, assertion: &str, detail: J) {
        let e = self.sigs.entry(sig.clone()).or_insert((0, detail.clone()));
        e.0 += 1;
        self.ctx.violation(assertion, &sig, detail);
    }

    /// the column path: store the arguments, read them back, evaluate over the columns
    fn col_path(&mut self, c: &Case) -> Option<(String, Vec<String>, Result<V, String>)> {
        if c.args.is_empty() {
            return None;
        }
        let names = c.col_names()?;
        self.db();
        self.next_id += 1;
        let id = self.next_id;
        let mut vals: BTreeMap<&str, String> = BTreeMap::new();
        for (n, a) in names.iter().zip(&c.args) {
            vals.insert(C_COLS.iter().find(|x| **x == n.as_str()).unwrap(), ins_lit(a));
        }
        let ins = format!("INSERT INTO c VALUES ({}, {})", id, C_COLS.iter().map(|n| vals.get(n).cloned().unwrap_or_else(|| "NULL".into())).collect::<Vec<_>>().join(", "));
        if self.exec(&ins).is_err() {
            self.ctx.count("dropped_column_setup", 1);
            return None;
        }
        // read back (storage fidelity is C11's business: a damaged argument drops the case here)
        let back = self.db().query(&format!("SELECT {} FROM c WHERE id = {}", names.join(", "), id));
        self.db().log.clear();
        let same = match &back {
            Ok(rows) if rows.len() == 1 => rows[0].iter().zip(&c.args).all(|(g, w)| match (g, w) {
                (V::Float(a), V::Float(b)) => a.to_bits() == b.to_bits(),
                _ => g.key(false) == w.key(false),
            }),
            _ => false,
        };
        if !same {
            self.ctx.count("dropped_column_setup", 1);
            return None;
        }
        let sql = format!("SELECT {} FROM c WHERE id = {}", render(&c.tmpl, &names), id);
        let got = self.q1(&sql);
        Some((sql, vec![ins], got))
    }

    /// classify one observed result: None = fine
    fn fail_of(c: &Case, got: &Result<V, String>) -> Option<String> {
        if let Err(e) = got {
            if is_panic(e) {
                let (tag, _) = site_tag(e);
                return Some(format!("panic/{}", tag));
            }
        }
        if accepts(&c.exp, got) {
            return None;
        }
        Some(match got {
            Err(e) => format!("unexpected_error:{}", err_class(e)),
            Ok(_) => c.assertion.to_string(),
        })
    }

    fn got_json(g: &Result<V, String>) -> J {
        match g {
            Ok(v) => json!({"value": v.to_json(), "repr": format!("{:?}", v)}),
            Err(e) => json!({"error": e}),
        }
    }

    /// run one case on both paths, report; returns true if something failed
    pub fn run_case(&mut self, c: &Case, shrink: bool) -> bool {
        self.ctx.eval();
        *self.judged.entry(c.func.clone()).or_insert(0) += 1;
        let csql = c.const_sql();
        let g1 = self.q1(&csql);
        let f1 = Self::fail_of(c, &g1);
        let col = self.col_path(c);
        let f2 = col.as_ref().and_then(|(_, _, g)| Self::fail_of(c, g));
        if !matches!(c.exp, Exp::NoPanic) {
            self.ctx.nontrivial(fnv(csql.as_bytes()));
        } else {
            self.ctx.count("cases_no_panic_only", 1);
        }
        if self.ctx.samples.len() < 6 && self.ctx.evaluations % 997 == 5 {
            self.ctx.sample(json!({"const": csql, "column": col.as_ref().map(|x| x.0.clone()), "expect": format!("{:?}", c.exp), "got_const": Self::got_json(&g1)}));
        }
        if f1.is_none() && f2.is_none() {
            return false;
        }
        // one root cause -> one signature: same failure on both paths = no path suffix
        let (assertion, suffix) = match (&f1, &f2) {
            (Some(a), Some(b)) if a == b => (a.clone(), ""),
            (Some(a), None) if col.is_some() => (a.clone(), "/only_const"),
            (Some(a), None) => (a.clone(), ""),
            (None, Some(b)) => (b.clone(), "/only_column"),
            (Some(a), Some(b)) => (format!("{}|column:{}", a, b), ""),
            _ => unreachable!(),
        };
        let mut small = c.clone();
        if shrink {
            small = self.shrink(c, f1.is_some(), &assertion);
        }
        let sig = format!("C20/{}/{}/{}{}", c.func, c.class, assertion, suffix);
        let detail = json!({
            "const_sql": csql, "const_got": Self::got_json(&g1), "const_fail": f1,
            "column_sql": col.as_ref().map(|x| x.0.clone()), "column_setup": col.as_ref().map(|x| x.1.clone()),
            "column_got": col.as_ref().map(|x| Self::got_json(&x.2)), "column_fail": f2,
            "expected": format!("{:?}", c.exp),
            "minimal_const_sql": small.const_sql(), "minimal_expected": format!("{:?}", small.exp),
        });
        self.record(sig, c.assertion, detail);
        true
    }

    /// shrink text arguments (drop characters) and integers (towards 0) keeping the same failure
    fn shrink(&mut self, c: &Case, on_const: bool, assertion: &str) -> Case {
        let mut best = c.clone();
        let mut budget = 60;
        let mut progress = true;
        while progress && budget > 0 {
            progress = false;
            'outer: for ai in 0..best.args.len() {
                let cands: Vec<V> = match &best.args[ai] {
                    V::Text(s) => {
                        let ch: Vec<char> = s.chars().collect();
                        (0..ch.len()).map(|k| V::Text(ch.iter().enumerate().filter(|(j, _)| *j != k).map(|(_, c)| *c).collect())).collect()
                    }
                    _ => vec![],
                };
                for cand in cands {
                    if budget == 0 {
                        break 'outer;
                    }
                    budget -= 1;
                    let mut args = best.args.clone();
                    args[ai] = cand;
                    let nc = match build(best.call, &args, &best.tys) {
                        Some(n) => n,
                        None => continue,
                    };
                    if nc.class != best.class || nc.assertion != best.assertion {
                        continue;
                    }
                    let fails = if on_const {
                        let g = self.q1(&nc.const_sql());
                        Self::fail_of(&nc, &g)
                    } else {
                        self.col_path(&nc).and_then(|(_, _, g)| Self::fail_of(&nc, &g))
                    };
                    if fails.as_deref() == Some(assertion.split('|').next().unwrap_or(assertion)) || fails.as_deref() == Some(assertion) {
                        best = nc;
                        progress = true;
                        continue 'outer;
                    }
                }
            }
        }
        best
    }

    /// derive the NULL-propagation cases of a (non-NULL) case
    pub fn run_null_variants(&mut self, c: &Case) {
        for i in 0..c.args.len() {
            if !c.np.get(i).copied().unwrap_or(false) || c.args[i].is_null() {
                continue;
            }
            let key = format!("{}/{}/{}", c.func, c.args.len(), i);
            let n = self.np_done.entry(key).or_insert(0);
            if *n >= self.np_cap {
                continue;
            }
            *n += 1;
            let mut nc = c.clone();
            nc.args[i] = V::Null;
            nc.exp = Exp::Null;
            nc.class = format!("null_arg{}", i + 1);
            nc.assertion = "null_propagation";
            self.ctx.count("null_propagation_cases", 1);
            self.run_case(&nc, false);
        }
    }
}

// ---------------------------------------------------------------------------------------------
// the oracle: definitions written from the README tables / module docs (MySQL semantics)
// ---------------------------------------------------------------------------------------------

fn canon(call: &str) -> &str {
    match call {
        "UCASE" => "UPPER",
        "LCASE" => "LOWER",
        "LEN" | "OCTET_LENGTH" => "LENGTH",
        "CHARACTER_LENGTH" => "CHAR_LENGTH",
        "SUBSTRING" | "MID" => "SUBSTR",
        "CEILING" => "CEIL",
        "POW" => "POWER",
        "TRUNC" => "TRUNCATE",
        x => x,
    }
}

/// simple 1:1 case mapping (ASCII, Latin-1 letters, Greek without sigma, Cyrillic)
fn up(c: char) -> char {
    let u = c as u32;
    let r = match u {
        0x61..=0x7a => u - 0x20,
        0xe0..=0xfe if u != 0xf7 => u - 0x20,
        0x3b1..=0x3c9 if u != 0x3c2 => u - 0x20,
        0x430..=0x44f => u - 0x20,
        0x450..=0x45f => u - 0x50,
        _ => u,
    };
    char::from_u32(r).unwrap_or(c)
}
fn low(c: char) -> char {
    let u = c as u32;
    let r = match u {
        0x41..=0x5a => u + 0x20,
        0xc0..=0xde if u != 0xd7 => u + 0x20,
        0x391..=0x3a9 if u != 0x3a2 => u + 0x20,
        0x410..=0x42f => u + 0x20,
        0x400..=0x40f => u + 0x50,
        _ => u,
    };
    char::from_u32(r).unwrap_or(c)
}
fn fold(s: &[char]) -> Vec<char> {
    s.iter().map(|c| low(*c)).collect()
}
fn cs(s: &str) -> Vec<char> {
    s.chars().collect()
}
fn st(v: &[char]) -> String {
    v.iter().collect()
}
fn tx(v: &V) -> Option<Vec<char>> {
    match v {
        V::Text(s) => Some(cs(s)),
        _ => None,
    }
}
fn iv(v: &V) -> Option<i64> {
    match v {
        V::Int(i) => Some(*i),
        _ => None,
    }
}
fn fv(v: &V) -> Option<f64> {
    match v {
        V::Int(i) => Some(*i as f64),
        V::Float(f) => Some(*f),
        _ => None,
    }
}
/// 1-based position of the first occurrence of `n` in `h` at or after 0-based `from`; 0 if none
fn find_chars(h: &[char], n: &[char], from: usize) -> i64 {
    if n.len() > h.len() {
        return 0;
    }
    for s in from..=(h.len() - n.len()) {
        if &h[s..s + n.len()] == n {
            return s as i64 + 1;
        }
    }
    0
}
fn t(s: String) -> Exp {
    Exp::Is(V::Text(s))
}
fn n(i: i64) -> Exp {
    Exp::Is(V::Int(i))
}
fn fits(x: i128) -> Option<i64> {
    if x >= i64::MIN as i128 && x <= i64::MAX as i128 {
        Some(x as i64)
    } else {
        None
    }
}
const TWO63: f64 = 9223372036854775808.0;
const TWO53: i64 = 1 << 53;

fn int_class(xs: &[i64]) -> &'static str {
    if xs.iter().any(|x| *x == i64::MIN) {
        "i64_min"
    } else if xs.iter().any(|x| x.unsigned_abs() > TWO53 as u64) {
        "int_beyond_2p53"
    } else {
        "int"
    }
}

/// Build the case (template, expectation, class) for `call(args)`. None = not a generated shape.
pub fn build(call: &'static str, args: &[V], tys: &[char]) -> Option<Case> {
    let f = canon(call);
    let mb = args.iter().any(|a| matches!(a, V::Text(s) if !s.is_ascii()));
    let mut class = (if mb { "multibyte" } else { "ascii" }).to_string();
    let mut np = vec![true; args.len()];
    let mut assertion = "value";
    let mut tmpl = format!("{}({})", call, (0..args.len()).map(|i| format!("{{{}}}", i)).collect::<Vec<_>>().join(", "));
    let a0 = args.first();
    let exp: Exp = match f {
        // ---- strings -------------------------------------------------------------------------
        "UPPER" => t(tx(a0?)?.iter().map(|c| up(*c)).collect()),
        "LOWER" => t(tx(a0?)?.iter().map(|c| low(*c)).collect()),
        "LENGTH" => n(st(&tx(a0?)?).len() as i64),
        "CHAR_LENGTH" => n(tx(a0?)?.len() as i64),
        "REVERSE" => t(tx(a0?)?.iter().rev().collect()),
        "LEFT" | "RIGHT" => {
            let s = tx(a0?)?;
            let k = iv(&args[1])?;
            let k = k.clamp(0, s.len() as i64) as usize;
            if f == "LEFT" {
                t(st(&s[..k]))
            } else {
                t(st(&s[s.len() - k..]))
            }
        }
        "SUBSTR" => {
            let s = tx(a0?)?;
            let pos = iv(&args[1])?;
            let len = match args.get(2) {
                Some(v) => Some(iv(v)?),
                None => None,
            };
            if pos < 0 && (-pos) as usize > s.len() {
                class.push_str("_pos_before_start");
                Exp::NoPanic
            } else {
                let start = if pos > 0 { (pos - 1) as usize } else if pos < 0 { s.len() - (-pos) as usize } else { usize::MAX };
                if start == usize::MAX || start >= s.len() {
                    t(String::new())
                } else {
                    let l = match len {
                        Some(l) if l <= 0 => 0,
                        Some(l) => (l as usize).min(s.len() - start),
                        None => s.len() - start,
                    };
                    t(st(&s[start..start + l]))
                }
            }
        }
        "CONCAT" => {
            np = vec![false; args.len()];
            if args.iter().any(|a| a.is_null()) {
                class = "null_arg".into();
                assertion = "null_propagation";
                Exp::Null
            } else {
                let mut out = String::new();
                for a in args {
                    match a {
                        V::Text(s) => out.push_str(s),
                        V::Int(i) => out.push_str(&i.to_string()),
                        _ => return None,
                    }
                }
                t(out)
            }
        }
        "CONCAT_WS" => {
            np = vec![false; args.len()];
            np[0] = true;
            if a0?.is_null() {
                class = "null_separator".into();
                assertion = "null_propagation";
                Exp::Null
            } else {
                let sep = st(&tx(a0?)?);
                let mut parts = vec![];
                for a in &args[1..] {
                    match a {
                        V::Text(s) => parts.push(s.clone()),
                        V::Int(i) => parts.push(i.to_string()),
                        V::Null => {
                            class = "null_args_skipped".into();
                        }
                        _ => return None,
                    }
                }
                t(parts.join(&sep))
            }
        }
        "TRIM" | "LTRIM" | "RTRIM" => {
            // only U+0020 padding is generated (README: "whitespace"; MySQL: spaces)
            let s = tx(a0?)?;
            let mut b = 0;
            let mut e = s.len();
            if f != "RTRIM" {
                while b < e && s[b] == ' ' {
                    b += 1;
                }
            }
            if f != "LTRIM" {
                while e > b && s[e - 1] == ' ' {
                    e -= 1;
                }
            }
            t(st(&s[b..e]))
        }
        "LPAD" | "RPAD" => {
            let s = tx(a0?)?;
            let len = iv(&args[1])?;
            let pad = tx(&args[2])?;
            if len < 0 {
                class = "negative_len".into();
                Exp::NoPanic
            } else if pad.is_empty() {
                class.push_str("_empty_pad");
                Exp::NoPanic
            } else {
                let len = len as usize;
                if len <= s.len() {
                    t(st(&s[..len]))
                } else {
                    let fill: Vec<char> = (0..len - s.len()).map(|i| pad[i % pad.len()]).collect();
                    if f == "LPAD" {
                        t(format!("{}{}", st(&fill), st(&s)))
                    } else {
                        t(format!("{}{}", st(&s), st(&fill)))
                    }
                }
            }
        }
        "REPLACE" => {
            let s = tx(a0?)?;
            let from = tx(&args[1])?;
            let to = tx(&args[2])?;
            if from.is_empty() {
                class.push_str("_empty_from");
                Exp::NoPanic
            } else {
                let mut out: Vec<char> = vec![];
                let mut i = 0;
                while i < s.len() {
                    if i + from.len() <= s.len() && s[i..i + from.len()] == from[..] {
                        out.extend_from_slice(&to);
                        i += from.len();
                    } else {
                        out.push(s[i]);
                        i += 1;
                    }
                }
                t(st(&out))
            }
        }
        "REPEAT" => {
            let s = tx(a0?)?;
            let k = iv(&args[1])?;
            if k > 64 {
                return None;
            }
            t(st(&s).repeat(k.max(0) as usize))
        }
        "SPACE" => {
            let k = iv(a0?)?;
            if k > 64 {
                return None;
            }
            class = "count".into();
            t(" ".repeat(k.max(0) as usize))
        }
        "INSTR" | "LOCATE" | "POSITION" => {
            let (h, nd) = if f == "INSTR" { (tx(a0?)?, tx(&args[1])?) } else { (tx(&args[1])?, tx(a0?)?) };
            if f == "POSITION" {
                tmpl = "POSITION({0} IN {1})".into();
                class = "in_syntax".into();
                np = vec![false; 2];
            }
            let pos = match args.get(2) {
                Some(v) => iv(v)?,
                None => 1,
            };
            if nd.is_empty() {
                class.push_str("_empty_needle");
                Exp::NoPanic
            } else if pos < 1 || pos as usize > h.len() {
                n(0)
            } else {
                let r = find_chars(&h, &nd, (pos - 1) as usize);
                // MySQL's default collation is case-insensitive, TurDB compares bytewise: only judge
                // searches where both readings agree
                if find_chars(&fold(&h), &fold(&nd), (pos - 1) as usize) != r {
                    return None;
                }
                n(r)
            }
        }
        "ASCII" => {
            let s = st(&tx(a0?)?);
            match s.bytes().next() {
                None => n(0),
                Some(b) if b < 0x80 => n(b as i64),
                Some(_) => {
                    class = "multibyte_first_char".into();
                    Exp::NoPanic
                }
            }
        }
        "STRCMP" => {
            let a = st(&tx(a0?)?);
            let b = st(&tx(&args[1])?);
            if !a.bytes().chain(b.bytes()).all(|c| c.is_ascii_lowercase() || c.is_ascii_digit()) {
                return None;
            }
            n(match a.as_bytes().cmp(b.as_bytes()) {
                std::cmp::Ordering::Less => -1,
                std::cmp::Ordering::Equal => 0,
                std::cmp::Ordering::Greater => 1,
            })
        }
        "INSERT" => {
            let s = tx(a0?)?;
            let pos = iv(&args[1])?;
            let len = iv(&args[2])?;
            let new = tx(&args[3])?;
            if len < 0 || pos == s.len() as i64 + 1 {
                class.push_str("_edge");
                Exp::NoPanic
            } else if pos < 1 || pos as usize > s.len() {
                t(st(&s))
            } else {
                let start = (pos - 1) as usize;
                let end = (start + len as usize).min(s.len());
                t(format!("{}{}{}", st(&s[..start]), st(&new), st(&s[end..])))
            }
        }
        "SUBSTRING_INDEX" => {
            let s = tx(a0?)?;
            let d = tx(&args[1])?;
            let k = iv(&args[2])?;
            if d.len() != 1 {
                return None;
            }
            let parts: Vec<Vec<char>> = s.split(|c| *c == d[0]).map(|p| p.to_vec()).collect();
            let dl = st(&d);
            let joined = |ps: &[Vec<char>]| ps.iter().map(|p| st(p)).collect::<Vec<_>>().join(&dl);
            if k > 0 {
                t(joined(&parts[..(k as usize).min(parts.len())]))
            } else if k < 0 {
                let skip = parts.len().saturating_sub((-k) as usize);
                t(joined(&parts[skip..]))
            } else {
                t(String::new())
            }
        }
        "FIELD" => {
            np = vec![false; args.len()];
            let s = tx(a0?)?;
            let mut r = 0;
            for (i, a) in args[1..].iter().enumerate() {
                let x = tx(a)?;
                if x == s {
                    r = i as i64 + 1;
                    break;
                }
                if fold(&x) == fold(&s) {
                    return None;
                }
            }
            n(r)
        }
        "FIND_IN_SET" => {
            let s = st(&tx(a0?)?);
            let l = st(&tx(&args[1])?);
            if s.contains(',') {
                return None;
            }
            let mut r = 0;
            for (i, item) in l.split(',').enumerate() {
                if item == s {
                    r = i as i64 + 1;
                    break;
                }
                if fold(&cs(item)) == fold(&cs(&s)) {
                    return None;
                }
            }
            n(r)
        }
        "FORMAT" => {
            class = "number".into();
            Exp::NoPanic
        }
        // ---- numeric -------------------------------------------------------------------------
        "ABS" => match a0? {
            V::Int(i) => {
                class = int_class(&[*i]).into();
                match fits((*i as i128).abs()) {
                    Some(r) => n(r),
                    None => {
                        assertion = "no_wrap";
                        Exp::NullOrErr
                    }
                }
            }
            V::Float(x) => {
                class = "float".into();
                Exp::Near(x.abs(), 0.0)
            }
            _ => return None,
        },
        "SIGN" => {
            let s = match a0? {
                V::Int(i) => {
                    class = int_class(&[*i]).into();
                    i.signum()
                }
                V::Float(x) => {
                    class = "float".into();
                    if *x > 0.0 {
                        1
                    } else if *x < 0.0 {
                        -1
                    } else {
                        0
                    }
                }
                _ => return None,
            };
            n(s)
        }
        "MOD" | "DIV" => match (a0?, &args[1]) {
            (V::Int(a), V::Int(b)) => {
                class = (if int_class(&[*a, *b]) == "int" { "int" } else { "int_beyond_2p53" }).into();
                if *b == 0 {
                    class = "zero_divisor".into();
                    assertion = "div_zero";
                    Exp::NullOrErr
                } else {
                    let r = if f == "MOD" { (*a as i128) % (*b as i128) } else { (*a as i128) / (*b as i128) };
                    match fits(r) {
                        Some(r) => n(r),
                        None => {
                            class = "i64_min_by_minus_one".into();
                            assertion = "no_wrap";
                            Exp::NullOrErr
                        }
                    }
                }
            }
            (x, y) if f == "MOD" => {
                let (x, y) = (fv(x)?, fv(y)?);
                class = "float".into();
                if y == 0.0 {
                    class = "zero_divisor".into();
                    assertion = "div_zero";
                    Exp::NullOrErr
                } else {
                    Exp::Near(x % y, 1e-12)
                }
            }
            _ => return None,
        },
        "CEIL" | "FLOOR" => match a0? {
            V::Int(i) => {
                class = int_class(&[*i]).into();
                n(*i)
            }
            V::Float(x) => {
                let r = if f == "CEIL" { x.ceil() } else { x.floor() };
                if r.abs() < TWO63 {
                    class = "float".into();
                    n(r as i64)
                } else {
                    class = "float_beyond_i64".into();
                    Exp::OneOf(vec![Exp::Near(r, 0.0), Exp::NullOrErr])
                }
            }
            _ => return None,
        },
        "ROUND" | "TRUNCATE" => {
            let d = match args.get(1) {
                Some(v) => iv(v)?,
                None => 0,
            };
            if f == "TRUNCATE" && args.len() < 2 {
                return None;
            }
            match a0? {
                V::Int(i) => {
                    // TurDB routes integers through f64 here: |i| * 10^d must stay below 2^53 to survive that
                    class = (if i.unsigned_abs() >= 1 << 32 {
                        "large_int"
                    } else if d < 0 {
                        "int_negative_digits"
                    } else {
                        "int"
                    })
                    .into();
                    if d.abs() > 30 {
                        class = "scale_overflow".into();
                    }
                    if d >= 0 {
                        n(*i)
                    } else if -d > 30 {
                        n(0)
                    } else {
                        let p = 10i128.pow((-d) as u32);
                        let x = *i as i128;
                        let q = x / p;
                        let rem = (x % p).abs();
                        let r = if f == "TRUNCATE" {
                            Some(q * p)
                        } else if 2 * rem == p {
                            None // tie: rounding mode not pinned by the README
                        } else if 2 * rem > p {
                            Some((q + x.signum()) * p)
                        } else {
                            Some(q * p)
                        };
                        match r {
                            None => {
                                class.push_str("_tie");
                                Exp::NoPanic
                            }
                            Some(r) => match fits(r) {
                                Some(r) => n(r),
                                None => Exp::OneOf(vec![Exp::Near(r as f64, 1e-12), Exp::NullOrErr]),
                            },
                        }
                    }
                }
                V::Float(x) => {
                    class = "float".into();
                    if d.abs() > 30 || !(x * 10f64.powi(d.clamp(0, 30) as i32)).is_finite() {
                        class = "scale_overflow".into();
                    }
                    let want: Option<f64> = if d > 30 {
                        Some(*x)
                    } else if d < -30 {
                        Some(0.0)
                    } else {
                        let m = 10f64.powi(d.unsigned_abs() as i32);
                        let y = if d >= 0 { x * m } else { x / m };
                        if !y.is_finite() || y.abs() >= 4503599627370496.0 {
                            Some(*x)
                        } else {
                            let fr = y.abs() - y.abs().floor();
                            let undecided = if f == "ROUND" { (fr - 0.5).abs() < 1e-6 } else { !(1e-6..=1.0 - 1e-6).contains(&fr) && fr != 0.0 };
                            if undecided {
                                None
                            } else {
                                let r = if f == "ROUND" { y.round() } else { y.trunc() };
                                Some(if d >= 0 { r / m } else { r * m })
                            }
                        }
                    };
                    match want {
                        None => {
                            class.push_str("_boundary");
                            Exp::NoPanic
                        }
                        Some(w) => {
                            if w.abs() >= TWO63 && d <= 0 {
                                class = "float_beyond_i64".into();
                                Exp::OneOf(vec![Exp::Near(w, 1e-12), Exp::NullOrErr])
                            } else {
                                Exp::Near(w, 1e-9)
                            }
                        }
                    }
                }
                _ => return None,
            }
        }
        "SQRT" => {
            let x = fv(a0?)?;
            class = "number".into();
            if x < 0.0 {
                class = "negative".into();
                assertion = "domain";
                Exp::NullOrErr
            } else {
                Exp::Near(x.sqrt(), 1e-14)
            }
        }
        "POWER" => {
            let (x, y) = (fv(a0?)?, fv(&args[1])?);
            class = "number".into();
            let r = x.powf(y);
            if r.is_nan() || (x == 0.0 && y < 0.0) {
                class = "domain".into();
                Exp::NoPanic
            } else if r.is_infinite() {
                class = "overflow".into();
                assertion = "overflow";
                Exp::InfOrNullOrErr
            } else if let (V::Int(b), V::Int(e)) = (a0?, &args[1]) {
                // exact when the integer power is exactly representable
                let mut p: i128 = 1;
                let mut ok = *e >= 0 && *e < 64;
                if ok {
                    for _ in 0..*e {
                        p *= *b as i128;
                        if p.abs() > TWO53 as i128 {
                            ok = false;
                            break;
                        }
                    }
                }
                if ok {
                    n(p as i64)
                } else {
                    Exp::Near(r, 1e-12)
                }
            } else {
                Exp::Near(r, 1e-12)
            }
        }
        "EXP" => {
            let r = fv(a0?)?.exp();
            class = "number".into();
            if r.is_infinite() {
                class = "overflow".into();
                assertion = "overflow";
                Exp::InfOrNullOrErr
            } else {
                Exp::Near(r, 1e-12)
            }
        }
        "LN" | "LOG" | "LOG10" | "LOG2" => {
            class = "number".into();
            if args.len() == 2 {
                let (b, x) = (fv(a0?)?, fv(&args[1])?);
                if b <= 0.0 || b == 1.0 || x <= 0.0 {
                    class = "domain".into();
                    assertion = "domain";
                    Exp::NullOrErr
                } else {
                    Exp::Near(x.ln() / b.ln(), 1e-12)
                }
            } else {
                let x = fv(a0?)?;
                if x <= 0.0 {
                    class = if x == 0.0 { "zero".into() } else { "negative".into() };
                    assertion = "domain";
                    Exp::NullOrErr
                } else {
                    let r = match f {
                        "LOG10" => x.log10(),
                        "LOG2" => x.log2(),
                        _ => x.ln(),
                    };
                    if r == 0.0 {
                        Exp::Near(0.0, 0.0)
                    } else {
                        Exp::Near(r, 1e-12)
                    }
                }
            }
        }
        "SIN" | "COS" | "TAN" | "ATAN" | "ASIN" | "ACOS" | "DEGREES" | "RADIANS" => {
            let x = fv(a0?)?;
            class = "number".into();
            if matches!(f, "ASIN" | "ACOS") && !(-1.0..=1.0).contains(&x) {
                class = "domain".into();
                assertion = "domain";
                Exp::NullOrErr
            } else {
                let r = match f {
                    "SIN" => x.sin(),
                    "COS" => x.cos(),
                    "TAN" => x.tan(),
                    "ATAN" => x.atan(),
                    "ASIN" => x.asin(),
                    "ACOS" => x.acos(),
                    "DEGREES" => x * 180.0 / std::f64::consts::PI,
                    _ => x * std::f64::consts::PI / 180.0,
                };
                if r.abs() < 1e-9 {
                    Exp::NoPanic
                } else {
                    Exp::Near(r, 1e-11)
                }
            }
        }
        "ATAN2" => {
            class = "number".into();
            Exp::Near(fv(a0?)?.atan2(fv(&args[1])?), 1e-11)
        }
        "PI" => {
            class = "none".into();
            Exp::Near(std::f64::consts::PI, 1e-15)
        }
        "RAND" => {
            class = if args.is_empty() { "none".into() } else { "seed".into() };
            np = vec![false; args.len()];
            Exp::Unit01
        }
        "GREATEST" | "LEAST" => {
            np = vec![false; args.len()];
            let nn: Vec<&V> = args.iter().filter(|a| !a.is_null()).collect();
            let has_null = nn.len() != args.len();
            let best: Exp = if nn.is_empty() {
                Exp::Null
            } else if nn.iter().all(|a| matches!(a, V::Int(_))) {
                let xs: Vec<i64> = nn.iter().map(|a| iv(a).unwrap()).collect();
                class = int_class(&xs).into();
                n(if f == "GREATEST" { *xs.iter().max().unwrap() } else { *xs.iter().min().unwrap() })
            } else if nn.iter().all(|a| matches!(a, V::Float(_))) {
                class = "float".into();
                let xs: Vec<f64> = nn.iter().map(|a| fv(a).unwrap()).collect();
                Exp::Near(xs.iter().cloned().fold(if f == "GREATEST" { f64::NEG_INFINITY } else { f64::INFINITY }, |m, x| if f == "GREATEST" { m.max(x) } else { m.min(x) }), 0.0)
            } else if nn.iter().all(|a| matches!(a, V::Text(s) if s.bytes().all(|c| c.is_ascii_lowercase()))) {
                class = "text".into();
                let xs: Vec<String> = nn.iter().map(|a| st(&tx(a).unwrap())).collect();
                t(if f == "GREATEST" { xs.iter().max().unwrap().clone() } else { xs.iter().min().unwrap().clone() })
            } else {
                return None;
            };
            if has_null {
                // MySQL: NULL if any argument is NULL; PostgreSQL: NULLs ignored. README: "Maximum value".
                class = "with_null".into();
                Exp::OneOf(vec![Exp::Null, best])
            } else {
                best
            }
        }
        // ---- control flow --------------------------------------------------------------------
        "IF" => {
            np = vec![false; 3];
            class = match a0? {
                V::Null => "null_condition",
                _ => "condition",
            }
            .into();
            let c = match a0? {
                V::Null => false,
                V::Int(i) => *i != 0,
                _ => return None,
            };
            Exp::Is(if c { args[1].clone() } else { args[2].clone() })
        }
        "IFNULL" => {
            np = vec![false; 2];
            class = if a0?.is_null() { "null_first".into() } else { "value_first".into() };
            Exp::Is(if a0?.is_null() { args[1].clone() } else { args[0].clone() })
        }
        "NULLIF" => {
            np = vec![false; 2];
            let (a, b) = (a0?, &args[1]);
            class = if a.is_null() {
                "null_first".into()
            } else if b.is_null() {
                "null_second".into()
            } else {
                "values".into()
            };
            let eq = match (a, b) {
                (V::Int(x), V::Int(y)) => x == y,
                (V::Text(x), V::Text(y)) => {
                    if x != y && fold(&cs(x)) == fold(&cs(y)) {
                        return None;
                    }
                    x == y
                }
                (V::Null, _) | (_, V::Null) => false,
                _ => return None,
            };
            Exp::Is(if eq { V::Null } else { a.clone() })
        }
        "COALESCE" => {
            np = vec![false; args.len()];
            class = format!("{}_leading_nulls", args.iter().take_while(|a| a.is_null()).count().min(3));
            Exp::Is(args.iter().find(|a| !a.is_null()).cloned().unwrap_or(V::Null))
        }
        "ISNULL" => {
            np = vec![false; 1];
            class = "any".into();
            n(a0?.is_null() as i64)
        }
        _ => return None,
    };
    Some(Case { func: f.to_string(), class, tmpl, args: args.to_vec(), tys: tys.to_vec(), exp, assertion, np, call })
}

// ---------------------------------------------------------------------------------------------
// generators
// ---------------------------------------------------------------------------------------------

const ASCII_POOL: &[char] = &['a', 'b', 'c', 'x', 'A', 'B', 'Z', 'm', '0', '7', ' ', '-', '.', ','];
const MB_POOL: &[char] = &['é', 'É', 'ü', 'Ü', 'ñ', 'я', 'Я', 'ж', 'λ', 'Ω', '漢', '字', '€', '😀', '𝄞', 'ß'];
/// multi-byte characters with a simple 1:1 case mapping or none (for UPPER/LOWER)
const MB_CASE_POOL: &[char] = &['é', 'É', 'ü', 'Ü', 'ñ', 'Ñ', 'я', 'Я', 'ж', 'Ж', 'λ', 'Λ', 'ω', 'Ω', '漢', '€', '😀'];

fn gen_str_from(rng: &mut Rng, maxlen: usize, pools: &[&[char]]) -> String {
    // a small per-string alphabet so that substrings repeat
    let k = rng.usize(1, 4);
    let mut al = vec![];
    for _ in 0..k {
        let p = *rng.pick(pools);
        al.push(*rng.pick(p));
    }
    let l = rng.usize(0, maxlen);
    (0..l).map(|_| *rng.pick(&al)).collect()
}
fn gen_str(rng: &mut Rng, maxlen: usize) -> String {
    match rng.below(3) {
        0 => gen_str_from(rng, maxlen, &[ASCII_POOL]),
        1 => gen_str_from(rng, maxlen, &[MB_POOL]),
        _ => gen_str_from(rng, maxlen, &[ASCII_POOL, MB_POOL]),
    }
}
fn gen_word(rng: &mut Rng, maxlen: usize) -> String {
    // no spaces/commas: for lists and trimming cores
    let s = gen_str(rng, maxlen);
    s.chars().filter(|c| *c != ' ' && *c != ',').collect()
}
fn sub_of(rng: &mut Rng, s: &str, maxlen: usize) -> String {
    let ch = cs(s);
    if ch.is_empty() || rng.chance(1, 4) {
        return gen_str(rng, maxlen.max(1));
    }
    let a = rng.usize(0, ch.len() - 1);
    let l = rng.usize(1, maxlen.max(1)).min(ch.len() - a);
    st(&ch[a..a + l])
}

const INT_EDGES: &[i64] = &[
    0,
    1,
    -1,
    2,
    -2,
    10,
    -10,
    i64::MAX,
    i64::MIN,
    i64::MAX - 1,
    i64::MIN + 1,
    1 << 31,
    -(1 << 31),
    1 << 32,
    3037000499,
    3037000500,
    -3037000500,
    1 << 62,
    -(1 << 62),
    (1 << 53) + 1,
    -((1 << 53) + 1),
    4611686018427387904,
    4611686018427387905,
    9007199254740993,
    1000000007,
];
fn gen_int(rng: &mut Rng) -> i64 {
    match rng.below(6) {
        0 | 1 => *rng.pick(INT_EDGES),
        2 => rng.range(-20, 20),
        3 => rng.range(-100000, 100000),
        4 => rng.next() as i64,
        _ => {
            // near a boundary
            let b = *rng.pick(&[i64::MAX, i64::MIN, 1 << 53, -(1 << 53), 1 << 62]);
            b.saturating_add(rng.range(-3, 3))
        }
    }
}
fn gen_small_int(rng: &mut Rng) -> i64 {
    if rng.chance(1, 2) {
        rng.range(-12, 12)
    } else {
        rng.range(-100000, 100000)
    }
}
const FLOAT_EDGES: &[f64] = &[0.0, -0.0, 1.0, -1.0, 0.5, -0.5, 2.5, -2.5, 1e-7, 1.5e15, 9007199254740992.0, 9.3e18, -9.3e18, 1e19, -1e19, 1e300, -1e300, 1.7e308, 123456.789, -0.001];
fn gen_float(rng: &mut Rng) -> f64 {
    match rng.below(5) {
        0 => *rng.pick(FLOAT_EDGES),
        1 => rng.range(-80, 80) as f64 / 8.0,
        2 => {
            // a short decimal
            let s = format!("{}.{:03}", rng.range(-999, 999), rng.below(1000));
            s.parse().unwrap()
        }
        3 => (rng.f64() - 0.5) * 10f64.powi(rng.range(-3, 20) as i32),
        _ => rng.range(-1000, 1000) as f64,
    }
}
fn gen_moderate_float(rng: &mut Rng) -> f64 {
    match rng.below(3) {
        0 => rng.range(-80, 80) as f64 / 8.0,
        1 => format!("{}.{:02}", rng.range(-99, 99), rng.below(100)).parse().unwrap(),
        _ => rng.range(-30, 30) as f64,
    }
}

fn ty_of(v: &V, dflt: char) -> char {
    match v {
        V::Int(_) | V::Bool(_) => 'i',
        V::Float(_) => 'f',
        V::Text(_) => 's',
        _ => dflt,
    }
}
fn mk(call: &'static str, args: Vec<V>, dflt: &str) -> Option<Case> {
    let d: Vec<char> = dflt.chars().collect();
    let tys: Vec<char> = args.iter().enumerate().map(|(i, a)| ty_of(a, *d.get(i).or(d.last()).unwrap_or(&'s'))).collect();
    build(call, &args, &tys)
}
fn tv(s: String) -> V {
    V::Text(s)
}

const STRING_FUNCS: &[&str] = &[
    "UPPER", "UCASE", "LOWER", "LCASE", "LENGTH", "LEN", "OCTET_LENGTH", "CHAR_LENGTH", "CHARACTER_LENGTH", "REVERSE", "TRIM", "LTRIM", "RTRIM", "ASCII", "LEFT", "RIGHT", "SUBSTR", "SUBSTRING", "MID", "SUBSTR2", "CONCAT",
    "CONCAT_WS", "LPAD", "RPAD", "REPLACE", "REPEAT", "SPACE", "INSTR", "LOCATE", "LOCATE3", "POSITION", "STRCMP", "INSERT", "SUBSTRING_INDEX", "FIELD", "FIND_IN_SET", "FORMAT",
];

fn gen_string_case(rng: &mut Rng, which: &'static str) -> Option<Case> {
    let s = gen_str(rng, 9);
    let len = cs(&s).len() as i64;
    match which {
        "UPPER" | "UCASE" | "LOWER" | "LCASE" => {
            let s = match rng.below(3) {
                0 => gen_str_from(rng, 9, &[ASCII_POOL]),
                1 => gen_str_from(rng, 9, &[MB_CASE_POOL]),
                _ => gen_str_from(rng, 9, &[ASCII_POOL, MB_CASE_POOL]),
            };
            mk(which, vec![tv(s)], "s")
        }
        "LENGTH" | "LEN" | "OCTET_LENGTH" | "CHAR_LENGTH" | "CHARACTER_LENGTH" | "REVERSE" | "ASCII" => mk(which, vec![tv(s)], "s"),
        "TRIM" | "LTRIM" | "RTRIM" => {
            let core = gen_str(rng, 6);
            let core = core.trim_matches(' ').to_string();
            let s = format!("{}{}{}", " ".repeat(rng.usize(0, 3)), core, " ".repeat(rng.usize(0, 3)));
            mk(which, vec![tv(s)], "s")
        }
        "LEFT" | "RIGHT" => mk(which, vec![tv(s), V::Int(rng.range(-2, len + 3))], "si"),
        "SUBSTR" | "SUBSTRING" | "MID" => mk(which, vec![tv(s), V::Int(rng.range(-len, len + 2)), V::Int(rng.range(-1, len + 2))], "sii"),
        "SUBSTR2" => mk(if rng.chance(1, 2) { "SUBSTR" } else { "SUBSTRING" }, vec![tv(s), V::Int(rng.range(-len - 1, len + 2))], "si"),
        "CONCAT" => {
            let k = rng.usize(1, 4);
            let mut args = vec![];
            let mut d = String::new();
            for _ in 0..k {
                match rng.below(8) {
                    0 => {
                        args.push(V::Null);
                        d.push('s');
                    }
                    1 | 2 => {
                        args.push(V::Int(gen_small_int(rng)));
                        d.push('i');
                    }
                    _ => {
                        args.push(tv(gen_str(rng, 5)));
                        d.push('s');
                    }
                }
            }
            mk("CONCAT", args, &d)
        }
        "CONCAT_WS" => {
            let k = rng.usize(1, 3);
            let mut args = vec![if rng.chance(1, 12) { V::Null } else { tv(gen_str(rng, 2)) }];
            for _ in 0..k {
                args.push(match rng.below(5) {
                    0 => V::Null,
                    _ => tv(gen_str(rng, 4)),
                });
            }
            mk("CONCAT_WS", args, "ssss")
        }
        "LPAD" | "RPAD" => {
            // negative lengths: LPAD only (RPAD(.., -1, ..) does not terminate; see the subprocess group)
            let l = if which == "LPAD" && rng.chance(1, 25) { -1 } else { rng.range(0, len + 6) };
            let pad = if rng.chance(1, 20) { String::new() } else { gen_str(rng, 3) };
            mk(which, vec![tv(s), V::Int(l), tv(pad)], "sis")
        }
        "REPLACE" => {
            let from = sub_of(rng, &s, 2);
            mk(which, vec![tv(s), tv(from), tv(gen_str(rng, 3))], "sss")
        }
        "REPEAT" => mk(which, vec![tv(gen_str(rng, 4)), V::Int(rng.range(-1, 5))], "si"),
        "SPACE" => mk(which, vec![V::Int(rng.range(-1, 6))], "i"),
        "INSTR" => {
            let nd = sub_of(rng, &s, 3);
            mk(which, vec![tv(s), tv(nd)], "ss")
        }
        "LOCATE" | "POSITION" => {
            let nd = sub_of(rng, &s, 3);
            mk(which, vec![tv(nd), tv(s)], "ss")
        }
        "LOCATE3" => {
            let nd = sub_of(rng, &s, 2);
            mk("LOCATE", vec![tv(nd), tv(s), V::Int(rng.range(0, len + 2))], "ssi")
        }
        "STRCMP" => {
            let al = ['a', 'b', 'c', 'z', '0', '9'];
            let g = |rng: &mut Rng| -> String { (0..rng.usize(0, 4)).map(|_| *rng.pick(&al)).collect() };
            let a = g(rng);
            let b = if rng.chance(1, 4) { a.clone() } else { g(rng) };
            mk(which, vec![tv(a), tv(b)], "ss")
        }
        "INSERT" => mk(which, vec![tv(s), V::Int(rng.range(-1, len + 3)), V::Int(rng.range(0, len + 3)), tv(gen_str(rng, 3))], "siis"),
        "SUBSTRING_INDEX" => {
            let d = if len > 0 && rng.chance(3, 4) { cs(&s)[rng.usize(0, len as usize - 1)].to_string() } else { ".".to_string() };
            mk(which, vec![tv(s), tv(d), V::Int(rng.range(-4, 4))], "ssi")
        }
        "FIELD" => {
            let k = rng.usize(1, 3);
            let mut args = vec![tv(s.clone())];
            for _ in 0..k {
                args.push(if rng.chance(1, 3) { tv(s.clone()) } else { tv(gen_str(rng, 4)) });
            }
            mk(which, args, "ssss")
        }
        "FIND_IN_SET" => {
            let w = gen_word(rng, 3);
            let k = rng.usize(0, 4);
            let items: Vec<String> = (0..k).map(|_| if rng.chance(1, 3) { w.clone() } else { gen_word(rng, 3) }).collect();
            mk(which, vec![tv(w), tv(items.join(","))], "ss")
        }
        "FORMAT" => mk(which, vec![V::Float(gen_float(rng)), V::Int(rng.range(-1, 4))], "fi"),
        _ => None,
    }
}

const NUMERIC_FUNCS: &[&str] = &[
    "ABS", "ABSF", "SIGN", "SIGNF", "MOD", "MODF", "DIV", "CEIL", "CEILING", "FLOOR", "CEILI", "ROUND1", "ROUND", "ROUNDI", "TRUNCATE", "TRUNCATEI", "SQRT", "POW", "POWER", "EXP", "LN", "LOG", "LOGB", "LOG10", "LOG2", "SIN", "COS",
    "TAN", "ATAN", "ASIN", "ACOS", "ATAN2", "DEGREES", "RADIANS", "PI", "RAND", "GREATEST", "LEAST",
];

fn gen_numeric_case(rng: &mut Rng, which: &'static str) -> Option<Case> {
    let digits = |rng: &mut Rng| -> i64 {
        match rng.below(10) {
            0 => *rng.pick(&[400, -400, 31, -31]),
            1 | 2 | 3 => rng.range(-4, -1),
            _ => rng.range(0, 6),
        }
    };
    match which {
        "ABS" => mk("ABS", vec![V::Int(gen_int(rng).max(i64::MIN + 1))], "i"), // i64::MIN: arithmetic group
        "ABSF" => mk("ABS", vec![V::Float(gen_float(rng))], "f"),
        "SIGN" => mk("SIGN", vec![V::Int(gen_int(rng))], "i"),
        "SIGNF" => mk("SIGN", vec![V::Float(gen_float(rng))], "f"),
        "MOD" | "DIV" => {
            let b = if rng.chance(1, 6) { 0 } else if rng.chance(1, 2) { rng.range(-9, 9) } else { gen_int(rng) };
            mk(which, vec![V::Int(gen_int(rng)), V::Int(b)], "ii")
        }
        "MODF" => {
            let b = if rng.chance(1, 8) { 0.0 } else { gen_moderate_float(rng) };
            mk("MOD", vec![V::Float(gen_moderate_float(rng)), V::Float(b)], "ff")
        }
        "CEIL" | "CEILING" | "FLOOR" => mk(which, vec![V::Float(gen_float(rng))], "f"),
        "CEILI" => mk(if rng.chance(1, 2) { "CEIL" } else { "FLOOR" }, vec![V::Int(gen_int(rng))], "i"),
        "ROUND1" => {
            if rng.chance(1, 2) {
                mk("ROUND", vec![V::Float(gen_float(rng))], "f")
            } else {
                mk("ROUND", vec![V::Int(gen_int(rng))], "i")
            }
        }
        "ROUND" | "TRUNCATE" => mk(which, vec![V::Float(gen_float(rng)), V::Int(digits(rng))], "fi"),
        "ROUNDI" => mk("ROUND", vec![V::Int(gen_int(rng)), V::Int(digits(rng))], "ii"),
        "TRUNCATEI" => mk("TRUNCATE", vec![V::Int(gen_int(rng)), V::Int(digits(rng))], "ii"),
        "SQRT" | "EXP" | "LN" | "LOG" | "LOG10" | "LOG2" => {
            let x = match rng.below(5) {
                0 => V::Int(0),
                1 => V::Int(rng.range(-5, 1000)),
                2 => V::Float(gen_float(rng)),
                3 => V::Float(gen_moderate_float(rng).abs() + 0.125),
                _ => V::Int(*rng.pick(&[1, 2, 4, 8, 10, 100, 1000, -1])),
            };
            mk(which, vec![x], "f")
        }
        "LOGB" => {
            let b = *rng.pick(&[2.0, 10.0, 0.5, 3.0, 1.0, 0.0, -2.0]);
            let x = if rng.chance(1, 6) { 0.0 } else { gen_moderate_float(rng).abs() + 0.25 };
            mk("LOG", vec![V::Float(b), V::Float(x)], "ff")
        }
        "POW" | "POWER" => {
            if rng.chance(1, 2) {
                mk(which, vec![V::Int(rng.range(-12, 12)), V::Int(rng.range(-3, 20))], "ii")
            } else {
                let e = if rng.chance(1, 5) { 400.0 } else { gen_moderate_float(rng) };
                mk(which, vec![V::Float(gen_moderate_float(rng)), V::Float(e)], "ff")
            }
        }
        "SIN" | "COS" | "TAN" | "ATAN" | "DEGREES" | "RADIANS" => mk(which, vec![V::Float(gen_moderate_float(rng))], "f"),
        "ASIN" | "ACOS" => {
            let x = if rng.chance(1, 4) { *rng.pick(&[2.0, -1.5, 1.0000001]) } else { rng.range(-8, 8) as f64 / 8.0 };
            mk(which, vec![V::Float(x)], "f")
        }
        "ATAN2" => mk(which, vec![V::Float(gen_moderate_float(rng)), V::Float(gen_moderate_float(rng))], "ff"),
        "PI" => mk("PI", vec![], ""),
        "RAND" => {
            if rng.chance(1, 2) {
                mk("RAND", vec![], "")
            } else {
                mk("RAND", vec![V::Int(gen_int(rng))], "i")
            }
        }
        "GREATEST" | "LEAST" => {
            let k = rng.usize(2, 4);
            let kind = rng.below(3);
            let mut d = String::new();
            let mut args = vec![];
            for _ in 0..k {
                let (v, c) = match kind {
                    0 => (V::Int(gen_int(rng)), 'i'),
                    1 => (V::Float(gen_float(rng)), 'f'),
                    _ => (tv((0..rng.usize(0, 3)).map(|_| *rng.pick(&['a', 'b', 'z'])).collect()), 's'),
                };
                d.push(c);
                args.push(if rng.chance(1, 10) { V::Null } else { v });
            }
            mk(which, args, &d)
        }
        _ => None,
    }
}

// ---------------------------------------------------------------------------------------------
// directly built cases: CAST, CASE, IF over comparisons, dates, system functions, float arithmetic
// ---------------------------------------------------------------------------------------------

fn direct(func: &str, class: &str, tmpl: &str, args: Vec<V>, dflt: &str, exp: Exp, assertion: &'static str, np: Vec<bool>) -> Case {
    let d: Vec<char> = dflt.chars().collect();
    let tys: Vec<char> = args.iter().enumerate().map(|(i, a)| ty_of(a, *d.get(i).or(d.last()).unwrap_or(&'s'))).collect();
    Case { func: func.into(), class: class.into(), tmpl: tmpl.into(), args, tys, exp, assertion, np, call: "" }
}

fn gen_cast_case(rng: &mut Rng) -> Case {
    let int_ty = *rng.pick(&["INT", "INTEGER", "BIGINT"]);
    let flt_ty = *rng.pick(&["DOUBLE PRECISION", "REAL"]);
    let txt_ty = *rng.pick(&["TEXT", "VARCHAR(64)"]);
    match rng.below(11) {
        0 => {
            let i = gen_int(rng);
            direct("CAST", "int_to_int", &format!("CAST({{0}} AS {})", "BIGINT"), vec![V::Int(i)], "i", n(i), "value", vec![true])
        }
        1 => {
            let i = gen_int(rng);
            direct("CAST", "int_to_text", &format!("CAST({{0}} AS {})", txt_ty), vec![V::Int(i)], "i", t(i.to_string()), "value", vec![true])
        }
        2 => {
            let i = gen_int(rng);
            // nearest double (Rust `as` rounds to nearest, the IEEE definition)
            direct("CAST", if i.unsigned_abs() > TWO53 as u64 { "int_beyond_2p53_to_float" } else { "int_to_float" }, "CAST({0} AS DOUBLE PRECISION)", vec![V::Int(i)], "i", Exp::Near(i as f64, 0.0), "value", vec![true])
        }
        3 => {
            // float -> integer: integral values exact; fractional values: truncation (SQLite) or rounding
            // (MySQL/PostgreSQL) are both accepted since the README does not pin it
            let x = gen_float(rng);
            let (class, exp) = if x.abs() >= TWO63 {
                ("float_beyond_i64_to_int", Exp::NoPanic)
            } else if x.fract() == 0.0 {
                ("integral_float_to_int", n(x as i64))
            } else {
                ("float_to_int", Exp::OneOf(vec![n(x.trunc() as i64), n(x.round() as i64)]))
            };
            direct("CAST", class, &format!("CAST({{0}} AS {})", int_ty), vec![V::Float(x)], "f", exp, "value", vec![true])
        }
        4 => {
            let k = rng.range(-4000, 4000);
            let x = k as f64 / 8.0;
            if x.fract() == 0.0 {
                return direct("CAST", "float_to_float", &format!("CAST({{0}} AS {})", "DOUBLE PRECISION"), vec![V::Float(x)], "f", Exp::Near(x, 0.0), "value", vec![true]);
            }
            direct("CAST", "float_to_text", &format!("CAST({{0}} AS {})", txt_ty), vec![V::Float(x)], "f", t(format!("{}", x)), "value", vec![true])
        }
        5 => {
            let i = gen_int(rng);
            direct("CAST", "decimal_text_to_int", &format!("CAST({{0}} AS {})", "BIGINT"), vec![tv(i.to_string())], "s", n(i), "value", vec![true])
        }
        6 => {
            let x = rng.range(-4000, 4000) as f64 / 8.0;
            direct("CAST", "decimal_text_to_float", &format!("CAST({{0}} AS {})", flt_ty), vec![tv(format!("{:?}", x))], "s", Exp::Near(x, 0.0), "value", vec![true])
        }
        7 => {
            let i = if rng.chance(1, 3) { 0 } else { gen_small_int(rng) };
            direct("CAST", "int_to_bool", "CAST({0} AS BOOLEAN)", vec![V::Int(i)], "i", Exp::Is(V::Bool(i != 0)), "value", vec![true])
        }
        8 => {
            let (s, b) = *rng.pick(&[("true", true), ("false", false), ("TRUE", true), ("FALSE", false)]);
            direct("CAST", "text_to_bool", "CAST({0} AS BOOLEAN)", vec![tv(s.into())], "s", Exp::Is(V::Bool(b)), "value", vec![true])
        }
        9 => {
            let b = rng.chance(1, 2);
            direct("CAST", "bool_literal_to_int", &format!("CAST({} AS {})", if b { "TRUE" } else { "FALSE" }, int_ty), vec![], "", n(b as i64), "value", vec![])
        }
        _ => {
            // not a number: MySQL 0 + warning, PostgreSQL error, TurDB NULL: not pinned
            let s = gen_str(rng, 5);
            direct("CAST", "arbitrary_text_to_int", &format!("CAST({{0}} AS {})", int_ty), vec![tv(s)], "s", Exp::NoPanic, "value", vec![true])
        }
    }
}

fn gen_value(rng: &mut Rng, kind: u64) -> V {
    if kind == 0 {
        V::Int(gen_small_int(rng))
    } else {
        tv(gen_str(rng, 4))
    }
}

fn gen_control_case(rng: &mut Rng) -> Option<Case> {
    let kind = rng.below(2);
    let d = if kind == 0 { 'i' } else { 's' };
    let val = |rng: &mut Rng, null_in: u64| -> V {
        if rng.below(null_in) == 0 {
            V::Null
        } else if rng.chance(1, 4) && kind == 0 {
            V::Int(*rng.pick(&[1, 2, 3]))
        } else {
            gen_value(rng, kind)
        }
    };
    let cmp3 = |a: &V, b: &V| -> Option<bool> { a.sql_cmp(b).map(|o| o == std::cmp::Ordering::Greater) };
    match rng.below(9) {
        0 => {
            let c = rng.pick(&[V::Int(0), V::Int(1), V::Int(-3), V::Null, V::Int(7)]).clone();
            let (a, b) = (val(rng, 5), val(rng, 5));
            mk("IF", vec![c.clone(), a, b], &format!("i{}{}", d, d))
        }
        1 => {
            // IF over a comparison that may be UNKNOWN
            let (x, y) = (if rng.chance(1, 4) { V::Null } else { V::Int(rng.range(-3, 3)) }, if rng.chance(1, 4) { V::Null } else { V::Int(rng.range(-3, 3)) });
            let (a, b) = (val(rng, 6), val(rng, 6));
            let taken = cmp3(&x, &y) == Some(true);
            let class = if x.is_null() || y.is_null() { "unknown_comparison" } else { "comparison" };
            Some(direct("IF", class, "IF({0} > {1}, {2}, {3})", vec![x, y, a.clone(), b.clone()], &format!("ii{}{}", d, d), Exp::Is(if taken { a } else { b }), "value", vec![false; 4]))
        }
        2 => mk(if rng.chance(1, 2) { "IFNULL" } else { "IFNULL" }, vec![val(rng, 3), val(rng, 5)], &format!("{}{}", d, d)),
        3 => {
            let a = val(rng, 5);
            let b = if rng.chance(1, 3) { a.clone() } else { val(rng, 5) };
            mk("NULLIF", vec![a, b], &format!("{}{}", d, d))
        }
        4 => {
            let k = rng.usize(1, 4);
            let args: Vec<V> = (0..k).map(|_| val(rng, 2)).collect();
            mk("COALESCE", args, &d.to_string().repeat(4))
        }
        5 => mk("ISNULL", vec![val(rng, 3)], &d.to_string()),
        6 => {
            // searched CASE: first WHEN whose condition is TRUE (UNKNOWN is not TRUE)
            let (x, y, z) = (if rng.chance(1, 3) { V::Null } else { V::Int(rng.range(-2, 2)) }, if rng.chance(1, 4) { V::Null } else { V::Int(rng.range(-2, 2)) }, if rng.chance(1, 4) { V::Null } else { V::Int(rng.range(-2, 2)) });
            let (r1, r2, r3) = (val(rng, 8), val(rng, 8), val(rng, 8));
            let with_else = rng.chance(2, 3);
            let want = if cmp3(&x, &y) == Some(true) {
                r1.clone()
            } else if x.sql_cmp(&z) == Some(std::cmp::Ordering::Equal) {
                r2.clone()
            } else if with_else {
                r3.clone()
            } else {
                V::Null
            };
            let class = if x.is_null() || y.is_null() || z.is_null() { "searched_unknown_condition" } else { "searched" };
            let tmpl = if with_else { "CASE WHEN {0} > {1} THEN {3} WHEN {0} = {2} THEN {4} ELSE {5} END" } else { "CASE WHEN {0} > {1} THEN {3} WHEN {0} = {2} THEN {4} END" };
            let mut args = vec![x, y, z, r1, r2];
            let mut dd = format!("iii{}{}", d, d);
            if with_else {
                args.push(r3);
                dd.push(d);
            }
            let np = vec![false; args.len()];
            Some(direct("CASE", class, tmpl, args, &dd, Exp::Is(want), "value", np))
        }
        7 => {
            // simple CASE: operand = when-value under SQL equality (NULL equals nothing)
            let op = val(rng, 4);
            let w1 = if rng.chance(1, 3) { op.clone() } else { val(rng, 4) };
            let w2 = if rng.chance(1, 3) { op.clone() } else { val(rng, 4) };
            if let (V::Text(_), _) | (_, V::Text(_)) = (&op, &w1) {
                // bytewise vs case-insensitive collation: only identical or fold-different strings
                for w in [&w1, &w2] {
                    if let (V::Text(a), V::Text(b)) = (&op, w) {
                        if a != b && fold(&cs(a)) == fold(&cs(b)) {
                            return None;
                        }
                    }
                }
            }
            let eq = |a: &V, b: &V| a.sql_cmp(b) == Some(std::cmp::Ordering::Equal);
            let want = if eq(&op, &w1) {
                V::Text("first".into())
            } else if eq(&op, &w2) {
                V::Text("second".into())
            } else {
                V::Text("else".into())
            };
            let class = if op.is_null() {
                "simple_null_operand"
            } else if w1.is_null() || w2.is_null() {
                "simple_null_when_value"
            } else {
                "simple"
            };
            Some(direct("CASE", class, "CASE {0} WHEN {1} THEN 'first' WHEN {2} THEN 'second' ELSE 'else' END", vec![op, w1, w2], &d.to_string().repeat(3), Exp::Is(want), "value", vec![false; 3]))
        }
        _ => {
            // CASE without ELSE and no match -> NULL
            let x = V::Int(rng.range(0, 3));
            let want = if x.sql_cmp(&V::Int(1)) == Some(std::cmp::Ordering::Equal) { V::Text("one".into()) } else { V::Null };
            Some(direct("CASE", "no_else", "CASE {0} WHEN 1 THEN 'one' END", vec![x], "i", Exp::Is(want), "value", vec![false]))
        }
    }
}

fn fixed_cases() -> Vec<Case> {
    let s = |x: &str| tv(x.to_string());
    vec![
        // date functions: spot checks only (C41 covers the calendar)
        direct("YEAR", "date_text", "YEAR({0})", vec![s("2024-02-29")], "s", n(2024), "value", vec![true]),
        direct("MONTH", "date_text", "MONTH({0})", vec![s("2024-02-29")], "s", n(2), "value", vec![true]),
        direct("DAY", "date_text", "DAY({0})", vec![s("2024-02-29")], "s", n(29), "value", vec![true]),
        direct("DATEDIFF", "date_text", "DATEDIFF({0}, {1})", vec![s("2024-03-01"), s("2024-02-28")], "ss", n(2), "value", vec![true, true]),
        direct("LAST_DAY", "date_text", "LAST_DAY({0})", vec![s("2023-02-10")], "s", t("2023-02-28".into()), "value", vec![true]),
        direct("DAYOFWEEK", "date_text", "DAYOFWEEK({0})", vec![s("2024-01-01")], "s", n(2), "value", vec![true]),
        direct("DAYOFYEAR", "date_text", "DAYOFYEAR({0})", vec![s("2024-12-31")], "s", n(366), "value", vec![true]),
        // system functions: result format not pinned
        direct("VERSION", "none", "VERSION()", vec![], "", Exp::TextAny, "value", vec![]),
        direct("DATABASE", "none", "DATABASE()", vec![], "", Exp::NoPanic, "value", vec![]),
        direct("TYPEOF", "int", "TYPEOF({0})", vec![V::Int(1)], "i", Exp::TextAny, "value", vec![false]),
        direct("TYPEOF", "text", "TYPEOF({0})", vec![s("a")], "s", Exp::TextAny, "value", vec![false]),
        direct("TYPEOF", "float", "TYPEOF({0})", vec![V::Float(1.5)], "f", Exp::TextAny, "value", vec![false]),
        // documented examples from the README tables / module docs
        direct("SUBSTRING_INDEX", "ascii", "SUBSTRING_INDEX({0}, {1}, {2})", vec![s("www.mysql.com"), s("."), V::Int(-2)], "ssi", t("mysql.com".into()), "value", vec![true, true, true]),
        direct("INSERT", "ascii", "INSERT({0}, {1}, {2}, {3})", vec![s("Quadratic"), V::Int(3), V::Int(4), s("What")], "siis", t("QuWhattic".into()), "value", vec![true, true, true, true]),
        direct("CAST", "null", "CAST({0} AS BIGINT)", vec![V::Null], "i", Exp::Null, "null_propagation", vec![false]),
        direct("CAST", "null", "CAST({0} AS TEXT)", vec![V::Null], "s", Exp::Null, "null_propagation", vec![false]),
        direct("CAST", "null", "CAST({0} AS DOUBLE PRECISION)", vec![V::Null], "f", Exp::Null, "null_propagation", vec![false]),
    ]
}

/// float and mixed arithmetic through the operators
fn gen_float_arith_case(rng: &mut Rng) -> Case {
    let op = *rng.pick(&["+", "-", "*", "/", "%"]);
    let mixed = rng.below(3);
    let ga = |rng: &mut Rng| if rng.chance(1, 8) { *rng.pick(&[0.0, 1e300, -1e300, 1e-7]) } else { gen_moderate_float(rng) };
    let (a, b) = match mixed {
        0 => (V::Float(ga(rng)), V::Float(ga(rng))),
        1 => (V::Int(gen_small_int(rng)), V::Float(ga(rng))),
        _ => (V::Float(ga(rng)), V::Int(if rng.chance(1, 6) { 0 } else { gen_small_int(rng) })),
    };
    let (x, y) = (fv(&a).unwrap(), fv(&b).unwrap());
    let name = match op {
        "+" => "add",
        "-" => "sub",
        "*" => "mul",
        "/" => "div",
        _ => "mod",
    };
    let (class, exp, assertion): (&str, Exp, &'static str) = if (op == "/" || op == "%") && y == 0.0 {
        ("float_zero_divisor", Exp::NullOrErr, "div_zero")
    } else {
        let r = match op {
            "+" => x + y,
            "-" => x - y,
            "*" => x * y,
            "/" => x / y,
            _ => x % y,
        };
        if r.is_infinite() {
            ("float_overflow", Exp::InfOrNullOrErr, "overflow")
        } else {
            (if mixed == 0 { "float" } else { "int_float_mixed" }, Exp::Near(r, 1e-12), "value")
        }
    };
    direct(name, class, &format!("{{0}} {} {{1}}", op), vec![a, b], "ff", exp, assertion, vec![true, true])
}

// ---------------------------------------------------------------------------------------------
// integer arithmetic: no_wrap / division by zero / truncation, on five evaluation paths
// ---------------------------------------------------------------------------------------------

#[derive(Clone, Copy, Debug, PartialEq)]
enum Ar {
    Val(i64),
    Overflow,
    DivZero,
}

fn arith_exact(op: &str, a: i64, b: i64) -> Ar {
    let (x, y) = (a as i128, b as i128);
    let r = match op {
        "add" => x + y,
        "sub" => x - y,
        "mul" => x * y,
        "div" => {
            if b == 0 {
                return Ar::DivZero;
            }
            x / y // truncates toward zero
        }
        "mod" => {
            if b == 0 {
                return Ar::DivZero;
            }
            x % y // sign of the dividend
        }
        "neg" => -x,
        _ => x.abs(),
    };
    match fits(r) {
        Some(v) => Ar::Val(v),
        None => Ar::Overflow,
    }
}

fn arith_tmpl(op: &str) -> &'static str {
    match op {
        "add" => "{0} + {1}",
        "sub" => "{0} - {1}",
        "mul" => "{0} * {1}",
        "div" => "{0} / {1}",
        "mod" => "{0} % {1}",
        "neg" => "-{0}",
        _ => "ABS({0})",
    }
}

fn gen_arith_operands(rng: &mut Rng, op: &str) -> (i64, i64) {
    let a = gen_int(rng);
    let b = match rng.below(8) {
        0 => 0,
        1 => -1,
        2 => {
            // make the result land next to the i64 boundary
            match op {
                "add" => (i64::MAX as i128 - a as i128 + rng.range(-2, 2) as i128).clamp(i64::MIN as i128, i64::MAX as i128) as i64,
                "sub" => (a as i128 - i64::MAX as i128 + rng.range(-2, 2) as i128).clamp(i64::MIN as i128, i64::MAX as i128) as i64,
                "mul" if a != 0 => (i64::MAX / a).saturating_add(rng.range(-1, 1)),
                _ => gen_int(rng),
            }
        }
        3 => rng.range(-9, 9),
        _ => gen_int(rng),
    };
    (a, b)
}

impl H {
    fn arith_violation(&mut self, op: &str, path: &str, class: &str, what: &str, got: &Result<String, String>, sql: &str, setup: &[String], expected: &str) {
        let sig = match got {
            Err(e) if is_panic(e) => {
                let (tag, in_repo) = site_tag(e);
                if in_repo {
                    format!("C20/no_wrap/panic/{}", tag)
                } else {
                    format!("C20/no_wrap/panic/{}:{}", op, tag)
                }
            }
            Err(e) => format!("C20/{}/{}/{}/unexpected_error:{}/{}", op, class, what, err_class(e), path),
            Ok(_) => format!("C20/{}/{}/{}/{}", op, class, what, path),
        };
        let detail = json!({"op": op, "path": path, "setup": setup, "sql": sql, "expected": expected, "got": match got { Ok(s) => json!(s), Err(e) => json!({"error": e}) }});
        self.record(sig, what, detail);
    }

    /// one integer operator application on all paths
    pub fn run_arith(&mut self, op: &'static str, a: i64, b: i64) {
        self.ctx.eval();
        *self.judged.entry(format!("op:{}", op)).or_insert(0) += 1;
        let unary = op == "neg" || op == "abs";
        let want = arith_exact(op, a, b);
        let class = match want {
            Ar::Overflow => "overflow",
            Ar::DivZero => "zero_divisor",
            Ar::Val(_) => {
                if (op == "div" || op == "mod") && (a < 0 || b < 0) {
                    "negative_operand"
                } else {
                    int_class(&[a, b])
                }
            }
        };
        let what = match want {
            Ar::Overflow => "no_wrap",
            Ar::DivZero => "div_zero",
            Ar::Val(_) => "value",
        };
        let expected = format!("{:?}", want);
        let exp = match want {
            Ar::Val(v) => n(v),
            _ => Exp::NullOrErr,
        };
        let tmpl = arith_tmpl(op);
        let lits = vec![lit(&V::Int(a)), lit(&V::Int(b))];
        let cols = vec!["i1".to_string(), "i2".to_string()];
        let e_lit = render(tmpl, &lits);
        let e_col = render(tmpl, &cols);
        self.ctx.nontrivial(fnv(format!("{}|{}|{}", op, a, if unary { 0 } else { b }).as_bytes()));
        let show = |g: &Result<V, String>| -> Result<String, String> { g.clone().map(|v| format!("{:?}", v)) };

        // path 1: constant expression
        let sql = format!("SELECT {}", e_lit);
        let g = self.q1(&sql);
        let bad = matches!(&g, Err(e) if is_panic(e)) || !accepts(&exp, &g);
        if bad {
            self.arith_violation(op, "const", class, what, &show(&g), &sql, &[], &expected);
        }

        // table w: row 1 = the operands, row 2 = (1, 1)
        let setup = vec!["DELETE FROM w".to_string(), format!("INSERT INTO w VALUES (1, {}, {}, NULL), (2, 1, 1, NULL)", ins_lit(&V::Int(a)), ins_lit(&V::Int(b)))];
        self.db();
        for s in &setup {
            if self.exec(s).is_err() {
                self.ctx.count("dropped_column_setup", 1);
                self.fresh_db();
                return;
            }
        }
        match self.db().query("SELECT i1, i2 FROM w WHERE id = 1") {
            Ok(rows) if rows.len() == 1 && matches!((&rows[0][0], &rows[0][1]), (V::Int(x), V::Int(y)) if *x == a && *y == b) => {}
            _ => {
                self.ctx.count("dropped_column_setup", 1);
                return;
            }
        }
        // path 2: select list over columns
        let sql = format!("SELECT {} FROM w WHERE id = 1", e_col);
        let g = self.q1(&sql);
        if matches!(&g, Err(e) if is_panic(e)) || !accepts(&exp, &g) {
            self.arith_violation(op, "column", class, what, &show(&g), &sql, &setup, &expected);
        }
        // path 3: WHERE
        let r2 = arith_exact(op, 1, 1);
        let (sql, want_ids): (String, Vec<i64>) = match want {
            Ar::Val(v) => {
                let mut ids = vec![1];
                if r2 == Ar::Val(v) {
                    ids.push(2);
                }
                (format!("SELECT id FROM w WHERE {} = {}", e_col, lit(&V::Int(v))), ids)
            }
            // no value: the row must not satisfy any comparison of its result
            _ => (format!("SELECT id FROM w WHERE ({e}) >= 0 OR ({e}) < 0", e = e_col), vec![2]),
        };
        let g = self.ids(&sql);
        let ok = match (&g, want) {
            (Err(e), _) if is_panic(e) => false,
            (Err(_), Ar::Val(_)) => false,
            (Err(_), _) => true,
            (Ok(ids), _) => {
                let mut s = ids.clone();
                s.sort();
                s == want_ids
            }
        };
        if !ok {
            let shown = g.clone().map(|ids| format!("ids {:?}", ids));
            self.arith_violation(op, "where", class, what, &shown, &sql, &setup, &format!("ids {:?} ({})", want_ids, expected));
        }
        // path 4: ORDER BY expression
        let sql = format!("SELECT id FROM w ORDER BY {}, id", e_col);
        let g = self.ids(&sql);
        let ok = match (&g, want, r2) {
            (Err(e), _, _) if is_panic(e) => false,
            (Ok(ids), Ar::Val(v), Ar::Val(v2)) if v != v2 => *ids == if v < v2 { vec![1, 2] } else { vec![2, 1] },
            (Err(_), Ar::Val(_), _) => false,
            _ => true,
        };
        if !ok {
            let shown = g.clone().map(|ids| format!("ids {:?}", ids));
            if matches!(&g, Ok(ids) if *ids == vec![1, 2]) {
                // rows come back in id order although the key says otherwise: the sort key was not evaluated
                let detail = json!({"op": op, "setup": setup, "sql": sql, "expected": format!("row 1 -> {}, row 2 -> {:?}", expected, r2), "got": shown.clone().unwrap_or_default()});
                self.record("C20/order_by/sort_key_ignored/value".to_string(), "value", detail);
            } else {
                self.arith_violation(op, "order_by", "any", what, &shown, &sql, &setup, &format!("row 1 -> {}, row 2 -> {:?}", expected, r2));
            }
        }
        // path 5: UPDATE .. SET r = expr (README: `SET age = age + 1`); + - * / and unary minus
        if matches!(op, "add" | "sub" | "mul" | "div" | "neg") {
            let sql = format!("UPDATE w SET r = {} WHERE id = 1", e_col);
            let u = self.exec(&sql);
            let panicked = matches!(&u, Err(e) if is_panic(e));
            let res: Result<V, String> = match u {
                Err(e) => Err(e),
                Ok(()) => self.q1("SELECT r FROM w WHERE id = 1"),
            };
            let ok = !panicked && accepts(&exp, &res);
            if !ok {
                self.arith_violation(op, "update_set", class, what, &show(&res), &sql, &setup, &expected);
            }
            if panicked {
                self.fresh_db();
            }
        }
    }
}

// ---------------------------------------------------------------------------------------------
// calls that may exhaust memory instead of panicking: run in a child process with an address-space cap
// ---------------------------------------------------------------------------------------------

#[cfg(all(unix, not(miri)))]
pub struct Hostile {
    kids: Vec<(&'static str, &'static str, &'static str, std::process::Child)>,
}

const HOSTILE_STMTS: &[(&str, &str, &str)] = &[
    ("RPAD", "negative_len", "SELECT RPAD('hi', -1, 'x')"),
    ("LPAD", "huge_len", "SELECT LPAD('hi', 1000000000000, 'x')"),
    ("RPAD", "huge_len", "SELECT RPAD('hi', 1000000000000, 'x')"),
    ("REPEAT", "huge_count", "SELECT REPEAT('ab', 1000000000000)"),
    ("SPACE", "huge_count", "SELECT SPACE(1000000000000)"),
];
const CAP_MIB: u64 = 256;
const CAP_CPU_S: u64 = 15;

/// start `tv sql <stmt>` children with an address-space cap, a cpu cap and core dumps disabled
#[cfg(all(unix, not(miri)))]
fn hostile_spawn(h: &mut H) -> Hostile {
    use std::os::unix::process::CommandExt;
    use std::process::{Command, Stdio};
    let mut kids = vec![];
    let exe = match std::env::current_exe() {
        Ok(e) => e,
        Err(_) => return Hostile { kids },
    };
    for (f, class, stmt) in HOSTILE_STMTS {
        let mut cmd = Command::new(&exe);
        cmd.arg("sql").arg(stmt).env("RUST_BACKTRACE", "0").stdout(Stdio::piped()).stderr(Stdio::null()).stdin(Stdio::null());
        unsafe {
            cmd.pre_exec(|| {
                let lim = libc::rlimit { rlim_cur: CAP_MIB << 20, rlim_max: CAP_MIB << 20 };
                libc::setrlimit(libc::RLIMIT_AS, &lim);
                let cpu = libc::rlimit { rlim_cur: CAP_CPU_S, rlim_max: CAP_CPU_S + 1 };
                libc::setrlimit(libc::RLIMIT_CPU, &cpu);
                let core = libc::rlimit { rlim_cur: 0, rlim_max: 0 };
                libc::setrlimit(libc::RLIMIT_CORE, &core);
                Ok(())
            });
        }
        match cmd.spawn() {
            Ok(c) => kids.push((*f, *class, *stmt, c)),
            Err(_) => h.ctx.count("subprocess_unavailable", 1),
        }
    }
    Hostile { kids }
}

#[cfg(all(unix, not(miri)))]
fn hostile_collect(h: &mut H, ho: Hostile) {
    use std::os::unix::process::ExitStatusExt;
    for (f, class, stmt, child) in ho.kids {
        h.ctx.eval();
        h.ctx.count("subprocess_cases", 1);
        let pid = child.id();
        let out = match child.wait_with_output() {
            Ok(o) => o,
            Err(_) => {
                h.ctx.count("subprocess_unavailable", 1);
                continue;
            }
        };
        let _ = std::fs::remove_dir_all(format!("{}/scratch/probe-{}", crate::report::VERIF_DIR, pid));
        let text: String = String::from_utf8_lossy(&out.stdout).chars().take(300).collect();
        if let Some(sig) = out.status.signal() {
            h.record(
                format!("C20/{}/{}/resource_exhaustion", f, class),
                "no_panic",
                json!({"sql": stmt, "outcome": format!("child process killed by signal {}", sig), "caps": format!("address space {} MiB, cpu {} s, set by the harness; without them the process grows until the OOM killer ends it", CAP_MIB, CAP_CPU_S), "output": text}),
            );
        } else if text.contains("ERR PANIC") {
            let site = text.split(" @ ").last().unwrap_or("").trim().rsplit('/').next().unwrap_or("").to_string();
            h.record(format!("C20/{}/{}/panic/{}", f, class, site), "no_panic", json!({"sql": stmt, "output": text}));
        } else {
            h.ctx.nontrivial(fnv(stmt.as_bytes()));
        }
    }
}

// ---------------------------------------------------------------------------------------------
// driver
// ---------------------------------------------------------------------------------------------

pub fn run(a: &Args) -> i32 {
    let ctx = Ctx::new(
        "C20",
        &a.tier,
        a.seed,
        "exploration",
        "one function/operator application per case, evaluated as `SELECT f(<literals>)` and as `SELECT f(<columns>) FROM c WHERE id = k` (arguments stored, read back intact); oracle = definitions written in the harness from the README function tables / module docs with MySQL semantics (characters = Unicode scalar values, exact i128 integer arithmetic); string functions on ASCII and multi-byte strings, numeric functions on boundary integers/floats, CAST, IF/IFNULL/NULLIF/COALESCE/CASE with NULLs, NULL-in => NULL-out per function and argument position, 7 date spot checks; integer + - * / % unary-minus ABS on boundary operands on five paths (constant, select-list over columns, WHERE, ORDER BY, UPDATE SET): exact result or error/NULL when it does not fit i64 or the divisor is 0. distinct_nontrivial = distinct applications (by SQL text) with a pinned expectation; applications whose definition the docs do not pin are only checked for no panic (counter cases_no_panic_only)",
    );
    let mut rng = Rng::derive(a.seed, 20);
    let quick = ctx.quick();
    let miri = cfg!(miri);
    let scale: usize = if miri { 1 } else if quick { 70 } else { 2400 };
    let mut h = H { ctx, scratch: Scratch::new("c20"), db: None, dbn: 0, next_id: 0, sigs: BTreeMap::new(), judged: BTreeMap::new(), np_done: BTreeMap::new(), np_cap: if quick { 6 } else { 60 } };
    if !h.fresh_db() {
        return h.ctx.finish();
    }

    // calls that may not return are started now in capped child processes and judged at the end
    #[cfg(all(unix, not(miri)))]
    let hostile = hostile_spawn(&mut h);

    // integer arithmetic
    let ops: [&'static str; 7] = ["add", "sub", "mul", "div", "mod", "neg", "abs"];
    // fixed boundary cases first (the ones the property names)
    for (op, x, y) in [("div", i64::MIN, -1), ("mod", i64::MIN, -1), ("neg", i64::MIN, 0), ("abs", i64::MIN, 0), ("add", i64::MAX, 1), ("sub", i64::MIN, 1), ("mul", 3037000500, 3037000500), ("div", -7, 2), ("div", 7, -2), ("mod", -7, 2), ("mod", 7, -2), ("div", 1, 0), ("mod", 1, 0)] {
        h.run_arith(op, x, y);
    }
    for _ in 0..(scale * 12) {
        let op = *rng.pick(&ops);
        let (x, y) = gen_arith_operands(&mut rng, op);
        h.run_arith(op, x, y);
    }
    for _ in 0..(scale * 6) {
        let c = gen_float_arith_case(&mut rng);
        h.run_case(&c, false);
        h.run_null_variants(&c);
    }

    // fixed cases
    for c in fixed_cases() {
        h.run_case(&c, false);
        h.run_null_variants(&c);
    }
    // string functions
    for i in 0..(scale * 90) {
        let which = STRING_FUNCS[i % STRING_FUNCS.len()];
        if let Some(c) = gen_string_case(&mut rng, which) {
            h.run_case(&c, true);
            h.run_null_variants(&c);
        } else {
            h.ctx.count("dropped_not_pinned", 1);
        }
    }
    // numeric functions
    for i in 0..(scale * 70) {
        let which = NUMERIC_FUNCS[i % NUMERIC_FUNCS.len()];
        if let Some(c) = gen_numeric_case(&mut rng, which) {
            h.run_case(&c, false);
            h.run_null_variants(&c);
        } else {
            h.ctx.count("dropped_not_pinned", 1);
        }
    }
    // CAST, control flow
    for _ in 0..(scale * 20) {
        let c = gen_cast_case(&mut rng);
        h.run_case(&c, false);
        h.run_null_variants(&c);
    }
    for _ in 0..(scale * 30) {
        if let Some(c) = gen_control_case(&mut rng) {
            h.run_case(&c, false);
        } else {
            h.ctx.count("dropped_not_pinned", 1);
        }
    }
    #[cfg(all(unix, not(miri)))]
    hostile_collect(&mut h, hostile);

    let sigs: BTreeMap<String, J> = h.sigs.iter().map(|(k, (n, d))| (k.clone(), json!({"count": n, "example": d}))).collect();
    h.ctx.extra.insert("signatures".into(), json!(sigs));
    h.ctx.extra.insert("cases_by_function".into(), json!(h.judged));
    h.ctx.assumptions.push("MySQL semantics is taken as the definition of the MySQL-named functions; text comparison is bytewise, so searches/comparisons that a case-insensitive collation would decide differently are not generated; float results are compared with relative tolerance 1e-9..1e-14; rounding ties, float->int CAST of fractional values, REPLACE with empty pattern, LPAD/RPAD with empty pad, SUBSTR with a start before the string, FORMAT, non-numeric text->int CAST, ASCII() of a multi-byte character and POWER domain errors are only checked for no panic; GREATEST/LEAST with a NULL argument may answer NULL or ignore it".into());
    h.ctx.assumptions.push("the harness debug profile enables overflow-checks, so `a + b` on i64 panics where a release build of TurDB wraps silently; i64::MIN / -1 and i64::MIN % -1 panic in every profile".into());
    let H { ctx, scratch, db, .. } = h;
    drop(db);
    drop(scratch);
    ctx.finish()
}

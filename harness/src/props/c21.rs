//! C21: schema changes behave as declared and persist.
//!
//! Histories interleave DDL (CREATE/DROP TABLE incl. re-creating a dropped name, CREATE/DROP INDEX,
//! CREATE/DROP SCHEMA with qualified names, TRUNCATE, ALTER TABLE ADD / DROP / RENAME COLUMN) with simple DML
//! and reopen at random points. A small catalog+rows model (this file) predicts, for every statement, ok/error
//! and the resulting shape and row bag of the table. Sub-assertions:
//!   ddl_outcome           the DDL statement itself succeeds / fails as the model predicts
//!   existing_rows         right after a DDL: SELECT * and SELECT <names> (width, bag), COUNT(*), index lookups
//!   future_rows           DML and SELECTs using the new shape work, the old shape errors
//!   catalog_after_reopen  same shape and data after close + Database::open
//! Signature = C21/<ddl kind>/<assertion>/<variant>:<what>. The ddl kind is the last DDL applied to the table.
//! A failing history is shrunk (ddmin over its operations, re-run on a fresh database) before it is reported.
use crate::report::Ctx;
use crate::rng::{fnv, Rng};
use crate::sqlm::cmp::bag_diff;
use crate::sqlm::db::{is_panic, panic_tag, Db, Outcome, Scratch};
use crate::sqlm::val::{rows_json, Row, V};
use crate::Args;
use serde_json::{json, Value as J};
use std::cmp::Ordering;
use std::collections::{BTreeMap, BTreeSet};
use std::path::Path;

// ---------------------------------------------------------------- model

#[derive(Clone, Copy, Debug, PartialEq, Eq, Hash)]
pub enum Ty {
    Big,
    Int,
    Dbl,
    Text,
    Bool,
}

impl Ty {
    fn sql(&self) -> &'static str {
        match self {
            Ty::Big => "BIGINT",
            Ty::Int => "INT",
            Ty::Dbl => "DOUBLE",
            Ty::Text => "TEXT",
            Ty::Bool => "BOOLEAN",
        }
    }
    fn letter(&self) -> char {
        match self {
            Ty::Big => 'b',
            Ty::Int => 'i',
            Ty::Dbl => 'd',
            Ty::Text => 'x',
            Ty::Bool => 'o',
        }
    }
    fn tag(&self) -> &'static str {
        match self {
            Ty::Big => "bigint",
            Ty::Int => "int",
            Ty::Dbl => "double",
            Ty::Text => "text",
            Ty::Bool => "bool",
        }
    }
}

#[derive(Clone, Debug)]
pub struct MCol {
    name: String,
    ty: Ty,
    default: Option<V>,
    not_null: bool,
    pk: bool,
}

impl MCol {
    fn def_sql(&self) -> String {
        let mut s = format!("{} {}", self.name, self.ty.sql());
        if self.pk {
            s.push_str(" PRIMARY KEY");
        }
        if self.not_null && !self.pk {
            s.push_str(" NOT NULL");
        }
        if let Some(d) = &self.default {
            s.push_str(" DEFAULT ");
            s.push_str(&default_sql(d));
        }
        s
    }
}

fn default_sql(v: &V) -> String {
    match v {
        V::Int(i) => format!("{}", i),
        V::Float(f) => format!("{:?}", f),
        V::Text(s) => format!("'{}'", s),
        V::Bool(b) => (if *b { "TRUE" } else { "FALSE" }).to_string(),
        _ => "NULL".into(),
    }
}

#[derive(Clone, Debug)]
struct MIdx {
    name: String,
    col: String,
}

#[derive(Clone, Debug)]
struct MTab {
    q: String,
    cols: Vec<MCol>,
    rows: Vec<Row>,
    idx: Vec<MIdx>,
    /// last DDL applied to this table and its variant (for signatures)
    last_ddl: &'static str,
    variant: String,
    /// finer variant (position, qualified name, type) used for coverage counters only
    cov: String,
    /// the column the last DDL touched (added / renamed)
    touched: Option<String>,
    /// Some(variant) if this table re-uses the name of a dropped table
    recreated: Option<String>,
}

impl MTab {
    fn col_pos(&self, name: &str) -> Option<usize> {
        self.cols.iter().position(|c| c.name == name)
    }
    fn pk_pos(&self) -> Option<usize> {
        self.cols.iter().position(|c| c.pk)
    }
}

#[derive(Clone, Debug, Default)]
struct Model {
    schemas: BTreeSet<String>,
    tabs: BTreeMap<String, MTab>,
    /// names of tables dropped earlier in this history (re-creation is a variant)
    dropped: BTreeSet<String>,
}

fn schema_of(q: &str) -> Option<&str> {
    q.split_once('.').map(|x| x.0)
}

fn eq_sql(a: &V, b: &V) -> bool {
    a.sql_cmp(b) == Some(Ordering::Equal)
}

// ---------------------------------------------------------------- operations

#[derive(Clone, Debug)]
enum Op {
    CreateSchema { name: String, ine: bool },
    DropSchema { name: String, ie: bool },
    CreateTable { q: String, cols: Vec<MCol>, ine: bool },
    DropTable { q: String, ie: bool },
    CreateIndex { name: String, q: String, col: String, ine: bool },
    DropIndex { name: String, ie: bool },
    Truncate { q: String, kw_table: bool },
    AddColumn { q: String, col: MCol },
    DropColumn { q: String, col: String, ie: bool },
    RenameColumn { q: String, old: String, new: String },
    Insert { q: String, cols: Vec<String>, rows: Vec<Row> },
    Update { q: String, set_col: String, val: V, key_col: String, key: V },
    Delete { q: String, key_col: String, key: V },
    /// cols empty = `*`
    Select { q: String, cols: Vec<String>, filter: Option<(String, V)> },
    Reopen { close: bool },
}

impl Op {
    fn kind(&self) -> &'static str {
        match self {
            Op::CreateSchema { .. } => "create_schema",
            Op::DropSchema { .. } => "drop_schema",
            Op::CreateTable { .. } => "create_table",
            Op::DropTable { .. } => "drop_table",
            Op::CreateIndex { .. } => "create_index",
            Op::DropIndex { .. } => "drop_index",
            Op::Truncate { .. } => "truncate",
            Op::AddColumn { .. } => "add_column",
            Op::DropColumn { .. } => "drop_column",
            Op::RenameColumn { .. } => "rename_column",
            Op::Insert { .. } => "insert",
            Op::Update { .. } => "update",
            Op::Delete { .. } => "delete",
            Op::Select { .. } => "select",
            Op::Reopen { .. } => "reopen",
        }
    }
    fn is_ddl(&self) -> bool {
        !matches!(self, Op::Insert { .. } | Op::Update { .. } | Op::Delete { .. } | Op::Select { .. } | Op::Reopen { .. })
    }
    fn table(&self) -> Option<&str> {
        match self {
            Op::CreateTable { q, .. } | Op::DropTable { q, .. } | Op::CreateIndex { q, .. } | Op::Truncate { q, .. } | Op::AddColumn { q, .. } | Op::DropColumn { q, .. } | Op::RenameColumn { q, .. } | Op::Insert { q, .. } | Op::Update { q, .. } | Op::Delete { q, .. } | Op::Select { q, .. } => Some(q),
            _ => None,
        }
    }
    fn sql(&self) -> String {
        match self {
            Op::CreateSchema { name, ine } => format!("CREATE SCHEMA {}{}", if *ine { "IF NOT EXISTS " } else { "" }, name),
            Op::DropSchema { name, ie } => format!("DROP SCHEMA {}{}", if *ie { "IF EXISTS " } else { "" }, name),
            Op::CreateTable { q, cols, ine } => format!("CREATE TABLE {}{} ({})", if *ine { "IF NOT EXISTS " } else { "" }, q, cols.iter().map(|c| c.def_sql()).collect::<Vec<_>>().join(", ")),
            Op::DropTable { q, ie } => format!("DROP TABLE {}{}", if *ie { "IF EXISTS " } else { "" }, q),
            Op::CreateIndex { name, q, col, ine } => format!("CREATE INDEX {}{} ON {} ({})", if *ine { "IF NOT EXISTS " } else { "" }, name, q, col),
            Op::DropIndex { name, ie } => format!("DROP INDEX {}{}", if *ie { "IF EXISTS " } else { "" }, name),
            Op::Truncate { q, kw_table } => format!("TRUNCATE {}{}", if *kw_table { "TABLE " } else { "" }, q),
            Op::AddColumn { q, col } => format!("ALTER TABLE {} ADD COLUMN {}", q, col.def_sql()),
            Op::DropColumn { q, col, ie } => format!("ALTER TABLE {} DROP COLUMN {}{}", q, if *ie { "IF EXISTS " } else { "" }, col),
            Op::RenameColumn { q, old, new } => format!("ALTER TABLE {} RENAME COLUMN {} TO {}", q, old, new),
            Op::Insert { q, cols, rows } => format!("INSERT INTO {} ({}) VALUES {}", q, cols.join(", "), rows.iter().map(|r| format!("({})", r.iter().map(|v| v.sql()).collect::<Vec<_>>().join(", "))).collect::<Vec<_>>().join(", ")),
            Op::Update { q, set_col, val, key_col, key } => format!("UPDATE {} SET {} = {} WHERE {} = {}", q, set_col, val.sql(), key_col, key.sql()),
            Op::Delete { q, key_col, key } => format!("DELETE FROM {} WHERE {} = {}", q, key_col, key.sql()),
            Op::Select { q, cols, filter } => format!("SELECT {} FROM {}{}", if cols.is_empty() { "*".to_string() } else { cols.join(", ") }, q, filter.as_ref().map(|(c, v)| format!(" WHERE {} = {}", c, v.sql())).unwrap_or_default()),
            Op::Reopen { close } => (if *close { "-- close(); Database::open" } else { "-- drop handle; Database::open" }).to_string(),
        }
    }
    /// abbreviated SQL for replay files (long text literals elided)
    fn short_sql(&self) -> String {
        let s = self.sql();
        if s.len() <= 400 {
            return s;
        }
        // elide runs of the padding character
        let mut out = String::new();
        let mut run = 0usize;
        for ch in s.chars() {
            if ch == '~' {
                run += 1;
                continue;
            }
            if run > 0 {
                out.push_str(&format!("<~x{}>", run));
                run = 0;
            }
            out.push(ch);
        }
        if run > 0 {
            out.push_str(&format!("<~x{}>", run));
        }
        out
    }
}

/// what the model predicts for a statement
#[derive(Debug)]
enum Expect {
    /// not executed (behaviour undocumented or precondition of the generator not met)
    Skip,
    Err(&'static str),
    Ok,
    Affected(usize),
    Rows(Vec<Row>),
}

impl Model {
    fn new() -> Model {
        Model::default()
    }
    fn schema_ok(&self, q: &str) -> bool {
        match schema_of(q) {
            None => true,
            Some(s) => self.schemas.contains(s),
        }
    }
    fn index_exists(&self, name: &str) -> bool {
        self.tabs.values().any(|t| t.idx.iter().any(|i| i.name == name))
    }

    /// apply the operation to the model and say what TurDB must do
    fn apply(&mut self, op: &Op) -> Expect {
        match op {
            Op::Reopen { .. } => Expect::Ok,
            Op::CreateSchema { name, ine } => {
                if self.schemas.contains(name) {
                    return if *ine { Expect::Ok } else { Expect::Err("schema exists") };
                }
                self.schemas.insert(name.clone());
                Expect::Ok
            }
            Op::DropSchema { name, ie } => {
                if !self.schemas.contains(name) {
                    return if *ie { Expect::Ok } else { Expect::Err("schema missing") };
                }
                if self.tabs.keys().any(|q| schema_of(q) == Some(name.as_str())) {
                    return Expect::Skip; // CASCADE/RESTRICT behaviour is not documented
                }
                self.schemas.remove(name);
                Expect::Ok
            }
            Op::CreateTable { q, cols, ine } => {
                if !self.schema_ok(q) {
                    return Expect::Err("schema missing");
                }
                if self.tabs.contains_key(q) {
                    return if *ine { Expect::Ok } else { Expect::Err("table exists") };
                }
                let recreated = self.dropped.contains(q);
                let mut variant = String::from(if recreated { "recreated" } else { "fresh" });
                if cols.iter().any(|c| c.ty == Ty::Text) {
                    variant.push_str("_with_text");
                }
                let cov = format!("{}{}", variant, if schema_of(q).is_some() { "_qualified" } else { "" });
                self.tabs.insert(q.clone(), MTab { q: q.clone(), cols: cols.clone(), rows: vec![], idx: vec![], last_ddl: "create_table", recreated: if recreated { Some(variant.clone()) } else { None }, variant, cov, touched: None });
                Expect::Ok
            }
            Op::DropTable { q, ie } => {
                if !self.tabs.contains_key(q) {
                    return if *ie { Expect::Ok } else { Expect::Err("table missing") };
                }
                self.tabs.remove(q);
                self.dropped.insert(q.clone());
                Expect::Ok
            }
            Op::CreateIndex { name, q, col, ine } => {
                let exists = self.index_exists(name);
                let Some(t) = self.tabs.get_mut(q) else { return Expect::Err("table missing") };
                if t.col_pos(col).is_none() {
                    return Expect::Err("column missing");
                }
                if exists && !t.idx.iter().any(|i| &i.name == name) {
                    return Expect::Skip; // same index name on another table: not documented
                }
                if exists {
                    if *ine {
                        t.last_ddl = "create_index";
                        t.variant = "if_not_exists_existing".into();
                        t.cov.clear();
                        t.touched = None;
                        return Expect::Ok;
                    }
                    // (a rejected duplicate must leave no trace: later failures on this table are attributed to it)
                    t.last_ddl = "create_index";
                    t.variant = "rejected_duplicate".into();
                    t.cov.clear();
                    t.touched = None;
                    return Expect::Err("index exists");
                }
                t.idx.push(MIdx { name: name.clone(), col: col.clone() });
                t.last_ddl = "create_index";
                t.variant = (if t.rows.is_empty() { "empty_table" } else { "populated" }).to_string();
                t.cov.clear();
                t.touched = None;
                Expect::Ok
            }
            Op::DropIndex { name, ie } => {
                for t in self.tabs.values_mut() {
                    if let Some(p) = t.idx.iter().position(|i| &i.name == name) {
                        t.idx.remove(p);
                        t.last_ddl = "drop_index";
                        t.variant = "plain".into();
                        t.cov.clear();
                        t.touched = None;
                        return Expect::Ok;
                    }
                }
                if *ie {
                    Expect::Ok
                } else {
                    Expect::Err("index missing")
                }
            }
            Op::Truncate { q, .. } => {
                let Some(t) = self.tabs.get_mut(q) else { return Expect::Err("table missing") };
                t.last_ddl = "truncate";
                t.variant = (if t.idx.is_empty() { "plain" } else { "indexed" }).to_string();
                t.cov.clear();
                if t.rows.iter().any(|r| r.iter().any(|v| matches!(v, V::Text(s) if s.len() >= 900))) {
                    t.variant.push_str("_long_text");
                }
                t.touched = None;
                t.rows.clear();
                Expect::Ok
            }
            Op::AddColumn { q, col } => {
                let Some(t) = self.tabs.get_mut(q) else { return Expect::Err("table missing") };
                if t.col_pos(&col.name).is_some() {
                    return Expect::Err("duplicate column");
                }
                if col.not_null && col.default.is_none() && !t.rows.is_empty() {
                    return Expect::Skip; // undocumented
                }
                let fill = col.default.clone().unwrap_or(V::Null);
                for r in t.rows.iter_mut() {
                    r.push(fill.clone());
                }
                t.last_ddl = "add_column";
                t.variant = match (col.default.is_some(), col.not_null) {
                    (true, true) => "not_null_default",
                    (true, false) => "with_default",
                    (false, true) => "not_null_empty_table",
                    (false, false) => "no_default",
                }
                .to_string();
                t.cov = format!("{}_{}", t.variant, col.ty.tag());
                t.touched = Some(col.name.clone());
                t.cols.push(col.clone());
                Expect::Ok
            }
            Op::DropColumn { q, col, ie } => {
                let Some(t) = self.tabs.get_mut(q) else { return Expect::Err("table missing") };
                let Some(p) = t.col_pos(col) else {
                    return if *ie { Expect::Ok } else { Expect::Err("column missing") };
                };
                if t.cols[p].pk || t.cols.len() <= 1 {
                    return Expect::Skip;
                }
                let pos = if p == 0 {
                    "first"
                } else if p + 1 == t.cols.len() {
                    "last"
                } else {
                    "middle"
                };
                let indexed = t.idx.iter().any(|i| &i.name != "" && &i.col == col);
                t.idx.retain(|i| &i.col != col);
                t.cols.remove(p);
                for r in t.rows.iter_mut() {
                    r.remove(p);
                }
                t.last_ddl = "drop_column";
                t.variant = (if indexed { "indexed_column" } else { "plain" }).to_string();
                t.cov = format!("{}_{}", pos, t.variant);
                t.touched = None;
                Expect::Ok
            }
            Op::RenameColumn { q, old, new } => {
                let Some(t) = self.tabs.get_mut(q) else { return Expect::Err("table missing") };
                let Some(p) = t.col_pos(old) else { return Expect::Err("column missing") };
                if t.col_pos(new).is_some() {
                    return Expect::Skip;
                }
                let indexed = t.idx.iter().any(|i| &i.col == old);
                for i in t.idx.iter_mut() {
                    if &i.col == old {
                        i.col = new.clone();
                    }
                }
                t.cols[p].name = new.clone();
                t.last_ddl = "rename_column";
                t.cov.clear();
                t.variant = (if t.cols[p].pk {
                    "pk_column"
                } else if indexed {
                    "indexed_column"
                } else {
                    "plain"
                })
                .to_string();
                t.touched = Some(new.clone());
                Expect::Ok
            }
            Op::Insert { q, cols, rows } => {
                let Some(t) = self.tabs.get_mut(q) else { return Expect::Err("table missing") };
                let mut pos = vec![];
                for c in cols {
                    match t.col_pos(c) {
                        Some(p) => pos.push(p),
                        None => return Expect::Err("column missing"),
                    }
                }
                let mut new_rows = vec![];
                for r in rows {
                    let mut full: Vec<Option<V>> = vec![None; t.cols.len()];
                    for (i, p) in pos.iter().enumerate() {
                        full[*p] = Some(r[i].clone());
                    }
                    let mut out = vec![];
                    for (i, c) in t.cols.iter().enumerate() {
                        match full[i].take() {
                            Some(v) => {
                                if v.is_null() && (c.not_null || c.pk || c.default.is_some()) {
                                    return Expect::Skip; // not generated; NULL into DEFAULT column is a dialect point
                                }
                                out.push(v)
                            }
                            None => {
                                if c.pk {
                                    return Expect::Skip;
                                }
                                match &c.default {
                                    Some(d) => out.push(d.clone()),
                                    None => {
                                        if c.not_null {
                                            return Expect::Err("not null column omitted");
                                        }
                                        out.push(V::Null)
                                    }
                                }
                            }
                        }
                    }
                    new_rows.push(out);
                }
                // primary keys are globally unique by construction; a clash can only arise while shrinking
                if let Some(pk) = t.pk_pos() {
                    for r in &new_rows {
                        if t.rows.iter().any(|o| eq_sql(&o[pk], &r[pk])) {
                            return Expect::Skip;
                        }
                    }
                }
                let n = new_rows.len();
                t.rows.extend(new_rows);
                Expect::Affected(n)
            }
            Op::Update { q, set_col, val, key_col, key } => {
                let Some(t) = self.tabs.get_mut(q) else { return Expect::Err("table missing") };
                let (Some(sp), Some(kp)) = (t.col_pos(set_col), t.col_pos(key_col)) else { return Expect::Err("column missing") };
                if t.cols[sp].pk || (val.is_null() && (t.cols[sp].not_null || t.cols[sp].default.is_some())) {
                    return Expect::Skip;
                }
                if t.idx.iter().any(|i| &i.col == set_col) {
                    // UPDATE does not maintain secondary indexes (a DML defect owned by other properties): keep it out
                    return Expect::Skip;
                }
                let mut n = 0;
                for r in t.rows.iter_mut() {
                    if eq_sql(&r[kp], key) {
                        r[sp] = val.clone();
                        n += 1;
                    }
                }
                Expect::Affected(n)
            }
            Op::Delete { q, key_col, key } => {
                let Some(t) = self.tabs.get_mut(q) else { return Expect::Err("table missing") };
                let Some(kp) = t.col_pos(key_col) else { return Expect::Err("column missing") };
                let before = t.rows.len();
                t.rows.retain(|r| !eq_sql(&r[kp], key));
                Expect::Affected(before - t.rows.len())
            }
            Op::Select { q, cols, filter } => {
                let Some(t) = self.tabs.get(q) else { return Expect::Err("table missing") };
                let mut pos = vec![];
                for c in cols {
                    match t.col_pos(c) {
                        Some(p) => pos.push(p),
                        None => return Expect::Err("column missing"),
                    }
                }
                let fp = match filter {
                    Some((c, _)) => match t.col_pos(c) {
                        Some(p) => Some(p),
                        None => return Expect::Err("column missing"),
                    },
                    None => None,
                };
                let rows: Vec<Row> = t
                    .rows
                    .iter()
                    .filter(|r| match (fp, filter) {
                        (Some(p), Some((_, v))) => eq_sql(&r[p], v),
                        _ => true,
                    })
                    .map(|r| if pos.is_empty() { r.clone() } else { pos.iter().map(|p| r[*p].clone()).collect() })
                    .collect();
                Expect::Rows(rows)
            }
        }
    }
}

// ---------------------------------------------------------------- failures

#[derive(Clone, Debug)]
struct Fail {
    kind: String,
    assertion: &'static str,
    /// `<variant>:<what>`
    detail: String,
    info: J,
    op_index: usize,
    /// length of the executed-statement log when the failure was recorded
    log_pos: usize,
}

impl Fail {
    fn sig(&self) -> String {
        format!("C21/{}/{}/{}", self.kind, self.assertion, self.detail)
    }
}

/// stable class of an error message: quoted identifiers and digits removed, first words
pub fn err_class(e: &str) -> String {
    let mut s = String::new();
    let mut in_q = false;
    for ch in e.chars() {
        if ch == '\'' || ch == '"' {
            in_q = !in_q;
            continue;
        }
        if !in_q {
            s.push(ch);
        }
    }
    s.split(|c: char| !c.is_ascii_alphabetic()).filter(|w| !w.is_empty()).take(8).collect::<Vec<_>>().join("_").to_lowercase()
}

fn err_what(e: &str) -> String {
    if is_panic(e) {
        format!("panic:{}", panic_tag(e))
    } else {
        format!("error:{}", err_class(e))
    }
}

/// compare a full-table result with the model table; None = equal
fn diff_table(t: &MTab, got: &[Row], by_name: bool) -> Option<(String, J)> {
    let pre = if by_name { "by_name_" } else { "" };
    if got.iter().any(|r| r.len() != t.cols.len()) {
        return Some((format!("{}width", pre), json!({"got_width": got.first().map(|r| r.len()), "want_width": t.cols.len(), "got": rows_json(got, 4)})));
    }
    if got.len() != t.rows.len() {
        return Some((format!("{}row_count", pre), json!({"got": got.len(), "want": t.rows.len(), "got_rows": rows_json(got, 4), "want_rows": rows_json(&t.rows, 4)})));
    }
    let d = bag_diff(got, &t.rows)?;
    // which columns differ? match rows through the primary key when there is one
    let mut what = "values".to_string();
    if t.pk_pos().is_none() {
        if let Some(tp) = t.touched.as_ref().and_then(|n| t.col_pos(n)) {
            // without a key: are the rows equal once the column the DDL touched is projected away?
            let strip = |rows: &[Row]| -> Vec<Row> { rows.iter().map(|r| r.iter().enumerate().filter(|(i, _)| *i != tp).map(|(_, v)| v.clone()).collect()).collect() };
            if bag_diff(&strip(got), &strip(&t.rows)).is_none() {
                what = (if got.iter().all(|r| r[tp].is_null()) { "ddl_column_reads_null" } else { "ddl_column" }).to_string();
            } else {
                what = "other_columns".to_string();
            }
        }
    }
    if let Some(pk) = t.pk_pos() {
        let mut differing: BTreeSet<usize> = BTreeSet::new();
        let mut unmatched = false;
        let mut touched_all_null = true;
        for w in &t.rows {
            match got.iter().find(|g| eq_sql(&g[pk], &w[pk])) {
                None => unmatched = true,
                Some(g) => {
                    for i in 0..w.len() {
                        if g[i].key(true) != w[i].key(true) {
                            differing.insert(i);
                            if !g[i].is_null() {
                                touched_all_null = false;
                            }
                        }
                    }
                }
            }
        }
        let tp = t.touched.as_ref().and_then(|n| t.col_pos(n));
        what = if unmatched {
            "row_identity".into()
        } else if !differing.is_empty() && differing.iter().all(|i| Some(*i) == tp) {
            if touched_all_null {
                "ddl_column_reads_null".into()
            } else {
                "ddl_column".into()
            }
        } else {
            "other_columns".into()
        };
    }
    Some((format!("{}{}", pre, what), elide_json(json!({"diff": d, "got": rows_json(got, 5), "want": rows_json(&t.rows, 5), "columns": t.cols.iter().map(|c| c.name.clone()).collect::<Vec<_>>()}))))
}

/// full observation of one table against the model
fn check_table(db: &mut Db, t: &MTab, probe_idx: bool, stale: &BTreeSet<String>) -> Option<(String, J)> {
    let sql = format!("SELECT * FROM {}", t.q);
    match db.query(&sql) {
        Err(e) => return Some((format!("select_star_{}", err_what(&e)), json!({"sql": sql, "error": e}))),
        Ok(rows) => {
            if let Some((w, j)) = diff_table(t, &rows, false) {
                return Some((w, json!({"sql": sql, "d": j})));
            }
        }
    }
    let sql = format!("SELECT {} FROM {}", t.cols.iter().map(|c| c.name.clone()).collect::<Vec<_>>().join(", "), t.q);
    match db.query(&sql) {
        Err(e) => return Some((format!("by_name_{}", err_what(&e)), json!({"sql": sql, "error": e}))),
        Ok(rows) => {
            if let Some((w, j)) = diff_table(t, &rows, true) {
                return Some((w, json!({"sql": sql, "d": j})));
            }
        }
    }
    let sql = format!("SELECT COUNT(*) FROM {}", t.q);
    match db.query(&sql) {
        Err(e) => return Some((format!("count_star_{}", err_what(&e)), json!({"sql": sql, "error": e}))),
        Ok(rows) => {
            let got = rows.first().and_then(|r| r.first()).cloned().unwrap_or(V::Null);
            if !eq_sql(&got, &V::Int(t.rows.len() as i64)) {
                return Some(("count_star".into(), json!({"sql": sql, "got": got.to_json(), "want": t.rows.len()})));
            }
        }
    }
    if probe_idx {
        if let Some((_, what, info)) = index_probe_failures(db, t, stale).into_iter().next() {
            return Some((what, info));
        }
    }
    None
}

/// equality lookups through every (non-stale) secondary index: a present key from either end of the table and an
/// absent key. Returns (index name, what, info) per failing index.
fn index_probe_failures(db: &mut Db, t: &MTab, stale: &BTreeSet<String>) -> Vec<(String, String, J)> {
    let mut out = vec![];
    'next_index: for ix in &t.idx {
        if stale.contains(&ix.name) {
            continue;
        }
        let Some(p) = t.col_pos(&ix.col) else { continue };
        let ty = t.cols[p].ty;
        if ty == Ty::Dbl || ty == Ty::Bool {
            continue;
        }
        let mut keys: Vec<V> = vec![];
        // (predicates on TOAST-sized text are a query-layer matter, not a schema-change one: short keys only)
        let short_key = |v: &&V| !v.is_null() && !matches!(v, V::Text(s) if s.len() >= 900);
        if let Some(v) = t.rows.iter().map(|r| &r[p]).find(short_key) {
            keys.push(v.clone());
        }
        if let Some(v) = t.rows.iter().rev().map(|r| &r[p]).find(short_key) {
            keys.push(v.clone());
        }
        keys.push(if ty == Ty::Text { V::Text("absent-key".into()) } else { V::Int(-987654) });
        for k in keys {
            let long = matches!(&k, V::Text(s) if s.len() >= 900);
            let sql = format!("SELECT * FROM {} WHERE {} = {}", t.q, ix.col, k.sql());
            let want: Vec<Row> = t.rows.iter().filter(|r| eq_sql(&r[p], &k)).cloned().collect();
            match db.query(&sql) {
                Err(e) => {
                    out.push((ix.name.clone(), format!("index_lookup_{}", err_what(&e)), json!({"sql": short(&sql), "index": ix.name, "error": e})));
                    continue 'next_index;
                }
                Ok(rows) => {
                    if let Some(d) = bag_diff(&rows, &want) {
                        out.push((ix.name.clone(), (if long { "index_lookup_long_text_key" } else { "index_lookup" }).to_string(), elide_json(json!({"sql": short(&sql), "index": ix.name, "diff": d}))));
                        continue 'next_index;
                    }
                }
            }
        }
    }
    out
}

/// shorten long strings inside a JSON value (TOAST-sized literals)
fn elide_json(j: J) -> J {
    match j {
        J::String(s) if s.len() > 240 => J::String(format!("{}...<{} bytes>", s.chars().take(120).collect::<String>(), s.len())),
        J::Array(a) => J::Array(a.into_iter().map(elide_json).collect()),
        J::Object(o) => J::Object(o.into_iter().map(|(k, v)| (k, elide_json(v))).collect()),
        other => other,
    }
}

fn short(s: &str) -> String {
    if s.len() > 300 {
        format!("{}...<{} bytes>", &s[..200], s.len())
    } else {
        s.to_string()
    }
}

// ---------------------------------------------------------------- running a history

struct RunOut {
    fails: Vec<Fail>,
    /// (ddl kind -> number of times it was applied to a table holding rows and then checked)
    ddl_on_data: BTreeMap<String, u64>,
    executed: usize,
    reopens: usize,
    stale_indexes: usize,
    log: Vec<String>,
}

fn run_history(ops: &[Op], dir: &Path) -> RunOut {
    let mut out = RunOut { fails: vec![], ddl_on_data: BTreeMap::new(), executed: 0, reopens: 0, stale_indexes: 0, log: vec![] };
    let _ = std::fs::remove_dir_all(dir);
    let mut m = Model::new();
    let mut tainted: BTreeSet<String> = BTreeSet::new();
    // secondary indexes that already answered wrongly BEFORE a DDL / reopen (index maintenance by DML is C10's
    // business): they are no longer judged, so that an index_lookup failure is attributable to the DDL / reopen
    let mut stale: BTreeSet<String> = BTreeSet::new();
    let mut db = match Db::create(dir) {
        Ok(d) => Some(d),
        Err(e) => {
            out.fails.push(Fail { kind: "create_database".into(), assertion: "ddl_outcome", detail: err_what(&e), info: json!({"error": e}), op_index: 0, log_pos: 0 });
            return out;
        }
    };
    for (i, op) in ops.iter().enumerate() {
        for f in out.fails.iter_mut().filter(|f| f.log_pos == 0) {
            f.log_pos = out.log.len();
        }
        // skip everything that touches an object already reported as broken
        let tkey = op.table().map(|s| s.to_string());
        if let Some(q) = &tkey {
            if tainted.contains(q) || schema_of(q).map(|s| tainted.contains(&format!("schema:{}", s))).unwrap_or(false) {
                continue;
            }
        }
        match op {
            Op::CreateSchema { name, .. } | Op::DropSchema { name, .. } if tainted.contains(&format!("schema:{}", name)) => continue,
            Op::DropIndex { name, .. } => {
                let owner = m.tabs.values().find(|t| t.idx.iter().any(|x| &x.name == name)).map(|t| t.q.clone());
                if tainted.contains(&format!("index:{}", name)) || owner.map(|o| tainted.contains(&o)).unwrap_or(false) {
                    continue;
                }
            }
            Op::CreateIndex { name, .. } if tainted.contains(&format!("index:{}", name)) => continue,
            _ => {}
        }
        let had_rows = tkey.as_ref().and_then(|q| m.tabs.get(q)).map(|t| !t.rows.is_empty()).unwrap_or(false);
        // the table a DROP INDEX acts on (for the post-check)
        let idx_owner = if let Op::DropIndex { name, .. } = op { m.tabs.values().find(|t| t.idx.iter().any(|x| &x.name == name)).map(|t| t.q.clone()) } else { None };
        let before = tkey.as_ref().and_then(|q| m.tabs.get(q)).map(|t| (t.last_ddl, t.variant.clone()));
        if op.is_ddl() || matches!(op, Op::Reopen { .. }) {
            if let Some(d) = db.as_mut() {
                let targets: Vec<&MTab> = match op {
                    Op::Reopen { .. } => m.tabs.values().filter(|t| !tainted.contains(&t.q)).collect(),
                    _ => tkey.clone().or(idx_owner.clone()).and_then(|q| m.tabs.get(&q)).into_iter().collect(),
                };
                for t in targets {
                    for (name, _, _) in index_probe_failures(d, t, &stale) {
                        stale.insert(name);
                        out.stale_indexes += 1;
                    }
                }
            }
        }
        let exp = m.apply(op);
        if matches!(exp, Expect::Skip) {
            continue;
        }
        out.executed += 1;
        out.log.push(op.short_sql());
        if let Op::Reopen { close } = op {
            let d = db.take().unwrap();
            if *close {
                let _ = crate::report::catch(|| d.db.close());
            }
            drop(d);
            out.reopens += 1;
            match Db::open(dir) {
                Err(e) => {
                    out.fails.push(Fail { kind: "reopen".into(), assertion: "catalog_after_reopen", detail: format!("open_{}", err_what(&e)), info: json!({"error": e}), op_index: i, log_pos: 0 });
                    return out;
                }
                Ok(d) => db = Some(d),
            }
            let d = db.as_mut().unwrap();
            for t in m.tabs.values() {
                if tainted.contains(&t.q) {
                    continue;
                }
                if let Some((what, info)) = check_table(d, t, true, &stale) {
                    // a table that re-uses a dropped name is attributed to its re-creation whatever DDL followed
                    let (k, v) = match &t.recreated {
                        Some(v) => ("create_table".to_string(), v.clone()),
                        None => (t.last_ddl.to_string(), t.variant.clone()),
                    };
                    out.fails.push(Fail { kind: k, assertion: "catalog_after_reopen", detail: format!("{}:{}", v, what), info, op_index: i, log_pos: 0 });
                    tainted.insert(t.q.clone());
                }
            }
            continue;
        }
        let d = db.as_mut().unwrap();
        let sql = op.sql();
        let got = d.exec(&sql);
        // attribute: the op's own kind for DDL, else the last DDL of the table
        let (kind, variant): (String, String) = if op.is_ddl() {
            let v = match tkey.as_ref().and_then(|q| m.tabs.get(q)) {
                Some(t) if matches!(exp, Expect::Ok) && t.last_ddl == op.kind() => t.variant.clone(),
                _ => match op {
                    Op::DropTable { ie, .. } | Op::DropIndex { ie, .. } | Op::DropSchema { ie, .. } | Op::DropColumn { ie, .. } => (if *ie { "if_exists" } else { "plain" }).to_string(),
                    Op::CreateTable { ine, .. } | Op::CreateIndex { ine, .. } | Op::CreateSchema { ine, .. } => (if *ine { "if_not_exists" } else { "plain" }).to_string(),
                    _ => "plain".to_string(),
                },
            };
            (op.kind().to_string(), v)
        } else {
            match before {
                Some((k, v)) => (k.to_string(), v),
                None => ("no_table".to_string(), "plain".to_string()),
            }
        };
        let assertion: &'static str = if op.is_ddl() { "ddl_outcome" } else { "future_rows" };
        let opk = op.kind();
        let mut fail: Option<(String, J)> = None;
        match (&exp, &got) {
            (_, Err(e)) if is_panic(e) => fail = Some((format!("{}_{}", opk, err_what(e)), json!({"sql": short(&sql), "panic": e}))),
            (Expect::Err(why), Ok(_)) => fail = Some((format!("{}_missing_error_{}", opk, why.replace(' ', "_")), json!({"sql": short(&sql), "model_expects_error": why}))),
            (Expect::Err(_), Err(_)) => {}
            (_, Err(e)) => fail = Some((format!("{}_{}", opk, err_what(e)), json!({"sql": short(&sql), "error": e}))),
            (Expect::Affected(n), Ok(Outcome::Dml(k, _))) => {
                if n != k {
                    fail = Some((format!("{}_rows_affected", opk), json!({"sql": short(&sql), "got": k, "want": n})));
                }
            }
            (Expect::Rows(want), Ok(Outcome::Rows(rows))) => {
                if let Some(dj) = bag_diff(rows, want) {
                    let what = if rows.len() != want.len() {
                        "select_row_count"
                    } else if rows.iter().flatten().all(|v| v.is_null()) {
                        "select_reads_null"
                    } else {
                        "select_values"
                    };
                    fail = Some((what.to_string(), json!({"sql": short(&sql), "diff": dj, "got": rows_json(rows, 5), "want": rows_json(want, 5)})));
                }
            }
            _ => {}
        }
        if fail.is_none() {
            // state check of the table the statement acted on (also after a correctly rejected statement)
            let target = tkey.clone().or(idx_owner);
            if let Some(q) = target {
                if let Some(t) = m.tabs.get(&q) {
                    if let Some((what, info)) = check_table(d, t, op.is_ddl(), &stale) {
                        let a = if op.is_ddl() { "existing_rows" } else { "future_rows" };
                        let what = if op.is_ddl() { what } else { format!("after_{}_{}", opk, what) };
                        out.fails.push(Fail { kind: kind.clone(), assertion: a, detail: format!("{}:{}", variant, what), info: json!({"after": short(&sql), "check": info}), op_index: i, log_pos: 0 });
                        tainted.insert(q.clone());
                    } else if op.is_ddl() && had_rows && matches!(exp, Expect::Ok) {
                        let v = if t.last_ddl == op.kind() { if t.cov.is_empty() { t.variant.clone() } else { t.cov.clone() } } else { "rejected_or_noop".to_string() };
                        *out.ddl_on_data.entry(format!("{}/{}", op.kind(), v)).or_insert(0) += 1;
                    }
                } else if matches!(op, Op::DropTable { .. }) && had_rows {
                    *out.ddl_on_data.entry("drop_table/plain".to_string()).or_insert(0) += 1;
                }
            }
        } else if let Some((what, info)) = fail {
            let (mut kind, mut variant) = (kind, variant);
            if matches!(op, Op::Insert { .. }) && matches!(exp, Expect::Err("column missing")) {
                // INSERT naming a non-existent column: the same defect whatever DDL removed the name
                kind = "any_table".into();
                variant = "unknown_column".into();
            }
            out.fails.push(Fail { kind, assertion, detail: format!("{}:{}", variant, what), info, op_index: i, log_pos: 0 });
            match op {
                Op::CreateSchema { name, .. } | Op::DropSchema { name, .. } => {
                    tainted.insert(format!("schema:{}", name));
                }
                Op::DropIndex { name, .. } => {
                    tainted.insert(format!("index:{}", name));
                    if let Some(o) = idx_owner {
                        tainted.insert(o);
                    }
                }
                _ => {
                    if let Some(q) = tkey {
                        tainted.insert(q);
                    }
                }
            }
        }
    }
    for f in out.fails.iter_mut().filter(|f| f.log_pos == 0) {
        f.log_pos = out.log.len();
    }
    if let Some(d) = db.take() {
        let _ = crate::report::catch(|| d.db.close());
    }
    out
}

// ---------------------------------------------------------------- generation

#[derive(Clone, Debug, Default)]
struct Feats {
    schema: bool,
    drop_create: bool,
    index: bool,
    truncate: bool,
    add_col: bool,
    drop_col: bool,
    rename_col: bool,
    reopen: bool,
    long_text: bool,
    error_cases: bool,
}

impl Feats {
    fn tags(&self) -> Vec<&'static str> {
        let mut v = vec![];
        for (b, n) in [(self.schema, "schema"), (self.drop_create, "drop_create"), (self.index, "index"), (self.truncate, "truncate"), (self.add_col, "add_col"), (self.drop_col, "drop_col"), (self.rename_col, "rename_col"), (self.reopen, "reopen"), (self.long_text, "long_text"), (self.error_cases, "error_cases")] {
            if b {
                v.push(n);
            }
        }
        v
    }
}

struct Gen<'a> {
    rng: &'a mut Rng,
    m: Model,
    ops: Vec<Op>,
    f: Feats,
    uniq: i64,
    ncol: u32,
    nidx: u32,
    dropped_cols: Vec<(String, String)>,
}

const PAD: char = '~';

/// UPDATE to a TOAST-sized value is a DML/TOAST matter (owned by other properties): long texts only arrive by INSERT
fn short_text(v: V) -> V {
    match v {
        V::Text(s) if s.len() >= 900 => V::Text(s.chars().take(12).collect()),
        other => other,
    }
}

impl<'a> Gen<'a> {
    fn push(&mut self, op: Op) {
        let _ = self.m.apply(&op);
        self.ops.push(op);
    }
    fn next_uniq(&mut self) -> i64 {
        self.uniq += 1;
        self.uniq
    }
    fn val(&mut self, ty: Ty, nullable: bool) -> V {
        if nullable && self.rng.chance(15, 100) {
            return V::Null;
        }
        let u = self.next_uniq();
        match ty {
            Ty::Big => {
                if self.rng.chance(1, 10) {
                    V::Int(-(1_000_000_000_000 + u))
                } else {
                    V::Int(1000 + u * 7)
                }
            }
            Ty::Int => V::Int(self.rng.range(-3, 8)),
            Ty::Dbl => V::Float(u as f64 + 0.25),
            Ty::Bool => V::Bool(self.rng.chance(1, 2)),
            Ty::Text => {
                if self.f.long_text && self.rng.chance(1, 4) {
                    let len = *self.rng.pick(&[990usize, 999, 1000, 1001, 1024, 1500, 3000, 9000]);
                    let mut s = format!("L{}-", u);
                    while s.len() < len {
                        s.push(PAD);
                    }
                    V::Text(s)
                } else if self.rng.chance(1, 6) {
                    V::Text(self.rng.pick(&["a", "b", "ab"]).to_string())
                } else {
                    V::Text(format!("v{}", u))
                }
            }
        }
    }
    fn new_col(&mut self, ty: Ty) -> MCol {
        self.ncol += 1;
        MCol { name: format!("{}{}", ty.letter(), self.ncol), ty, default: None, not_null: false, pk: false }
    }
    fn any_ty(&mut self) -> Ty {
        *self.rng.pick(&[Ty::Big, Ty::Big, Ty::Int, Ty::Dbl, Ty::Text, Ty::Text, Ty::Bool])
    }
    fn default_for(&mut self, ty: Ty) -> V {
        match ty {
            Ty::Big => V::Int(*self.rng.pick(&[7i64, -3, 0, 123456789012])),
            Ty::Int => V::Int(*self.rng.pick(&[42i64, -1])),
            Ty::Dbl => V::Float(*self.rng.pick(&[2.5f64, -0.75])),
            Ty::Text => V::Text(self.rng.pick(&["dflt", "x"]).to_string()),
            Ty::Bool => V::Bool(self.rng.chance(1, 2)),
        }
    }
    fn tab_names(&self) -> Vec<String> {
        self.m.tabs.keys().cloned().collect()
    }
    fn pick_tab(&mut self) -> Option<String> {
        let n = self.tab_names();
        if n.is_empty() {
            None
        } else {
            Some(self.rng.pick(&n).clone())
        }
    }

    fn create_table(&mut self, q: &str) {
        let ncols = self.rng.usize(1, 4);
        let mut cols = vec![];
        for _ in 0..ncols {
            let ty = self.any_ty();
            let mut c = self.new_col(ty);
            if self.rng.chance(1, 8) {
                c.default = Some(self.default_for(ty));
            }
            cols.push(c);
        }
        let pk = MCol { name: "id".into(), ty: Ty::Big, default: None, not_null: true, pk: true };
        // primary key first (usual), in the middle, or no primary key at all
        let r = self.rng.below(10);
        if r < 7 {
            cols.insert(0, pk);
        } else if r < 9 {
            let p = self.rng.usize(1, cols.len());
            cols.insert(p, pk);
        }
        let flag = self.f.error_cases && self.rng.chance(1, 6);
        self.push(Op::CreateTable { q: q.to_string(), cols, ine: flag });
    }

    fn insert_rows(&mut self, q: &str, n: usize, omit: Option<&str>) {
        let Some(t) = self.m.tabs.get(q).cloned() else { return };
        let cols: Vec<MCol> = t.cols.iter().filter(|c| Some(c.name.as_str()) != omit).cloned().collect();
        if cols.is_empty() {
            return;
        }
        let mut rows = vec![];
        for _ in 0..n {
            let mut r = vec![];
            for c in &cols {
                if c.pk {
                    let u = self.next_uniq();
                    r.push(V::Int(u));
                } else {
                    r.push(self.val(c.ty, !c.not_null && c.default.is_none()));
                }
            }
            rows.push(r);
        }
        self.push(Op::Insert { q: q.to_string(), cols: cols.iter().map(|c| c.name.clone()).collect(), rows });
    }

    /// a (column, value) usable as an equality key: primary key if any, else an INT/BIGINT/TEXT column
    fn key_of(&mut self, t: &MTab, want_present: bool) -> Option<(String, V)> {
        let cand: Vec<usize> = t.cols.iter().enumerate().filter(|(_, c)| c.pk || matches!(c.ty, Ty::Big | Ty::Int)).map(|(i, _)| i).collect();
        if cand.is_empty() {
            return None;
        }
        let p = match t.pk_pos() {
            Some(p) if self.rng.chance(3, 4) => p,
            _ => *self.rng.pick(&cand),
        };
        if want_present && !t.rows.is_empty() {
            let vals: Vec<V> = t.rows.iter().map(|r| r[p].clone()).filter(|v| !v.is_null()).collect();
            if !vals.is_empty() {
                return Some((t.cols[p].name.clone(), self.rng.pick(&vals).clone()));
            }
        }
        Some((t.cols[p].name.clone(), V::Int(-555)))
    }

    fn dml(&mut self, q: &str) {
        let Some(t) = self.m.tabs.get(q).cloned() else { return };
        let r = self.rng.below(10);
        if r < 5 || t.rows.is_empty() {
            let n = self.rng.usize(1, 4);
            self.insert_rows(q, n, None);
        } else if r < 8 {
            let settable: Vec<MCol> = t.cols.iter().filter(|c| !c.pk).cloned().collect();
            if settable.is_empty() {
                return;
            }
            let c = self.rng.pick(&settable).clone();
            let Some((kc, kv)) = self.key_of(&t, true) else { return };
            let val = self.val(c.ty, !c.not_null && c.default.is_none());
            let val = short_text(val);
                    self.push(Op::Update { q: q.to_string(), set_col: c.name, val, key_col: kc, key: kv });
        } else {
            let present = self.rng.chance(4, 5);
            let Some((kc, kv)) = self.key_of(&t, present) else { return };
            self.push(Op::Delete { q: q.to_string(), key_col: kc, key: kv });
        }
    }

    /// statements that use the new shape (must work) and the old shape (must fail) after a DDL
    fn probes_after(&mut self, q: &str, old_name: Option<String>, new_name: Option<String>) {
        let Some(t) = self.m.tabs.get(q).cloned() else { return };
        let mut old_shape_insert: Option<Op> = None;
        if let Some(old) = &old_name {
            // the old shape errors
            self.push(Op::Select { q: q.to_string(), cols: vec![old.clone()], filter: None });
            if self.rng.chance(1, 6) {
                let mut cols: Vec<String> = t.cols.iter().map(|c| c.name.clone()).collect();
                let mut row: Row = vec![];
                for c in t.cols.clone() {
                    if c.pk {
                        let u = self.next_uniq();
                        row.push(V::Int(u));
                    } else {
                        row.push(self.val(c.ty, false));
                    }
                }
                // replace the new name by the old one (rename) or append the dropped column
                match &new_name {
                    Some(n) => {
                        if let Some(p) = cols.iter().position(|c| c == n) {
                            cols[p] = old.clone();
                        }
                    }
                    None => {
                        cols.push(old.clone());
                        row.push(V::Int(1));
                    }
                }
                old_shape_insert = Some(Op::Insert { q: q.to_string(), cols, rows: vec![row] });
            }
        }
        if let Some(n) = &new_name {
            // read and filter through the new name
            self.push(Op::Select { q: q.to_string(), cols: vec![n.clone()], filter: None });
            if let Some(p) = t.col_pos(n) {
                if matches!(t.cols[p].ty, Ty::Big | Ty::Int | Ty::Text) {
                    let v = t.rows.iter().map(|r| r[p].clone()).find(|v| !v.is_null() && !matches!(v, V::Text(s) if s.len() >= 900)).or_else(|| t.cols[p].default.clone());
                    if let Some(v) = v {
                        self.push(Op::Select { q: q.to_string(), cols: vec![], filter: Some((n.clone(), v)) });
                    }
                }
                // update the touched column of an existing row
                if !t.cols[p].pk {
                    if let Some((kc, kv)) = self.key_of(&t, true) {
                        if &kc != n {
                            let val = self.val(t.cols[p].ty, false);
                            let val = short_text(val);
                    self.push(Op::Update { q: q.to_string(), set_col: n.clone(), val, key_col: kc, key: kv });
                        }
                    }
                }
            }
        }
        // insert with the full new shape, and (for an added column) omitting it
        self.insert_rows(q, 1, None);
        if let Some(n) = &new_name {
            let c = t.cols.iter().find(|c| &c.name == n).cloned();
            if let Some(c) = c {
                if !c.pk && !(c.not_null && c.default.is_none()) && t.cols.len() > 1 {
                    self.insert_rows(q, 1, Some(n));
                } else if !c.pk && c.not_null && c.default.is_none() && self.f.error_cases {
                    self.insert_rows(q, 1, Some(n)); // must be rejected
                }
            }
        }
        // update some other column of an existing row
        if let Some(t2) = self.m.tabs.get(q).cloned() {
            let others: Vec<MCol> = t2.cols.iter().filter(|c| !c.pk && Some(&c.name) != new_name.as_ref()).cloned().collect();
            if !others.is_empty() && self.rng.chance(1, 2) {
                let c = self.rng.pick(&others).clone();
                if let Some((kc, kv)) = self.key_of(&t2, true) {
                    let val = self.val(c.ty, false);
                    let val = short_text(val);
                    self.push(Op::Update { q: q.to_string(), set_col: c.name, val, key_col: kc, key: kv });
                }
            }
        }
        // an INSERT that still names the old column must be rejected (last: it taints the table if accepted)
        if let Some(op) = old_shape_insert {
            self.push(op);
        }
    }

    fn ddl(&mut self) {
        let mut kinds: Vec<&'static str> = vec![];
        if self.f.schema {
            kinds.push("schema");
        }
        if self.f.drop_create {
            kinds.extend(["drop_create", "drop_create"]);
        }
        if self.f.index {
            kinds.extend(["create_index", "create_index", "drop_index"]);
        }
        if self.f.truncate {
            kinds.push("truncate");
        }
        if self.f.add_col {
            kinds.extend(["add_col", "add_col"]);
        }
        if self.f.drop_col {
            kinds.extend(["drop_col", "drop_col"]);
        }
        if self.f.rename_col {
            kinds.extend(["rename_col", "rename_col"]);
        }
        if self.f.error_cases {
            kinds.push("error_case");
        }
        if kinds.is_empty() {
            return;
        }
        let k = *self.rng.pick(&kinds);
        match k {
            "schema" => {
                let name = format!("s{}", self.rng.usize(1, 2));
                if !self.m.schemas.contains(&name) {
                    let flag = self.rng.chance(1, 4);
                    self.push(Op::CreateSchema { name: name.clone(), ine: flag });
                    let q = format!("{}.t{}", name, self.rng.usize(1, 2));
                    self.create_table(&q);
                    let n = self.rng.usize(2, 6);
                    self.insert_rows(&q, n, None);
                } else {
                    // empty it, drop it, and check that it is gone
                    let inside: Vec<String> = self.m.tabs.keys().filter(|q| schema_of(q) == Some(name.as_str())).cloned().collect();
                    for q in inside {
                        self.push(Op::DropTable { q, ie: false });
                    }
                    let flag = self.rng.chance(1, 4);
                    self.push(Op::DropSchema { name: name.clone(), ie: flag });
                    self.push(Op::CreateTable { q: format!("{}.gone", name), cols: vec![MCol { name: "id".into(), ty: Ty::Big, default: None, not_null: true, pk: true }], ine: false });
                }
            }
            "drop_create" => {
                let Some(q) = self.pick_tab() else { return };
                let flag = self.rng.chance(1, 4);
                self.push(Op::DropTable { q: q.clone(), ie: flag });
                // the dropped table is gone
                self.push(Op::Select { q: q.clone(), cols: vec![], filter: None });
                if self.rng.chance(3, 4) {
                    self.create_table(&q);
                    // old rows must not come back
                    self.push(Op::Select { q: q.clone(), cols: vec![], filter: None });
                    let n = self.rng.usize(1, 5);
                    self.insert_rows(&q, n, None);
                }
            }
            "create_index" => {
                let Some(q) = self.pick_tab() else { return };
                let t = self.m.tabs.get(&q).cloned().unwrap();
                let cand: Vec<String> = t.cols.iter().filter(|c| !c.pk && matches!(c.ty, Ty::Big | Ty::Int | Ty::Text)).map(|c| c.name.clone()).collect();
                if cand.is_empty() {
                    return;
                }
                let col = self.rng.pick(&cand).clone();
                // re-use a dropped index name now and then
                self.nidx += 1;
                let name = if self.rng.chance(1, 3) { format!("ix{}", self.rng.usize(1, 3)) } else { format!("ix{}", self.nidx + 3) };
                if self.m.index_exists(&name) && !self.f.error_cases {
                    return;
                }
                let ine = self.rng.chance(1, 4);
                self.push(Op::CreateIndex { name, q: q.clone(), col, ine });
                self.insert_rows(&q, 2, None);
            }
            "drop_index" => {
                let names: Vec<String> = self.m.tabs.values().flat_map(|t| t.idx.iter().map(|i| i.name.clone())).collect();
                if names.is_empty() {
                    return;
                }
                let name = self.rng.pick(&names).clone();
                let owner = self.m.tabs.values().find(|t| t.idx.iter().any(|i| i.name == name)).map(|t| t.q.clone()).unwrap();
                let flag = self.rng.chance(1, 4);
                self.push(Op::DropIndex { name: name.clone(), ie: flag });
                if self.f.error_cases {
                    self.push(Op::DropIndex { name, ie: false }); // second drop must fail
                }
                self.insert_rows(&owner, 1, None);
            }
            "truncate" => {
                let Some(q) = self.pick_tab() else { return };
                let flag = self.rng.chance(2, 3);
                self.push(Op::Truncate { q: q.clone(), kw_table: flag });
                let n = self.rng.usize(1, 4);
                self.insert_rows(&q, n, None);
            }
            "add_col" => {
                let Some(q) = self.pick_tab() else { return };
                let t = self.m.tabs.get(&q).cloned().unwrap();
                let ty = self.any_ty();
                // now and then re-add a column that was dropped from this table (same name, same type)
                let re: Vec<String> = self.dropped_cols.iter().filter(|(tq, c)| tq == &q && t.col_pos(c).is_none()).map(|(_, c)| c.clone()).collect();
                let mut col = if !re.is_empty() && self.rng.chance(1, 2) {
                    let name = self.rng.pick(&re).clone();
                    let ty = match name.chars().next().unwrap() {
                        'b' => Ty::Big,
                        'i' => Ty::Int,
                        'd' => Ty::Dbl,
                        'x' => Ty::Text,
                        _ => Ty::Bool,
                    };
                    MCol { name, ty, default: None, not_null: false, pk: false }
                } else {
                    self.new_col(ty)
                };
                let r = self.rng.below(10);
                if r < 4 {
                    col.default = Some(self.default_for(col.ty));
                } else if r < 6 {
                    col.default = Some(self.default_for(col.ty));
                    col.not_null = true;
                } else if r < 7 && t.rows.is_empty() {
                    col.not_null = true;
                }
                let name = col.name.clone();
                self.push(Op::AddColumn { q: q.clone(), col });
                self.probes_after(&q, None, Some(name));
            }
            "drop_col" => {
                let Some(q) = self.pick_tab() else { return };
                let t = self.m.tabs.get(&q).cloned().unwrap();
                let cand: Vec<String> = t.cols.iter().filter(|c| !c.pk).map(|c| c.name.clone()).collect();
                if cand.is_empty() || t.cols.len() < 2 {
                    return;
                }
                // prefer an indexed column sometimes
                let indexed: Vec<String> = cand.iter().filter(|c| t.idx.iter().any(|i| &&i.col == c)).cloned().collect();
                let col = if !indexed.is_empty() && self.rng.chance(1, 2) { self.rng.pick(&indexed).clone() } else { self.rng.pick(&cand).clone() };
                let flag = self.rng.chance(1, 5);
                self.push(Op::DropColumn { q: q.clone(), col: col.clone(), ie: flag });
                self.dropped_cols.push((q.clone(), col.clone()));
                self.probes_after(&q, Some(col), None);
            }
            "rename_col" => {
                let Some(q) = self.pick_tab() else { return };
                let t = self.m.tabs.get(&q).cloned().unwrap();
                let cand: Vec<MCol> = t.cols.iter().filter(|c| !c.pk || self.f.error_cases).cloned().collect();
                if cand.is_empty() {
                    return;
                }
                let indexed: Vec<MCol> = cand.iter().filter(|c| t.idx.iter().any(|i| i.col == c.name)).cloned().collect();
                let c = if !indexed.is_empty() && self.rng.chance(1, 2) { self.rng.pick(&indexed).clone() } else { self.rng.pick(&cand).clone() };
                self.ncol += 1;
                // the first letter keeps encoding the type
                let new = if c.pk { format!("pk{}", self.ncol) } else { format!("{}{}r", c.ty.letter(), self.ncol) };
                self.push(Op::RenameColumn { q: q.clone(), old: c.name.clone(), new: new.clone() });
                self.probes_after(&q, Some(c.name), Some(new));
            }
            _ => {
                // statements that must be rejected (or be no-ops with IF [NOT] EXISTS)
                let r = self.rng.below(7);
                let ie = self.rng.chance(1, 2);
                match r {
                    0 => self.push(Op::DropTable { q: "nosuch".into(), ie }),
                    1 => self.push(Op::DropIndex { name: "nosuchix".into(), ie }),
                    2 => self.push(Op::DropSchema { name: "nosuchschema".into(), ie }),
                    3 => {
                        if let Some(q) = self.pick_tab() {
                            self.push(Op::DropColumn { q, col: "nosuchcol".into(), ie });
                        }
                    }
                    4 => {
                        if let Some(q) = self.pick_tab() {
                            let cols = self.m.tabs[&q].cols.clone();
                            self.push(Op::CreateTable { q, cols, ine: ie });
                        }
                    }
                    5 => {
                        if let Some(q) = self.pick_tab() {
                            let c = self.rng.pick(&self.m.tabs[&q].cols.clone()).clone();
                            if !c.pk {
                                self.push(Op::AddColumn { q, col: MCol { default: None, not_null: false, ..c } });
                            }
                        }
                    }
                    _ => {
                        if let Some(q) = self.pick_tab() {
                            self.push(Op::RenameColumn { q, old: "nosuchcol".into(), new: "b999".into() });
                        }
                    }
                }
            }
        }
    }
}

fn gen_history(rng: &mut Rng, target: usize) -> (Vec<Op>, Feats) {
    // stratified: every history draws a small subset of the DDL kinds
    let mut f = Feats::default();
    let n_feats = rng.usize(1, 3);
    for _ in 0..n_feats {
        match rng.below(7) {
            0 => f.schema = true,
            1 => f.drop_create = true,
            2 => f.index = true,
            3 => f.truncate = true,
            4 => f.add_col = true,
            5 => f.drop_col = true,
            _ => f.rename_col = true,
        }
    }
    f.reopen = rng.chance(2, 3);
    f.long_text = rng.chance(1, 4);
    f.error_cases = rng.chance(1, 4);
    let mut g = Gen { rng, m: Model::new(), ops: vec![], f: f.clone(), uniq: 0, ncol: 0, nidx: 0, dropped_cols: vec![] };
    let ntab = g.rng.usize(1, 2);
    for i in 0..ntab {
        let q = format!("t{}", i + 1);
        g.create_table(&q);
        let n = g.rng.usize(0, 8);
        if n > 0 {
            g.insert_rows(&q, n, None);
        }
    }
    let mut guard = 0;
    while g.ops.len() < target && guard < 400 {
        guard += 1;
        if g.m.tabs.is_empty() {
            g.create_table("t1");
            continue;
        }
        let r = g.rng.below(100);
        if r < 40 {
            g.ddl();
        } else if r < 50 && g.f.reopen {
            let close = g.rng.chance(1, 2);
            g.push(Op::Reopen { close });
        } else if let Some(q) = g.pick_tab() {
            g.dml(&q);
        }
    }
    if g.f.reopen {
        let close = g.rng.chance(1, 2);
        g.push(Op::Reopen { close });
        // the reopened database accepts the new shape
        for q in g.tab_names() {
            g.insert_rows(&q, 1, None);
        }
    }
    let f = g.f.clone();
    (g.ops, f)
}

// ---------------------------------------------------------------- shrinking

/// ddmin over the operation list: smallest sub-history (found within the budget) that still yields `sig`
fn shrink(ops: &[Op], sig: &str, dir: &Path, budget: usize, deadline: std::time::Instant) -> Vec<Op> {
    let mut cur: Vec<Op> = ops.to_vec();
    let mut runs = 0usize;
    let fails_with = |cand: &[Op], runs: &mut usize| -> bool {
        *runs += 1;
        run_history(cand, dir).fails.iter().any(|f| f.sig() == sig)
    };
    // cut everything after the failing operation first
    if let Some(f) = run_history(&cur, dir).fails.iter().find(|f| f.sig() == sig) {
        cur.truncate(f.op_index + 1);
    }
    let mut n = 2usize;
    while cur.len() >= 2 && runs < budget && std::time::Instant::now() < deadline {
        let chunk = (cur.len() + n - 1) / n;
        let mut reduced = false;
        let mut start = 0;
        while start < cur.len() && runs < budget && std::time::Instant::now() < deadline {
            let end = (start + chunk).min(cur.len());
            let cand: Vec<Op> = cur[..start].iter().chain(cur[end..].iter()).cloned().collect();
            if !cand.is_empty() && fails_with(&cand, &mut runs) {
                cur = cand;
                n = n.saturating_sub(1).max(2);
                reduced = true;
                break;
            }
            start = end;
        }
        if !reduced {
            if chunk <= 1 {
                break;
            }
            n = (n * 2).min(cur.len());
        }
    }
    // shrink multi-row inserts to a single row
    let mut i = 0;
    while i < cur.len() && runs < budget && std::time::Instant::now() < deadline {
        if let Op::Insert { q, cols, rows } = &cur[i] {
            if rows.len() > 1 {
                let mut cand = cur.clone();
                cand[i] = Op::Insert { q: q.clone(), cols: cols.clone(), rows: vec![rows[0].clone()] };
                if fails_with(&cand, &mut runs) {
                    cur = cand;
                    continue;
                }
            }
        }
        i += 1;
    }
    cur
}

// ---------------------------------------------------------------- entry point

/// `tv C21 "<stmt>" "@reopen" "<stmt>" ...`: run statements on a fresh scratch database and print the results
/// (`@reopen` = drop the handle + Database::open, `@close_reopen` = close() first, `@checkpoint`). Replay aid.
fn probe_mode(stmts: &[String]) -> i32 {
    let scratch = Scratch::new("c21probe");
    let dir = scratch.dir("db");
    let mut db = Some(Db::create(&dir).expect("create"));
    for s in stmts {
        println!("> {}", s);
        match s.as_str() {
            "@reopen" | "@close_reopen" => {
                let d = db.take().unwrap();
                if s == "@close_reopen" {
                    println!("  close: {:?}", crate::report::catch(|| d.db.close().map(|_| ()).map_err(|e| format!("{:#}", e))));
                }
                drop(d);
                match Db::open(&dir) {
                    Ok(d) => {
                        println!("  opened");
                        db = Some(d)
                    }
                    Err(e) => {
                        println!("  OPEN ERR {}", e);
                        return 1;
                    }
                }
            }
            "@checkpoint" => {
                let d = db.as_mut().unwrap();
                println!("  {:?}", crate::report::catch(|| d.db.checkpoint().map(|c| c.frames_checkpointed).map_err(|e| format!("{:#}", e))));
            }
            _ => match db.as_mut().unwrap().exec(s) {
                Ok(o) => println!("  {}", format!("{:?}", o).chars().take(600).collect::<String>()),
                Err(e) => println!("  ERR {}", e),
            },
        }
    }
    0
}

pub fn run(a: &Args) -> i32 {
    if !a.rest.is_empty() {
        return probe_mode(&a.rest);
    }
    let mut ctx = Ctx::new(
        "C21",
        &a.tier,
        a.seed,
        "exploration",
        "generated histories (12..45 statements, 1..3 tables incl. schema-qualified ones, primary key first / in the middle / absent, BIGINT/INT/DOUBLE/TEXT/BOOLEAN columns, NULLs, optional TEXT values around the 1000-byte TOAST threshold) interleaving simple DML with a stratified subset of DDL kinds: CREATE/DROP TABLE incl. re-creating a dropped name, CREATE/DROP INDEX incl. IF [NOT] EXISTS and re-used names, CREATE/DROP SCHEMA, TRUNCATE, ALTER TABLE ADD COLUMN (plain / DEFAULT / NOT NULL DEFAULT / re-adding a dropped name), DROP COLUMN (first/middle/last, indexed), RENAME COLUMN (plain, indexed, primary key), statements that must be rejected, and close/drop + Database::open at random points. A catalog+rows model predicts ok/error, rows_affected, and after every statement the table's SELECT * / SELECT <names> (width and bag), COUNT(*) and equality lookups on indexed columns; after each DDL extra statements use the new shape (must work) and the old shape (must fail). A failing history is shrunk by ddmin. distinct_nontrivial = distinct histories (hash of the statement list) in which at least one DDL was applied to a table that held rows and the table was then fully checked",
    );
    let mut master = Rng::derive(a.seed, 21);
    let quick = ctx.quick();
    let budget_s = if quick { 36.0 } else { 470.0 };
    // shrinking runs on this thread: only early in the run, so that the wall budget holds
    let shrink_until_s = if quick { 22.0 } else { 400.0 };
    let max_hist = if cfg!(miri) { 0 } else if quick { 600 } else { 12000 };
    let max_shrinks = if quick { 3 } else { 40 };
    let scratch = Scratch::new("c21");
    // every history gets its own generator seeded from the C21 stream; workers only overlap the fsync waits
    let seeds: std::sync::Arc<Vec<u64>> = std::sync::Arc::new((0..max_hist).map(|_| master.next()).collect());
    let next = std::sync::Arc::new(std::sync::atomic::AtomicUsize::new(0));
    let stop = std::sync::Arc::new(std::sync::atomic::AtomicBool::new(false));
    let (tx, rx) = std::sync::mpsc::channel::<(Vec<Op>, Feats, RunOut)>();
    let nthreads = 6;
    let mut handles = vec![];
    for w in 0..nthreads {
        let (seeds, next, stop, tx) = (seeds.clone(), next.clone(), stop.clone(), tx.clone());
        let dir = scratch.root.join(format!("w{}", w));
        handles.push(std::thread::spawn(move || loop {
            if stop.load(std::sync::atomic::Ordering::Relaxed) {
                break;
            }
            let idx = next.fetch_add(1, std::sync::atomic::Ordering::Relaxed);
            if idx >= seeds.len() {
                break;
            }
            let mut rng = Rng::new(seeds[idx]);
            let target = rng.usize(12, 45);
            let (ops, feats) = gen_history(&mut rng, target);
            let out = run_history(&ops, &dir);
            if tx.send((ops, feats, out)).is_err() {
                break;
            }
        }));
    }
    drop(tx);
    let mut shrunk: BTreeSet<String> = BTreeSet::new();
    let mut first_of_sig: BTreeMap<String, J> = BTreeMap::new();
    let mut ddl_totals: BTreeMap<String, u64> = BTreeMap::new();
    let mut feat_totals: BTreeMap<&'static str, u64> = BTreeMap::new();
    for (ops, feats, out) in rx {
        if ctx.elapsed() > budget_s {
            stop.store(true, std::sync::atomic::Ordering::Relaxed);
        }
        ctx.evals(out.executed as u64);
        ctx.count("histories", 1);
        ctx.count("reopens", out.reopens as u64);
        ctx.count("indexes_already_wrong_before_ddl_or_reopen_not_judged", out.stale_indexes as u64);
        for t in feats.tags() {
            *feat_totals.entry(t).or_insert(0) += 1;
        }
        let mut any_ddl_on_data = false;
        for (k, n) in &out.ddl_on_data {
            *ddl_totals.entry(k.clone()).or_insert(0) += n;
            any_ddl_on_data = true;
        }
        if any_ddl_on_data {
            let text: String = ops.iter().map(|o| o.sql()).collect::<Vec<_>>().join(";");
            ctx.nontrivial(fnv(text.as_bytes()));
        }
        if out.fails.is_empty() && ctx.samples.len() < 4 && any_ddl_on_data {
            ctx.sample(json!({"features": feats.tags(), "history": out.log.iter().take(30).collect::<Vec<_>>()}));
        }
        let mut seen_here: BTreeSet<String> = BTreeSet::new();
        for f in &out.fails {
            let sig = f.sig();
            if !seen_here.insert(sig.clone()) {
                continue;
            }
            let known = ctx.is_known(&sig).is_some();
            let mut minimal: Option<Vec<String>> = None;
            let mut minimal_info: Option<J> = None;
            if !known && !shrunk.contains(&sig) && shrunk.len() < max_shrinks && ctx.elapsed() < shrink_until_s {
                shrunk.insert(sig.clone());
                let sdir = scratch.dir("shrink");
                let small = shrink(&ops, &sig, &sdir, if quick { 30 } else { 150 }, ctx.start + std::time::Duration::from_secs_f64(if quick { 30.0 } else { 440.0 }));
                let again = run_history(&small, &sdir);
                minimal_info = again.fails.iter().find(|x| x.sig() == sig).map(|x| x.info.clone());
                minimal = Some(small.iter().map(|o| o.short_sql()).collect());
            }
            if !known && (!first_of_sig.contains_key(&sig) || (minimal.is_some() && first_of_sig[&sig].get("minimal_history").map(|m| m.is_null()).unwrap_or(true))) && first_of_sig.len() < 80 {
                let upto = if f.log_pos == 0 { out.log.len() } else { f.log_pos.min(out.log.len()) };
                first_of_sig.insert(sig.clone(), json!({"minimal_history": minimal.clone(), "minimal_info": minimal_info.clone(), "info": f.info, "history_tail": out.log[..upto].iter().rev().take(12).rev().collect::<Vec<_>>()}));
            }
            ctx.violation(
                f.assertion,
                &sig,
                json!({
                    "features": feats.tags(),
                    "failing_statement_index": f.op_index,
                    "info": f.info,
                    "history": out.log,
                    "minimal_history": minimal,
                    "minimal_info": minimal_info,
                }),
            );
        }
    }
    for h in handles {
        let _ = h.join();
    }
    ctx.extra.insert("ddl_applied_to_tables_with_rows_and_checked".into(), json!(ddl_totals));
    ctx.extra.insert("histories_by_feature".into(), json!(feat_totals));
    if !first_of_sig.is_empty() {
        ctx.extra.insert("unexplained_first_of_signature".into(), json!(first_of_sig));
    }
    ctx.assumptions.push("NOT NULL without DEFAULT is only added to empty tables; DROP SCHEMA only on empty schemas; primary-key columns are never dropped; RENAME to an existing name, explicit NULL into a DEFAULT column, UNIQUE indexes and one index name on two tables are not generated (undocumented or owned by other properties); text compares bytewise".into());
    ctx.finish()
}

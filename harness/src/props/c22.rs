//! C22: no input makes the library panic, abort or hang.
//!
//! Inputs run against an OPEN database of <= 200 rows (fixed schema: six tables with INT/TEXT/DOUBLE/
//! DECIMAL/DATE/TIMESTAMP/TIME/JSONB/UUID/BLOB/VECTOR columns, secondary/unique/composite indexes, a
//! unicode-named table; one image built with WAL off, one with WAL on).  Every case starts from a
//! fresh copy of the image and is a short list of public API calls:
//!   gram   grammar-generated valid and near-valid statements of every statement kind of the parser
//!   func   every function of the README tables (and the ones only the code knows) with arity/type errors
//!   deep   deep nesting (parentheses, subqueries, CASE, NOT, unary minus, function calls...) up to depth ~200
//!   huge   huge literals (40-digit integers, 1e999, 1 MiB strings), empty strings, unicode identifiers,
//!          unterminated quotes/comments
//!   mut    token-level mutations of the SQL harvested at run time from /repo/tests/*.rs
//!   bytes  random byte strings lossily decoded to &str
//!   params execute_with_params / prepare+bind+execute/query with wrong length/type/huge parameters
//!   api    call sequences over several handles and threads (clone, close, use-after-close, drop with
//!          an open transaction, checkpoint, insert_batch, bulk_insert, reopen)
//! Monitor: panic hook (first /repo/src frame) + catch_unwind in re-exec'd worker processes (8 MiB
//! stack, RLIMIT_AS 4 GiB) that publish (case, step, heartbeat) in a shared-memory black box, so that
//! aborts (allocation failure, stack overflow, fatal signals) and CPU-time-measured hangs are attributed
//! to the exact call.  Hang rule (two stages): a call burning > 20 CPU-s is abandoned and the case is
//! re-run ALONE with a 120 CPU-s limit; only the second expiry is reported.
//! Signature: C22/<entry point>/<statement kind | fn:NAME | api op>/<panic:file.rs:line | abort:kind | hang>.
//! A worker that burns CPU while holding > 1 GiB when it reaches a CPU limit is a memory blow-up (abort:alloc_abort), not a hang;
//! a worker whose threads all sleep (states from /proc) for 8 s, then 30 s alone, is blocked on a lock (hang).
//! The per-case database copies live in /dev/shm/tv-c22-<pid>/ (memory backed; ~16 fsync/msync per case cost 400 ms on the
//! shared disk), everything else in /verif/scratch/c22-<pid>/; both are removed at the end (TV_C22_NO_SHM=1: all on disk).
//! Cases are a pure function of (seed, unit, index): `tv C22 --tier T --seed S child <unit> <idx> 1 <dir>`
//! replays one; `tv C22 --replay <file>` re-runs the minimal case stored in a replay file.
#![allow(unused_variables, unused_mut, unused_assignments)]
use crate::report::{self, Ctx};
use crate::rng::{fnv, Rng};
use crate::Args;
use serde_json::{json, Value};
use std::cell::RefCell;
use std::collections::{BTreeMap, HashMap, HashSet};
use std::io::Write as _;
use std::path::{Path, PathBuf};
use std::sync::atomic::{AtomicPtr, AtomicU64, Ordering};
use turdb::{Database, ExecuteResult, OwnedValue};

const PROP: &str = "C22";
const STREAM: u64 = 22;

// ------------------------------------------------------------------------------------------
// panic capture: site = panic location if it is in /repo, else the first /repo frame of a backtrace
// ------------------------------------------------------------------------------------------
thread_local! {
    static REPO_FRAME: RefCell<Option<String>> = RefCell::new(None);
}
/// black box of this process (if any): heartbeat target for every thread and for the panic hook
static BB_PTR: AtomicPtr<u8> = AtomicPtr::new(std::ptr::null_mut());

fn bb_beat() {
    let p = BB_PTR.load(Ordering::Relaxed);
    if !p.is_null() {
        unsafe {
            let hb = &*(p.add(8) as *const AtomicU64);
            hb.fetch_add(1, Ordering::Relaxed);
        }
    }
}

fn bb_symbolizing(on: bool) {
    let p = BB_PTR.load(Ordering::Relaxed);
    if !p.is_null() {
        unsafe { std::ptr::write_volatile(p.add(24), on as u8) };
        bb_beat();
    }
}

fn first_repo_frame() -> Option<String> {
    if cfg!(miri) {
        return None;
    }
    bb_symbolizing(true);
    let bt = std::backtrace::Backtrace::force_capture().to_string();
    bb_symbolizing(false);
    for line in bt.lines() {
        let l = line.trim();
        if let Some(rest) = l.strip_prefix("at ") {
            if rest.starts_with("/repo/src/") {
                let mut parts = rest["/repo/".len()..].split(':');
                let f = parts.next().unwrap_or("");
                let ln = parts.next().unwrap_or("");
                return Some(format!("{}:{}", f, ln));
            }
        }
    }
    None
}

fn install_hook() {
    use std::sync::Once;
    static ONCE: Once = Once::new();
    ONCE.call_once(|| {
        report::install_panic_hook();
        let prev = std::panic::take_hook();
        std::panic::set_hook(Box::new(move |info| {
            prev(info);
            let file = info.location().map(|l| l.file().to_string()).unwrap_or_default();
            let in_repo = file.starts_with("/repo/") || file.starts_with("src/");
            let fr = if in_repo { None } else { first_repo_frame() };
            REPO_FRAME.with(|p| *p.borrow_mut() = fr);
        }));
    });
}

/// run `f`; on panic return (site relative to /repo/src, message)
fn guard<T>(f: impl FnOnce() -> T) -> Result<T, (String, String)> {
    install_hook();
    REPO_FRAME.with(|p| p.borrow_mut().take());
    match report::catch(f) {
        Ok(v) => Ok(v),
        Err(msg) => {
            let raw = report::panic_site(&msg);
            let site = if let Some(s) = raw.strip_prefix("/repo/") {
                s.to_string()
            } else if raw.starts_with("src/") {
                // relative path: the harness itself (the repo is compiled with absolute paths)
                format!("harness:{}", raw)
            } else {
                match REPO_FRAME.with(|p| p.borrow_mut().take()) {
                    Some(fr) => fr,
                    None => {
                        let b = raw.rsplit('/').next().unwrap_or(&raw).to_string();
                        format!("std:{}", b)
                    }
                }
            };
            let site = site.strip_prefix("src/").map(|s| s.to_string()).unwrap_or(site);
            let site = report::stable_site(&site);
            Err((site, msg))
        }
    }
}

// ------------------------------------------------------------------------------------------
// black box: shared file mapping the parent can read after the child died
// layout: [0..8) case index  [8..16) heartbeat  [16..24) cases finished  [24] symbolising flag
// [32..80) label "<step>:<entry>" (NUL padded)  [80..88) cases whose counters were flushed
// ------------------------------------------------------------------------------------------
pub struct BlackBox {
    ptr: *mut u8,
}
unsafe impl Send for BlackBox {}
unsafe impl Sync for BlackBox {}
const BB_SIZE: usize = 4096;

impl BlackBox {
    fn open(path: &Path) -> Option<BlackBox> {
        use std::os::unix::io::AsRawFd;
        let f = std::fs::OpenOptions::new().read(true).write(true).create(true).open(path).ok()?;
        f.set_len(BB_SIZE as u64).ok()?;
        let p = unsafe { libc::mmap(std::ptr::null_mut(), BB_SIZE, libc::PROT_READ | libc::PROT_WRITE, libc::MAP_SHARED, f.as_raw_fd(), 0) };
        if p == libc::MAP_FAILED {
            return None;
        }
        BB_PTR.store(p as *mut u8, Ordering::Relaxed);
        Some(BlackBox { ptr: p as *mut u8 })
    }
    fn begin(&self, idx: u64) {
        unsafe { std::ptr::write_volatile(self.ptr as *mut u64, idx) };
        bb_beat();
    }
    fn finished(&self, n: u64) {
        unsafe { std::ptr::write_volatile(self.ptr.add(16) as *mut u64, n) }
    }
    fn flushed(&self, n: u64) {
        unsafe { std::ptr::write_volatile(self.ptr.add(80) as *mut u64, n) }
    }
    fn op(&self, label: &str) {
        unsafe {
            let dst = self.ptr.add(32);
            let b = label.as_bytes();
            let n = b.len().min(47);
            std::ptr::copy_nonoverlapping(b.as_ptr(), dst, n);
            std::ptr::write_volatile(dst.add(n), 0);
        }
        bb_beat();
    }
}

/// parent side: (case idx, heartbeat, finished, label, symbolising, flushed)
fn read_blackbox(path: &Path) -> Option<(u64, u64, u64, String, bool, u64)> {
    let d = std::fs::read(path).ok()?;
    if d.len() < 96 {
        return None;
    }
    let idx = u64::from_le_bytes(d[0..8].try_into().ok()?);
    let hb = u64::from_le_bytes(d[8..16].try_into().ok()?);
    let fin = u64::from_le_bytes(d[16..24].try_into().ok()?);
    let lab = &d[32..80];
    let n = lab.iter().position(|b| *b == 0).unwrap_or(lab.len());
    let flushed = u64::from_le_bytes(d[80..88].try_into().ok()?);
    Some((idx, hb, fin, String::from_utf8_lossy(&lab[..n]).to_string(), d[24] != 0, flushed))
}

// ------------------------------------------------------------------------------------------
// text with run-length segments: huge literals and deep nesting stay small in replay files and
// can be shrunk by halving the repeat counts
// ------------------------------------------------------------------------------------------
#[derive(Clone, Debug, PartialEq)]
pub enum Seg {
    Lit(String),
    Rep(String, usize),
}

#[derive(Clone, Debug, PartialEq, Default)]
pub struct Txt(pub Vec<Seg>);

impl Txt {
    pub fn lit(s: impl Into<String>) -> Txt {
        Txt(vec![Seg::Lit(s.into())])
    }
    pub fn push(&mut self, s: impl Into<String>) {
        let s = s.into();
        if let Some(Seg::Lit(l)) = self.0.last_mut() {
            l.push_str(&s);
        } else {
            self.0.push(Seg::Lit(s));
        }
    }
    pub fn rep(&mut self, s: impl Into<String>, n: usize) {
        self.0.push(Seg::Rep(s.into(), n));
    }
    pub fn len(&self) -> usize {
        self.0.iter().map(|s| match s { Seg::Lit(l) => l.len(), Seg::Rep(r, n) => r.len() * n }).sum()
    }
    pub fn render(&self) -> String {
        let mut out = String::with_capacity(self.len());
        for s in &self.0 {
            match s {
                Seg::Lit(l) => out.push_str(l),
                Seg::Rep(r, n) => {
                    for _ in 0..*n {
                        out.push_str(r);
                    }
                }
            }
        }
        out
    }
    pub fn has_rep(&self) -> bool {
        self.0.iter().any(|s| matches!(s, Seg::Rep(_, n) if *n > 1))
    }
    /// JSON: a plain string, or an array of strings and [string, count] pairs
    pub fn to_json(&self) -> Value {
        if self.0.len() == 1 {
            if let Seg::Lit(l) = &self.0[0] {
                return json!(l);
            }
        }
        Value::Array(self.0.iter().map(|s| match s { Seg::Lit(l) => json!(l), Seg::Rep(r, n) => json!([r, n]) }).collect())
    }
    pub fn from_json(v: &Value) -> Txt {
        match v {
            Value::String(s) => Txt::lit(s.clone()),
            Value::Array(a) => Txt(a
                .iter()
                .map(|e| match e {
                    Value::String(s) => Seg::Lit(s.clone()),
                    Value::Array(p) => Seg::Rep(p.first().and_then(|x| x.as_str()).unwrap_or("").to_string(), p.get(1).and_then(|x| x.as_u64()).unwrap_or(0) as usize),
                    _ => Seg::Lit(String::new()),
                })
                .collect()),
            _ => Txt::default(),
        }
    }
    /// merge adjacent literals, drop empty segments
    pub fn normalized(&self) -> Txt {
        let mut t = Txt::default();
        for s in &self.0 {
            match s {
                Seg::Lit(l) => {
                    if !l.is_empty() {
                        t.push(l.clone())
                    }
                }
                Seg::Rep(r, n) => {
                    if *n > 0 && !r.is_empty() {
                        if *n == 1 {
                            t.push(r.clone())
                        } else {
                            t.rep(r.clone(), *n)
                        }
                    }
                }
            }
        }
        t
    }
}

// ------------------------------------------------------------------------------------------
// parameter values (serialisable mirror of OwnedValue)
// ------------------------------------------------------------------------------------------
#[derive(Clone, Debug, PartialEq)]
pub enum P {
    Null,
    Bool(bool),
    Int(i64),
    Float(u64),
    Text(Txt),
    Blob(Txt),
    /// n copies of f32 bits
    Vector(u32, usize),
    Date(i32),
    Time(i64),
    Timestamp(i64),
    TimestampTz(i64, i32),
    Uuid(u8),
    MacAddr(u8),
    Inet4(u8),
    Inet6(u8),
    Interval(i64, i32, i32),
    Point(u64, u64),
    GeoBox(u64),
    Circle(u64),
    Jsonb(Txt),
    Decimal(i128, i16),
    Enum(u16, u16),
    Toast(Txt),
}

impl P {
    fn to_owned_value(&self) -> OwnedValue {
        match self {
            P::Null => OwnedValue::Null,
            P::Bool(b) => OwnedValue::Bool(*b),
            P::Int(i) => OwnedValue::Int(*i),
            P::Float(b) => OwnedValue::Float(f64::from_bits(*b)),
            P::Text(t) => OwnedValue::Text(t.render()),
            P::Blob(t) => OwnedValue::Blob(t.render().into_bytes()),
            P::Vector(bits, n) => OwnedValue::Vector(vec![f32::from_bits(*bits); *n]),
            P::Date(d) => OwnedValue::Date(*d),
            P::Time(t) => OwnedValue::Time(*t),
            P::Timestamp(t) => OwnedValue::Timestamp(*t),
            P::TimestampTz(t, o) => OwnedValue::TimestampTz(*t, *o),
            P::Uuid(b) => OwnedValue::Uuid([*b; 16]),
            P::MacAddr(b) => OwnedValue::MacAddr([*b; 6]),
            P::Inet4(b) => OwnedValue::Inet4([*b; 4]),
            P::Inet6(b) => OwnedValue::Inet6([*b; 16]),
            P::Interval(a, b, c) => OwnedValue::Interval(*a, *b, *c),
            P::Point(a, b) => OwnedValue::Point(f64::from_bits(*a), f64::from_bits(*b)),
            P::GeoBox(a) => OwnedValue::Box((f64::from_bits(*a), 0.0), (1.0, f64::from_bits(*a))),
            P::Circle(a) => OwnedValue::Circle((f64::from_bits(*a), 1.0), f64::from_bits(*a)),
            P::Jsonb(t) => OwnedValue::Jsonb(t.render().into_bytes()),
            P::Decimal(d, s) => OwnedValue::Decimal(*d, *s),
            P::Enum(a, b) => OwnedValue::Enum(*a, *b),
            P::Toast(t) => OwnedValue::ToastPointer(t.render().into_bytes()),
        }
    }
    fn kind(&self) -> &'static str {
        match self {
            P::Null => "Null",
            P::Bool(_) => "Bool",
            P::Int(_) => "Int",
            P::Float(_) => "Float",
            P::Text(_) => "Text",
            P::Blob(_) => "Blob",
            P::Vector(..) => "Vector",
            P::Date(_) => "Date",
            P::Time(_) => "Time",
            P::Timestamp(_) => "Timestamp",
            P::TimestampTz(..) => "TimestampTz",
            P::Uuid(_) => "Uuid",
            P::MacAddr(_) => "MacAddr",
            P::Inet4(_) => "Inet4",
            P::Inet6(_) => "Inet6",
            P::Interval(..) => "Interval",
            P::Point(..) => "Point",
            P::GeoBox(_) => "Box",
            P::Circle(_) => "Circle",
            P::Jsonb(_) => "Jsonb",
            P::Decimal(..) => "Decimal",
            P::Enum(..) => "Enum",
            P::Toast(_) => "ToastPointer",
        }
    }
    fn to_json(&self) -> Value {
        let k = self.kind();
        match self {
            P::Null => json!({"t": k}),
            P::Bool(b) => json!({"t": k, "v": b}),
            P::Int(i) => json!({"t": k, "v": i.to_string()}),
            P::Float(b) => json!({"t": k, "bits": b.to_string(), "value": format!("{:e}", f64::from_bits(*b))}),
            P::Text(t) | P::Blob(t) | P::Jsonb(t) | P::Toast(t) => json!({"t": k, "v": t.to_json()}),
            P::Vector(b, n) => json!({"t": k, "bits": b, "n": n, "value": format!("{:e}", f32::from_bits(*b))}),
            P::Date(d) => json!({"t": k, "v": d}),
            P::Time(t) | P::Timestamp(t) => json!({"t": k, "v": t.to_string()}),
            P::TimestampTz(t, o) => json!({"t": k, "v": t.to_string(), "o": o}),
            P::Uuid(b) | P::MacAddr(b) | P::Inet4(b) | P::Inet6(b) => json!({"t": k, "v": b}),
            P::Interval(a, b, c) => json!({"t": k, "v": a.to_string(), "b": b, "c": c}),
            P::Point(a, b) => json!({"t": k, "a": a.to_string(), "b": b.to_string()}),
            P::GeoBox(a) | P::Circle(a) => json!({"t": k, "a": a.to_string()}),
            P::Decimal(d, s) => json!({"t": k, "v": d.to_string(), "s": s}),
            P::Enum(a, b) => json!({"t": k, "a": a, "b": b}),
        }
    }
    fn from_json(v: &Value) -> P {
        let s = |k: &str| v[k].as_str().unwrap_or("0").to_string();
        let n = |k: &str| v[k].as_i64().unwrap_or(0);
        match v["t"].as_str().unwrap_or("Null") {
            "Bool" => P::Bool(v["v"].as_bool().unwrap_or(false)),
            "Int" => P::Int(s("v").parse().unwrap_or(0)),
            "Float" => P::Float(s("bits").parse().unwrap_or(0)),
            "Text" => P::Text(Txt::from_json(&v["v"])),
            "Blob" => P::Blob(Txt::from_json(&v["v"])),
            "Jsonb" => P::Jsonb(Txt::from_json(&v["v"])),
            "ToastPointer" => P::Toast(Txt::from_json(&v["v"])),
            "Vector" => P::Vector(n("bits") as u32, n("n") as usize),
            "Date" => P::Date(n("v") as i32),
            "Time" => P::Time(s("v").parse().unwrap_or(0)),
            "Timestamp" => P::Timestamp(s("v").parse().unwrap_or(0)),
            "TimestampTz" => P::TimestampTz(s("v").parse().unwrap_or(0), n("o") as i32),
            "Uuid" => P::Uuid(n("v") as u8),
            "MacAddr" => P::MacAddr(n("v") as u8),
            "Inet4" => P::Inet4(n("v") as u8),
            "Inet6" => P::Inet6(n("v") as u8),
            "Interval" => P::Interval(s("v").parse().unwrap_or(0), n("b") as i32, n("c") as i32),
            "Point" => P::Point(s("a").parse().unwrap_or(0), s("b").parse().unwrap_or(0)),
            "Box" => P::GeoBox(s("a").parse().unwrap_or(0)),
            "Circle" => P::Circle(s("a").parse().unwrap_or(0)),
            "Decimal" => P::Decimal(s("v").parse().unwrap_or(0), n("s") as i16),
            "Enum" => P::Enum(n("a") as u16, n("b") as u16),
            _ => P::Null,
        }
    }
}

fn params_json(ps: &[P]) -> Value {
    Value::Array(ps.iter().map(|p| p.to_json()).collect())
}
fn params_from(v: &Value) -> Vec<P> {
    v.as_array().map(|a| a.iter().map(P::from_json).collect()).unwrap_or_default()
}
fn rows_json(rows: &[Vec<P>]) -> Value {
    Value::Array(rows.iter().map(|r| params_json(r)).collect())
}
fn rows_from(v: &Value) -> Vec<Vec<P>> {
    v.as_array().map(|a| a.iter().map(params_from).collect()).unwrap_or_default()
}

// ------------------------------------------------------------------------------------------
// cases: a list of API calls over handles (handle 0 = the database opened on the fresh copy)
// ------------------------------------------------------------------------------------------
#[derive(Clone, Debug, PartialEq)]
pub enum Round {
    /// bind all values (chained .bind()) then execute (false) or query (true)
    Bind(Vec<P>, bool),
    /// a plain execute between two uses of the prepared statement
    Exec(Txt),
}

#[derive(Clone, Debug, PartialEq)]
pub enum Op {
    Exec(Txt),
    Query(Txt),
    QueryCols(Txt),
    ExecParams(Txt, Vec<P>),
    Prepare(Txt, Vec<Round>),
    InsertBatch(String, Vec<Vec<P>>),
    BulkInsert(String, Vec<Vec<P>>),
    Checkpoint,
    CheckpointWal,
    Close,
    CloneHandle,
    DropHandle,
    /// drop every handle, open the directory again as handle 0
    ReopenAll,
    /// each thread gets a clone of handle 0 as its handle 0
    Threads(Vec<Vec<Step>>),
}

#[derive(Clone, Debug, PartialEq)]
pub struct Step {
    pub h: u8,
    pub op: Op,
}

impl Step {
    fn exec(s: impl Into<String>) -> Step {
        Step { h: 0, op: Op::Exec(Txt::lit(s)) }
    }
    fn query(s: impl Into<String>) -> Step {
        Step { h: 0, op: Op::Query(Txt::lit(s)) }
    }
    fn sql(&self) -> Option<&Txt> {
        match &self.op {
            Op::Exec(t) | Op::Query(t) | Op::QueryCols(t) | Op::ExecParams(t, _) | Op::Prepare(t, _) => Some(t),
            _ => None,
        }
    }
    fn sql_mut(&mut self) -> Option<&mut Txt> {
        match &mut self.op {
            Op::Exec(t) | Op::Query(t) | Op::QueryCols(t) | Op::ExecParams(t, _) | Op::Prepare(t, _) => Some(t),
            _ => None,
        }
    }
    /// entry point name used in signatures
    fn entry(&self) -> &'static str {
        match &self.op {
            Op::Exec(_) => "execute",
            Op::Query(_) | Op::QueryCols(_) => "query",
            Op::ExecParams(..) => "execute_with_params",
            Op::Prepare(..) => "prepare",
            _ => "api_sequence",
        }
    }
    fn op_name(&self) -> &'static str {
        match &self.op {
            Op::Exec(_) => "execute",
            Op::Query(_) => "query",
            Op::QueryCols(_) => "query_with_columns",
            Op::ExecParams(..) => "execute_with_params",
            Op::Prepare(..) => "prepare",
            Op::InsertBatch(..) => "insert_batch",
            Op::BulkInsert(..) => "bulk_insert",
            Op::Checkpoint => "checkpoint",
            Op::CheckpointWal => "checkpoint_wal",
            Op::Close => "close",
            Op::CloneHandle => "clone",
            Op::DropHandle => "drop",
            Op::ReopenAll => "reopen",
            Op::Threads(_) => "threads",
        }
    }
    fn to_json(&self) -> Value {
        let mut v = json!({"h": self.h, "op": self.op_name()});
        match &self.op {
            Op::Exec(t) | Op::Query(t) | Op::QueryCols(t) => v["sql"] = t.to_json(),
            Op::ExecParams(t, ps) => {
                v["sql"] = t.to_json();
                v["params"] = params_json(ps);
            }
            Op::Prepare(t, rounds) => {
                v["sql"] = t.to_json();
                v["rounds"] = Value::Array(
                    rounds
                        .iter()
                        .map(|r| match r {
                            Round::Bind(ps, q) => json!({"bind": params_json(ps), "then": if *q { "query" } else { "execute" }}),
                            Round::Exec(t) => json!({"execute": t.to_json()}),
                        })
                        .collect(),
                );
            }
            Op::InsertBatch(t, rows) | Op::BulkInsert(t, rows) => {
                v["table"] = json!(t);
                v["rows"] = rows_json(rows);
            }
            Op::Threads(ts) => v["threads"] = Value::Array(ts.iter().map(|t| Value::Array(t.iter().map(|s| s.to_json()).collect())).collect()),
            _ => {}
        }
        v
    }
    fn from_json(v: &Value) -> Option<Step> {
        let h = v["h"].as_u64().unwrap_or(0) as u8;
        let t = || Txt::from_json(&v["sql"]);
        let op = match v["op"].as_str()? {
            "execute" => Op::Exec(t()),
            "query" => Op::Query(t()),
            "query_with_columns" => Op::QueryCols(t()),
            "execute_with_params" => Op::ExecParams(t(), params_from(&v["params"])),
            "prepare" => Op::Prepare(
                t(),
                v["rounds"]
                    .as_array()
                    .map(|a| {
                        a.iter()
                            .map(|r| if r.get("bind").is_some() { Round::Bind(params_from(&r["bind"]), r["then"].as_str() == Some("query")) } else { Round::Exec(Txt::from_json(&r["execute"])) })
                            .collect()
                    })
                    .unwrap_or_default(),
            ),
            "insert_batch" => Op::InsertBatch(v["table"].as_str().unwrap_or("").to_string(), rows_from(&v["rows"])),
            "bulk_insert" => Op::BulkInsert(v["table"].as_str().unwrap_or("").to_string(), rows_from(&v["rows"])),
            "checkpoint" => Op::Checkpoint,
            "checkpoint_wal" => Op::CheckpointWal,
            "close" => Op::Close,
            "clone" => Op::CloneHandle,
            "drop" => Op::DropHandle,
            "reopen" => Op::ReopenAll,
            "threads" => Op::Threads(v["threads"].as_array().map(|a| a.iter().map(|t| t.as_array().map(|s| s.iter().filter_map(Step::from_json).collect()).unwrap_or_default()).collect()).unwrap_or_default()),
            _ => return None,
        };
        Some(Step { h, op })
    }
}

#[derive(Clone, Debug, PartialEq)]
pub struct Case {
    pub unit: String,
    pub idx: u64,
    pub wal: bool,
    /// generator class (for the structural hash and the evidence)
    pub tag: String,
    /// overrides the statement kind in signatures (function unit: "fn:NAME")
    pub kind: Option<String>,
    pub steps: Vec<Step>,
}

impl Case {
    fn to_json(&self) -> Value {
        json!({
            "unit": self.unit, "idx": self.idx, "wal": self.wal, "tag": self.tag, "kind": self.kind,
            "database": if self.wal { "fresh copy of the base image built with PRAGMA wal = ON (see DB_SETUP in c22.rs); PRAGMA wal = ON is executed after open" } else { "fresh copy of the base image built with WAL off (see DB_SETUP in c22.rs)" },
            "steps": Value::Array(self.steps.iter().map(|s| s.to_json()).collect()),
        })
    }
    fn from_json(v: &Value) -> Option<Case> {
        Some(Case {
            unit: v["unit"].as_str().unwrap_or("replay").to_string(),
            idx: v["idx"].as_u64().unwrap_or(0),
            wal: v["wal"].as_bool().unwrap_or(false),
            tag: v["tag"].as_str().unwrap_or("").to_string(),
            kind: v["kind"].as_str().map(|s| s.to_string()),
            steps: v["steps"].as_array()?.iter().filter_map(Step::from_json).collect(),
        })
    }
}

// ------------------------------------------------------------------------------------------
// own tokenizer (independent of the lexer under test): used for mutation and shrinking
// ------------------------------------------------------------------------------------------
const MULTI_OPS: &[&str] = &["<=>", "<->", "<#>", "->>", "#>>", "<>", "<=", ">=", "!=", "||", "->", "#>", "@>", "<@", "&&", "::", "<<", ">>", "=="];

pub fn tokenize(s: &str) -> Vec<String> {
    let b = s.as_bytes();
    let mut out = vec![];
    let mut i = 0;
    // all cut points below are at ASCII bytes or at char boundaries found with char_indices
    while i < b.len() {
        let c = b[i];
        if c == b' ' || c == b'\t' || c == b'\n' || c == b'\r' {
            i += 1;
            continue;
        }
        let start = i;
        if c.is_ascii_alphabetic() || c == b'_' {
            if (c == b'x' || c == b'X') && b.get(i + 1) == Some(&b'\'') {
                i += 2;
                while i < b.len() && b[i] != b'\'' {
                    i += 1;
                }
                i = (i + 1).min(b.len());
            } else {
                while i < b.len() && (b[i].is_ascii_alphanumeric() || b[i] == b'_') {
                    i += 1;
                }
            }
        } else if c.is_ascii_digit() {
            while i < b.len() && (b[i].is_ascii_alphanumeric() || b[i] == b'_' || b[i] == b'.' || ((b[i] == b'+' || b[i] == b'-') && (b[i - 1] == b'e' || b[i - 1] == b'E'))) {
                i += 1;
            }
        } else if c == b'\'' || c == b'"' || c == b'`' {
            i += 1;
            loop {
                if i >= b.len() {
                    break;
                }
                if b[i] == c {
                    if b.get(i + 1) == Some(&c) {
                        i += 2;
                        continue;
                    }
                    i += 1;
                    break;
                }
                if b[i] == b'\\' && c == b'\'' && i + 1 < b.len() && b[i + 1].is_ascii() {
                    i += 2;
                    continue;
                }
                i += 1;
            }
        } else if c == b'-' && b.get(i + 1) == Some(&b'-') {
            while i < b.len() && b[i] != b'\n' {
                i += 1;
            }
            i = (i + 1).min(b.len());
        } else if c == b'/' && b.get(i + 1) == Some(&b'*') {
            i += 2;
            while i < b.len() && !(b[i] == b'*' && b.get(i + 1) == Some(&b'/')) {
                i += 1;
            }
            i = (i + 2).min(b.len());
        } else if c >= 0x80 {
            // run of non-ASCII characters
            while i < b.len() && b[i] >= 0x80 {
                i += 1;
            }
        } else {
            let mut matched = false;
            for op in MULTI_OPS {
                if b[i..].starts_with(op.as_bytes()) {
                    i += op.len();
                    matched = true;
                    break;
                }
            }
            if !matched {
                i += 1;
            }
        }
        // strings/quoted tokens may end inside a multi-byte char only if the input was cut; be safe
        while i < b.len() && !s.is_char_boundary(i) {
            i += 1;
        }
        out.push(s[start..i].to_string());
    }
    out
}

pub fn join_tokens(t: &[String]) -> String {
    t.join(" ")
}

fn first_words(s: &str, n: usize) -> Vec<String> {
    let mut out = vec![];
    let b = s.as_bytes();
    let mut i = 0;
    while out.len() < n && i < b.len() {
        while i < b.len() && !(b[i].is_ascii_alphabetic() || b[i] == b'_') {
            if b[i] >= 0x80 || b[i] == b'\'' || b[i] == b'"' || b[i].is_ascii_digit() {
                return out;
            }
            // skip whitespace, parentheses and comment starts
            if b[i] == b'-' && b.get(i + 1) == Some(&b'-') {
                while i < b.len() && b[i] != b'\n' {
                    i += 1;
                }
                continue;
            }
            if b[i] == b'/' && b.get(i + 1) == Some(&b'*') {
                i += 2;
                while i < b.len() && !(b[i] == b'*' && b.get(i + 1) == Some(&b'/')) {
                    i += 1;
                }
                i = (i + 2).min(b.len());
                continue;
            }
            if !(b[i] == b' ' || b[i] == b'\t' || b[i] == b'\n' || b[i] == b'\r' || b[i] == b'(' || b[i] == b';') {
                return out;
            }
            i += 1;
        }
        let st = i;
        while i < b.len() && (b[i].is_ascii_alphanumeric() || b[i] == b'_') {
            i += 1;
        }
        if i > st {
            out.push(s[st..i].to_ascii_uppercase());
        }
    }
    out
}

/// the only known SQL function called in the text (None if there is none or more than one)
pub fn single_function(t: &Txt) -> Option<String> {
    if t.len() > 20_000 {
        return None;
    }
    let toks = tokenize(&t.render());
    let mut found: Option<String> = None;
    for w in toks.windows(2) {
        if w[1] == "(" {
            let up = w[0].to_ascii_uppercase();
            if FUNCS.iter().any(|f| f.0 == up) && !AGGS.contains(&up.as_str()) {
                match &found {
                    Some(f) if *f != up => return None,
                    _ => found = Some(up),
                }
            }
        }
    }
    found
}

/// statement kind for signatures, decided from the leading keywords of the text
pub fn stmt_kind(t: &Txt) -> String {
    // only the head of the text matters; huge inputs are not rendered completely
    let mut head = String::new();
    for s in &t.0 {
        match s {
            Seg::Lit(l) => head.push_str(l),
            Seg::Rep(r, n) => {
                for _ in 0..(*n).min(64) {
                    head.push_str(r);
                    if head.len() > 400 {
                        break;
                    }
                }
            }
        }
        if head.len() > 400 {
            break;
        }
    }
    let w = first_words(&head, 4);
    let w0 = w.first().map(|s| s.as_str()).unwrap_or("");
    let w1 = w.get(1).map(|s| s.as_str()).unwrap_or("");
    match w0 {
        "SELECT" | "INSERT" | "UPDATE" | "DELETE" | "DROP" | "ALTER" | "TRUNCATE" | "BEGIN" | "COMMIT" | "ROLLBACK" | "SAVEPOINT" | "RELEASE" | "EXPLAIN" | "CALL" | "MERGE" | "SET" | "SHOW" | "RESET" | "GRANT" | "REVOKE" | "PRAGMA" => w0.to_string(),
        "WITH" => "SELECT".to_string(),
        "CREATE" => {
            let mut k = w1;
            if k == "OR" {
                k = w.get(3).map(|s| s.as_str()).unwrap_or("");
            }
            if k == "UNIQUE" {
                k = "INDEX";
            }
            if k == "TEMPORARY" || k == "TEMP" {
                k = "TABLE";
            }
            if k == "MATERIALIZED" {
                k = "VIEW";
            }
            match k {
                "TABLE" | "INDEX" | "SCHEMA" | "VIEW" | "FUNCTION" | "PROCEDURE" | "TRIGGER" | "TYPE" | "DOMAIN" => format!("CREATE_{}", k),
                _ => "CREATE".to_string(),
            }
        }
        _ => "other".to_string(),
    }
}

// ------------------------------------------------------------------------------------------
// the database every case runs against (<= 200 rows in total)
// ------------------------------------------------------------------------------------------
pub struct Tab {
    pub name: &'static str,
    pub rows: u64,
    /// (column, class) class: i int, f float, t text, b bool, d date, s timestamp, m time, j jsonb, v vector, u uuid, x blob, n decimal
    pub cols: &'static [(&'static str, char)],
}

pub const TABS: &[Tab] = &[
    Tab { name: "t1", rows: 60, cols: &[("id", 'i'), ("a", 'i'), ("b", 't'), ("c", 'f'), ("d", 'b'), ("u", 'i'), ("s", 'i'), ("r", 'f')] },
    Tab { name: "t2", rows: 40, cols: &[("id", 'i'), ("t1_id", 'i'), ("name", 't'), ("amount", 'n'), ("qty", 'i'), ("note", 't')] },
    Tab { name: "t3", rows: 30, cols: &[("id", 'i'), ("title", 't'), ("emb", 'v')] },
    Tab { name: "t4", rows: 40, cols: &[("id", 'i'), ("dt", 'd'), ("ts", 's'), ("tm", 'm'), ("j", 'j'), ("uid", 'u'), ("bl", 'x')] },
    Tab { name: "t5", rows: 8, cols: &[("k", 't'), ("v", 'i')] },
    Tab { name: "\"ünï\"", rows: 5, cols: &[("\"ключ\"", 'i'), ("\"值\"", 't')] },
];

fn sql_str(s: &str) -> String {
    format!("'{}'", s.replace('\'', "''"))
}

/// DDL + rows of the base image; fixed (independent of the seed) so that replay files are self-contained
pub fn db_setup() -> Vec<String> {
    let mut v: Vec<String> = vec![
        "CREATE TABLE t1 (id BIGINT PRIMARY KEY, a INT, b TEXT, c DOUBLE, d BOOLEAN, u INT UNIQUE, s SMALLINT, r REAL)".into(),
        "CREATE TABLE t2 (id INT PRIMARY KEY, t1_id BIGINT, name VARCHAR(40) NOT NULL, amount DECIMAL, qty INT DEFAULT 1, note TEXT)".into(),
        "CREATE TABLE t3 (id BIGINT PRIMARY KEY AUTO_INCREMENT, title TEXT, emb VECTOR(4))".into(),
        "CREATE TABLE t4 (id INT PRIMARY KEY, dt DATE, ts TIMESTAMP, tm TIME, j JSONB, uid UUID, bl BLOB)".into(),
        "CREATE TABLE t5 (k TEXT PRIMARY KEY, v INT CHECK (v >= 0))".into(),
        "CREATE TABLE \"ünï\" (\"ключ\" INT, \"值\" TEXT)".into(),
    ];
    let texts = ["", "a", "abc", "héllo wörld ✓", "O'Brien", "%_%", "  padded  ", "UPPER lower", "12", "-7.5e3", "2024-02-29", "[1,2,3,4]", "{\"k\": 1}", "日本語テキスト", "tab\there", "NULL"];
    for i in 0..60i64 {
        let id = match i {
            57 => 9223372036854775807,
            58 => -9223372036854775807,
            59 => 0,
            _ => i + 1,
        };
        let a = match i % 11 {
            0 => "NULL".to_string(),
            1 => "2147483647".to_string(),
            2 => "-2147483648".to_string(),
            _ => ((i * 37) % 23 - 5).to_string(),
        };
        let b = if i == 17 {
            sql_str(&"long-".repeat(260))
        } else if i % 13 == 5 {
            "NULL".to_string()
        } else {
            sql_str(texts[(i as usize) % texts.len()])
        };
        let c = match i % 9 {
            0 => "NULL".to_string(),
            1 => "1e308".to_string(),
            2 => "-1e308".to_string(),
            3 => "5e-324".to_string(),
            4 => "-0.0".to_string(),
            _ => format!("{}.{}", i * 3 - 40, i % 10),
        };
        let d = ["TRUE", "FALSE", "NULL"][(i % 3) as usize];
        let s = match i % 7 {
            0 => "32767".to_string(),
            1 => "-32768".to_string(),
            2 => "NULL".to_string(),
            _ => (i * 11 % 100).to_string(),
        };
        v.push(format!("INSERT INTO t1 (id, a, b, c, d, u, s, r) VALUES ({}, {}, {}, {}, {}, {}, {}, {})", id, a, b, c, d, i * 7 - 30, s, if i % 5 == 0 { "NULL".to_string() } else { format!("{}.25", i) }));
    }
    v.push("CREATE INDEX t1_a ON t1 (a)".into());
    v.push("CREATE INDEX t1_ab ON t1 (a, b)".into());
    for i in 0..40i64 {
        let amount = match i % 6 {
            0 => "NULL".to_string(),
            1 => "99999999999999.99".to_string(),
            2 => "-0.01".to_string(),
            _ => format!("{}.{:02}", i * 13, i),
        };
        let note = if i == 9 { sql_str(&"n".repeat(1500)) } else if i % 4 == 0 { "NULL".to_string() } else { sql_str(&format!("note {} {}", i, texts[(i as usize * 3) % texts.len()])) };
        v.push(format!("INSERT INTO t2 (id, t1_id, name, amount, qty, note) VALUES ({}, {}, {}, {}, {}, {})", i + 1, if i % 8 == 3 { "NULL".to_string() } else { ((i * 5) % 64).to_string() }, sql_str(&format!("name{}", i % 9)), amount, if i % 5 == 0 { "NULL".to_string() } else { (i % 4).to_string() }, note));
    }
    v.push("CREATE INDEX t2_fk ON t2 (t1_id)".into());
    for i in 0..30i64 {
        let emb = if i % 10 == 9 { "NULL".to_string() } else { format!("'[{}.5, {}, {}, 0.{}]'", i, -i, (i * i) % 7, i) };
        v.push(format!("INSERT INTO t3 (title, emb) VALUES ({}, {})", sql_str(&format!("doc {}", i)), emb));
    }
    v.push("CREATE INDEX t3_emb ON t3 USING HNSW (emb)".into());
    let dates = ["2024-02-29", "1970-01-01", "0001-01-01", "9999-12-31", "2000-12-31", "1999-07-04"];
    for i in 0..40i64 {
        let dt = if i % 7 == 6 { "NULL".to_string() } else { sql_str(dates[(i as usize) % dates.len()]) };
        let ts = if i % 9 == 8 { "NULL".to_string() } else { sql_str(&format!("{} {:02}:{:02}:{:02}", dates[(i as usize * 5) % dates.len()], i % 24, (i * 7) % 60, (i * 13) % 60)) };
        let tm = if i % 6 == 5 { "NULL".to_string() } else { sql_str(&format!("{:02}:{:02}:{:02}", (i * 5) % 24, (i * 11) % 60, (i * 17) % 60)) };
        let j = match i % 6 {
            0 => "NULL".to_string(),
            1 => sql_str("{\"a\": 1, \"b\": [1, 2, {\"c\": null}], \"s\": \"x\"}"),
            2 => sql_str("[]"),
            3 => sql_str("{\"n\": 1.5e10, \"t\": true, \"nested\": {\"k\": [\"v\", \"ü\"]}}"),
            4 => sql_str("\"just a string\""),
            _ => sql_str(&format!("{{\"id\": {}, \"tags\": [\"t{}\"]}}", i, i % 3)),
        };
        let uid = if i % 5 == 4 { "NULL".to_string() } else { sql_str(&format!("550e8400-e29b-41d4-a716-4466554400{:02}", i)) };
        let bl = match i % 4 {
            0 => "NULL".to_string(),
            1 => "x''".to_string(),
            2 => "x'00ff7f80'".to_string(),
            _ => format!("x'{}'", "ab".repeat((i as usize) + 1)),
        };
        v.push(format!("INSERT INTO t4 (id, dt, ts, tm, j, uid, bl) VALUES ({}, {}, {}, {}, {}, {}, {})", i + 1, dt, ts, tm, j, uid, bl));
    }
    for (i, k) in ["", "a", "b", "zz", "ключ", "k5", "k6", "k7"].iter().enumerate() {
        v.push(format!("INSERT INTO t5 (k, v) VALUES ({}, {})", sql_str(k), if i == 3 { "NULL".to_string() } else { (i * 10).to_string() }));
    }
    for i in 0..5 {
        v.push(format!("INSERT INTO \"ünï\" (\"ключ\", \"值\") VALUES ({}, {})", if i == 2 { "NULL".to_string() } else { i.to_string() }, sql_str(["", "值", "x", "ü", "long unicode ✓✓✓"][i])));
    }
    v
}

fn fresh_dir(p: &Path) {
    let _ = std::fs::remove_dir_all(p);
    let _ = std::fs::create_dir_all(p);
}

fn copy_dir(from: &Path, to: &Path) -> std::io::Result<()> {
    std::fs::create_dir_all(to)?;
    for e in std::fs::read_dir(from)? {
        let e = e?;
        let p = e.path();
        let t = to.join(e.file_name());
        if p.is_dir() {
            copy_dir(&p, &t)?;
        } else {
            std::fs::copy(&p, &t)?;
        }
    }
    Ok(())
}

fn base_dir(root: &Path, wal: bool) -> PathBuf {
    root.join(if wal { "base-wal" } else { "base-nowal" })
}

/// build one base image; returns (statements ok, statements failed (first few messages), panics)
fn create_db_base(root: &Path, wal: bool) -> Result<(usize, Vec<String>, Vec<(String, String, String)>), String> {
    let dir = base_dir(root, wal);
    let _ = std::fs::remove_dir_all(&dir);
    let db = match guard(|| Database::create(&dir)) {
        Ok(Ok(db)) => db,
        Ok(Err(e)) => return Err(format!("create: {:#}", e)),
        Err((site, msg)) => return Err(format!("create panicked at {}: {}", site, msg)),
    };
    let mut ok = 0;
    let mut failed = vec![];
    let mut panics = vec![];
    let mut stmts = vec![];
    if wal {
        stmts.push("PRAGMA wal = ON".to_string());
    }
    stmts.extend(db_setup());
    for s in &stmts {
        match guard(|| db.execute(s)) {
            Ok(Ok(_)) => ok += 1,
            Ok(Err(e)) => {
                if failed.len() < 12 {
                    failed.push(format!("{} => {:#}", s.chars().take(90).collect::<String>(), e));
                }
            }
            Err((site, msg)) => panics.push((s.clone(), site, msg)),
        }
    }
    match guard(|| db.close()) {
        Ok(_) => {}
        Err((site, msg)) => panics.push(("close()".into(), site, msg)),
    }
    let _ = guard(move || drop(db));
    Ok((ok, failed, panics))
}

// ------------------------------------------------------------------------------------------
// harvest of the repository's own test SQL (string literals of /repo/tests/*.rs that start with a
// SQL keyword), in file order so that a window of consecutive statements carries its own schema
// ------------------------------------------------------------------------------------------
const SQL_START: &[&str] = &["SELECT", "INSERT", "UPDATE", "DELETE", "CREATE", "DROP", "ALTER", "BEGIN", "COMMIT", "ROLLBACK", "PRAGMA", "EXPLAIN", "WITH", "TRUNCATE", "SAVEPOINT", "RELEASE", "SET", "MERGE", "CALL", "SHOW", "RESET", "GRANT", "REVOKE"];

fn looks_like_sql(s: &str) -> bool {
    let w = first_words(s, 1);
    let w0 = match w.first() {
        Some(w) => w.as_str(),
        None => return false,
    };
    if !s.trim_start().to_ascii_uppercase().starts_with(w0) || !SQL_START.contains(&w0) {
        return false;
    }
    // assertion messages of the tests ("UPDATE SHOULD succeed, got {:?}")
    !(s.contains("SHOULD") || s.contains("{:?}") || s.contains("should ") || s.contains("expected") || s.contains("failed"))
}

/// extract Rust string literals of one source file
fn rust_string_literals(src: &str) -> Vec<String> {
    let b = src.as_bytes();
    let mut out = vec![];
    let mut i = 0;
    while i < b.len() {
        match b[i] {
            b'/' if b.get(i + 1) == Some(&b'/') => {
                while i < b.len() && b[i] != b'\n' {
                    i += 1;
                }
            }
            b'/' if b.get(i + 1) == Some(&b'*') => {
                i += 2;
                while i + 1 < b.len() && !(b[i] == b'*' && b[i + 1] == b'/') {
                    i += 1;
                }
                i += 2;
            }
            b'\'' => {
                // char literal or lifetime: skip a char literal 'x' / '\n' / '\''
                if b.get(i + 1) == Some(&b'\\') {
                    i += 2;
                    while i < b.len() && b[i] != b'\'' {
                        i += 1;
                    }
                    i += 1;
                } else if b.get(i + 2) == Some(&b'\'') {
                    i += 3;
                } else {
                    i += 1;
                }
            }
            b'r' if (b.get(i + 1) == Some(&b'"') || b.get(i + 1) == Some(&b'#')) && (i == 0 || !(b[i - 1].is_ascii_alphanumeric() || b[i - 1] == b'_')) => {
                let mut j = i + 1;
                let mut hashes = 0;
                while j < b.len() && b[j] == b'#' {
                    hashes += 1;
                    j += 1;
                }
                if j < b.len() && b[j] == b'"' {
                    j += 1;
                    let st = j;
                    let mut end = None;
                    while j < b.len() {
                        if b[j] == b'"' && j + 1 + hashes <= b.len() && b[j + 1..j + 1 + hashes].iter().all(|c| *c == b'#') {
                            end = Some(j);
                            break;
                        }
                        j += 1;
                    }
                    match end {
                        Some(e) => {
                            out.push(String::from_utf8_lossy(&b[st..e]).to_string());
                            i = e + 1 + hashes;
                        }
                        None => i = b.len(),
                    }
                } else {
                    i += 1;
                }
            }
            b'"' => {
                i += 1;
                let mut s: Vec<u8> = vec![];
                while i < b.len() && b[i] != b'"' {
                    if b[i] == b'\\' && i + 1 < b.len() {
                        match b[i + 1] {
                            b'n' => s.push(b'\n'),
                            b't' => s.push(b'\t'),
                            b'r' => s.push(b'\r'),
                            b'0' => s.push(0),
                            b'\\' => s.push(b'\\'),
                            b'"' => s.push(b'"'),
                            b'\'' => s.push(b'\''),
                            b'\n' => {
                                // line continuation: skip following whitespace
                                i += 2;
                                while i < b.len() && (b[i] == b' ' || b[i] == b'\t' || b[i] == b'\n' || b[i] == b'\r') {
                                    i += 1;
                                }
                                continue;
                            }
                            other => {
                                s.push(b'\\');
                                s.push(other);
                            }
                        }
                        i += 2;
                    } else {
                        s.push(b[i]);
                        i += 1;
                    }
                }
                i += 1;
                out.push(String::from_utf8_lossy(&s).to_string());
            }
            _ => i += 1,
        }
    }
    out
}

pub struct Corpus {
    /// per file: statements in source order
    pub files: Vec<(String, Vec<String>)>,
    pub total: usize,
    pub distinct: usize,
}

pub fn harvest() -> Corpus {
    let mut files = vec![];
    let mut total = 0;
    let mut seen = HashSet::new();
    let mut names: Vec<PathBuf> = vec![];
    for dir in ["/repo/tests", "/repo/tests/queries"] {
        if let Ok(rd) = std::fs::read_dir(dir) {
            for e in rd.flatten() {
                names.push(e.path());
            }
        }
    }
    names.sort();
    for p in names {
        let ext = p.extension().and_then(|e| e.to_str()).unwrap_or("");
        let txt = match std::fs::read_to_string(&p) {
            Ok(t) => t,
            Err(_) => continue,
        };
        let mut v: Vec<String> = vec![];
        if ext == "rs" {
            for lit in rust_string_literals(&txt) {
                if lit.len() <= 4000 && looks_like_sql(&lit) {
                    v.push(lit);
                }
            }
        } else if ext == "sql" {
            for st in txt.split(';') {
                let st: String = st.lines().filter(|l| !l.trim_start().starts_with("--")).collect::<Vec<_>>().join(" ");
                if st.len() <= 4000 && looks_like_sql(&st) {
                    v.push(st.trim().to_string());
                }
            }
        }
        if !v.is_empty() {
            total += v.len();
            for s in &v {
                seen.insert(fnv(s.as_bytes()));
            }
            files.push((p.file_name().and_then(|n| n.to_str()).unwrap_or("").to_string(), v));
        }
    }
    Corpus { files, total, distinct: seen.len() }
}

// ------------------------------------------------------------------------------------------
// grammar generator
// ------------------------------------------------------------------------------------------
/// (name, typical argument classes; '*' = variadic tail) -- README tables first, then the names only the code knows
pub const FUNCS: &[(&str, &str)] = &[
    ("UPPER", "t"), ("UCASE", "t"), ("LOWER", "t"), ("LCASE", "t"), ("LENGTH", "t"), ("LEN", "t"), ("CHAR_LENGTH", "t"), ("SUBSTR", "tii"), ("LEFT", "ti"), ("RIGHT", "ti"),
    ("CONCAT", "tt*"), ("CONCAT_WS", "ttt*"), ("TRIM", "t"), ("LTRIM", "t"), ("RTRIM", "t"), ("LPAD", "tit"), ("RPAD", "tit"), ("REPLACE", "ttt"), ("REVERSE", "t"), ("REPEAT", "ti"),
    ("INSTR", "tt"), ("LOCATE", "tt"), ("ASCII", "t"), ("STRCMP", "tt"),
    ("ABS", "n"), ("ROUND", "ni"), ("CEIL", "n"), ("CEILING", "n"), ("FLOOR", "n"), ("TRUNCATE", "ni"), ("MOD", "nn"), ("SQRT", "n"), ("POW", "nn"), ("POWER", "nn"), ("EXP", "n"), ("LOG", "n"), ("LN", "n"),
    ("LOG10", "n"), ("LOG2", "n"), ("SIN", "n"), ("COS", "n"), ("TAN", "n"), ("ASIN", "n"), ("ACOS", "n"), ("ATAN", "n"), ("DEGREES", "n"), ("RADIANS", "n"), ("PI", ""), ("RAND", ""), ("SIGN", "n"),
    ("GREATEST", "nn*"), ("LEAST", "nn*"),
    ("NOW", ""), ("CURRENT_TIMESTAMP", ""), ("CURDATE", ""), ("CURRENT_DATE", ""), ("CURTIME", ""), ("CURRENT_TIME", ""), ("DATE", "s"), ("TIME", "s"), ("YEAR", "d"), ("MONTH", "d"), ("DAY", "d"), ("HOUR", "m"),
    ("MINUTE", "m"), ("SECOND", "m"), ("DAYNAME", "d"), ("MONTHNAME", "d"), ("DAYOFWEEK", "d"), ("DAYOFYEAR", "d"), ("QUARTER", "d"), ("WEEK", "d"), ("DATE_ADD", "di"), ("DATE_SUB", "di"),
    ("DATEDIFF", "dd"), ("LAST_DAY", "d"), ("DATE_FORMAT", "dt"),
    ("IF", "bxx"), ("IFNULL", "xx"), ("NULLIF", "xx"), ("COALESCE", "xx*"), ("VERSION", ""), ("DATABASE", ""), ("TYPEOF", "x"),
    // not in the README
    ("CHARACTER_LENGTH", "t"), ("OCTET_LENGTH", "t"), ("SUBSTRING", "tii"), ("MID", "tii"), ("SUBSTRING_INDEX", "tti"), ("POSITION", "tt"), ("FIELD", "ttt*"), ("FIND_IN_SET", "tt"), ("SPACE", "i"),
    ("INSERT", "tiit"), ("FORMAT", "ni"), ("BIN", "i"), ("CONV", "tii"), ("DIV", "nn"), ("TRUNC", "ni"), ("ATAN2", "nn"), ("COT", "n"), ("RANDOM", ""),
    ("LOCALTIME", ""), ("LOCALTIMESTAMP", ""), ("SYSDATE", ""), ("DAYOFMONTH", "d"), ("MICROSECOND", "m"), ("WEEKDAY", "d"), ("WEEKOFYEAR", "d"), ("YEARWEEK", "d"), ("ADDDATE", "di"), ("SUBDATE", "di"),
    ("ADDTIME", "mm"), ("SUBTIME", "mm"), ("TIMEDIFF", "mm"), ("TO_DAYS", "d"), ("FROM_DAYS", "i"), ("TIME_TO_SEC", "m"), ("SEC_TO_TIME", "i"), ("MAKEDATE", "ii"), ("MAKETIME", "iii"), ("TIMESTAMP", "s"),
    ("PERIOD_ADD", "ii"), ("PERIOD_DIFF", "ii"), ("STRFTIME", "dt"), ("TIME_FORMAT", "mt"), ("STR_TO_DATE", "tt"), ("IIF", "bxx"), ("NVL", "xx"), ("ISNULL", "x"), ("USER", ""), ("CURRENT_USER", ""),
    ("CONNECTION_ID", ""), ("LAST_INSERT_ID", ""), ("CURRENT_DATABASE", ""),
    ("COUNT", "x"), ("SUM", "n"), ("AVG", "n"), ("MIN", "x"), ("MAX", "x"),
];
/// functions whose result size is an argument: counts stay <= 300 or are unsatisfiable (>= 2^40), so that
/// an allocation failure can never be the legitimate cost of a satisfiable request
const SIZE_FUNCS: &[&str] = &["REPEAT", "LPAD", "RPAD", "SPACE", "FORMAT", "ROUND", "TRUNCATE", "TRUNC", "BIN", "CONV", "MAKEDATE", "SEC_TO_TIME", "FROM_DAYS"];
const AGGS: &[&str] = &["COUNT", "SUM", "AVG", "MIN", "MAX"];
const WINFUNCS: &[&str] = &["ROW_NUMBER", "RANK", "DENSE_RANK", "NTILE", "LAG", "LEAD", "FIRST_VALUE", "LAST_VALUE", "NTH_VALUE", "PERCENT_RANK", "CUME_DIST", "SUM", "AVG", "COUNT", "MIN", "MAX"];
const BINOPS: &[&str] = &["+", "-", "*", "/", "%", "^", "||", "=", "<>", "!=", "<", "<=", ">", ">=", "AND", "OR", "&", "|", "<<", ">>", "->", "->>", "#>", "#>>", "@>", "<@", "&&", "<->", "<#>", "<=>", "+", "-", "*", "/", "=", "<", "AND", "OR"];
const TYPES: &[&str] = &[
    "INTEGER", "INT", "BIGINT", "SMALLINT", "TINYINT", "SERIAL", "BIGSERIAL", "SMALLSERIAL", "REAL", "FLOAT", "DOUBLE", "DOUBLE PRECISION", "DECIMAL", "DECIMAL(10,2)", "DECIMAL(0,0)", "DECIMAL(4294967295, 4294967295)",
    "NUMERIC(5)", "VARCHAR", "VARCHAR(10)", "VARCHAR(0)", "VARCHAR(4294967295)", "CHARACTER VARYING(5)", "CHAR", "CHAR(3)", "TEXT", "BLOB", "BOOLEAN", "BOOL", "DATE", "DATETIME", "TIME", "TIMESTAMP", "TIMESTAMP WITH TIME ZONE",
    "TIMESTAMP WITHOUT TIME ZONE", "TIMESTAMPTZ", "INTERVAL", "UUID", "JSON", "JSONB", "VECTOR", "VECTOR(3)", "VECTOR(0)", "VECTOR(4)", "VECTOR(100000)", "VECTOR(4294967295)", "POINT", "BOX", "CIRCLE", "MACADDR", "INET", "INT4RANGE",
    "INT8RANGE", "DATERANGE", "TSRANGE", "INT[]", "TEXT[]", "INT[][]", "mood", "INT2", "INT4", "INT8", "FLOAT4", "FLOAT8",
];
const INT_LITS: &[&str] = &[
    "0", "1", "2", "3", "7", "10", "42", "100", "255", "256", "1000", "32767", "32768", "65535", "65536", "2147483647", "2147483648", "4294967295", "4294967296", "9223372036854775807", "9223372036854775808",
    "18446744073709551615", "18446744073709551616", "1234567890123456789012345678901234567890", "00",
];
/// lexically odd numbers (only at chaos > 0)
const NUM_ODD: &[&str] = &["0x7fffffffffffffff", "0xffffffffffffffff", "0x1ffffffffffffffff", "0x", "0b101", "0b", "0o17", "0o8", "1_000", "5.", "1e", "1e+", "0.1e-", "1.2.3", ".5", "0x1p3", "1e309", "1e999", "1e-999"];
const FLOAT_LITS: &[&str] = &["0.0", "1.5", "0.1", "0.5", "1e0", "1e10", "1e308", "1e-324", "4.9e-324", "1.7976931348623157e308", "2.5E+3", "3.14159265358979323846264338327950288", "9007199254740993.0", "1e19", "9223372036854775807.0", "1e309", "1e-999"];
const STR_LITS: &[&str] = &[
    "''", "'a'", "'abc'", "'héllo ✓'", "'O''Brien'", "'%'", "'_'", "'%a_'", "'\\'", "' '", "'12'", "'-7'", "'1e5'", "'NaN'", "'inf'", "'-inf'", "'true'", "'2024-02-29'", "'2023-02-29'", "'0000-00-00'", "'9999-12-31'", "'10000-01-01'",
    "'-0001-01-01'", "'2024-13-45'", "'12:34:56'", "'25:61:61'", "'23:59:59.999999'", "'2024-02-29 12:34:56'", "'2024-02-29T12:34:56Z'", "'2024-02-29 12:34:56+25:00'", "'[1,2,3,4]'", "'[1,2]'", "'[]'", "'[1e39,NaN,inf,-0]'",
    "'[1,,2]'", "'{\"a\": 1}'", "'{\"a\": [1, {\"b\": null}]}'", "'{'", "'[[[[[[[[[[[[[[[[[[[[[[[[[[[[[[[[[[[[[[[['", "'550e8400-e29b-41d4-a716-446655440000'", "'550e8400'", "'192.168.0.1'", "'::1'", "'08:00:2b:01:02:03'", "'(1,2)'",
    "'((0,0),(1,1))'", "'<(0,0),1>'", "'[1,10)'", "'P1Y2M3DT4H'", "'1 day'", "'日本語'", "'\u{0}'", "'\u{feff}'", "'a\nb'", "x'00ff'", "x''", "X'ABCDEF'", "x'abc'", "'$.a.b[0]'", "'{a,b}'", "'a,b,c'", "'%Y-%m-%d %H:%i:%s %W %M %j %%'", "'%'",
];

pub struct G<'r> {
    pub r: &'r mut Rng,
    /// remaining row-combination budget of the statement (product of the cardinalities of all table references)
    pub budget: u64,
    /// expression depth left
    pub depth: u32,
    /// emit placeholders
    pub params: bool,
    pub nparams: u32,
    /// nesting level of size-producing functions
    pub size_level: u32,
    /// columns in scope: (qualifier, table index)
    pub scope: Vec<(String, usize)>,
    /// 0 = only well-formed constructs (types may still be mixed), 1 = some malformed pieces, 2 = many
    pub chaos: u64,
}

macro_rules! pick {
    ($g:expr, $($x:expr),+ $(,)?) => {{
        let v = [$($x),+];
        v[$g.r.below(v.len() as u64) as usize]
    }};
}

impl<'r> G<'r> {
    pub fn new(r: &'r mut Rng) -> G<'r> {
        let chaos = match r.below(10) {
            0..=5 => 0,
            6..=8 => 1,
            _ => 3,
        };
        G { r, budget: 50_000, depth: 4, params: false, nparams: 0, size_level: 0, scope: vec![], chaos }
    }
    /// malformed / unknown-name pieces: never at chaos 0
    fn odd(&mut self, pct: u64) -> bool {
        self.chaos > 0 && self.r.below(100) < pct * self.chaos
    }
    fn ch(&mut self, pct: u64) -> bool {
        self.r.below(100) < pct
    }
    fn p<'a>(&mut self, xs: &'a [&'a str]) -> &'a str {
        xs[self.r.below(xs.len() as u64) as usize]
    }
    fn int_lit(&mut self) -> String {
        let s = if self.ch(55) { self.r.range(-3, 12).to_string() } else if self.odd(12) { self.p(NUM_ODD).to_string() } else { self.p(INT_LITS).to_string() };
        if self.ch(12) {
            format!("-{}", s)
        } else {
            s
        }
    }
    /// count argument of a size-producing function (see SIZE_FUNCS)
    fn size_count(&mut self) -> String {
        let lim: i64 = match self.size_level {
            0 | 1 => 300,
            2 => 10,
            _ => 3,
        };
        match self.r.below(10) {
            0 => pick!(self, "1099511627776", "9223372036854775807", "4611686018427387904", "18446744073709551616", "-9223372036854775808", "1e300").to_string(),
            1 => pick!(self, "-1", "0", "NULL", "'3'", "2.5", "-0.0").to_string(),
            _ => self.r.range(0, lim).to_string(),
        }
    }
    fn str_lit(&mut self) -> String {
        // one in four string literals is multi-byte text: positions, lengths and pads computed in bytes
        // instead of characters only show on such input
        if self.r.below(4) == 0 {
            return pick!(self, "'héllo wörld ✓'", "'日本語テキスト'", "'äbc'", "'😀é😀'", "'ñ'", "'aé'", "'ßß'").to_string();
        }
        self.p(STR_LITS).to_string()
    }
    fn literal(&mut self) -> String {
        match self.r.below(20) {
            0..=6 => self.int_lit(),
            7..=9 => {
                let s = self.p(FLOAT_LITS).to_string();
                if self.ch(15) {
                    format!("-{}", s)
                } else {
                    s
                }
            }
            10..=15 => self.str_lit(),
            16 => "NULL".into(),
            17 => pick!(self, "TRUE", "FALSE", "true", "False").into(),
            18 => {
                if self.odd(30) {
                    "DEFAULT".into()
                } else {
                    pick!(self, "CURRENT_DATE", "CURRENT_TIMESTAMP", "CURRENT_TIME").into()
                }
            }
            _ => {
                if self.params || self.odd(20) {
                    self.placeholder()
                } else {
                    self.int_lit()
                }
            }
        }
    }
    fn placeholder(&mut self) -> String {
        self.nparams += 1;
        match self.r.below(12) {
            0 => format!("${}", self.nparams),
            1 => pick!(self, "$0", "$4294967295", "$4294967296", "$99999999999999999999", ":p", "@p", ":1", "?1", "?0", "$", ":", "@").to_string(),
            _ => "?".into(),
        }
    }
    fn any_table(&mut self) -> usize {
        self.r.below(TABS.len() as u64) as usize
    }
    /// a table whose cardinality fits the remaining budget (falls back to the smallest)
    fn table_in_budget(&mut self) -> usize {
        let fits: Vec<usize> = (0..TABS.len()).filter(|i| TABS[*i].rows <= self.budget).collect();
        let t = if fits.is_empty() { 5 } else { fits[self.r.below(fits.len() as u64) as usize] };
        self.budget = (self.budget / TABS[t].rows.max(1)).max(1);
        t
    }
    fn col_of(&mut self, t: usize, class: Option<char>) -> &'static str {
        let cols = TABS[t].cols;
        if let Some(c) = class {
            let m: Vec<&(&str, char)> = cols.iter().filter(|x| x.1 == c).collect();
            if !m.is_empty() && self.ch(85) {
                return m[self.r.below(m.len() as u64) as usize].0;
            }
        }
        cols[self.r.below(cols.len() as u64) as usize].0
    }
    fn column(&mut self, class: Option<char>) -> String {
        if self.scope.is_empty() || self.odd(3) {
            if self.chaos == 0 {
                return pick!(self, "id", "a", "nosuch", "t1.id").to_string();
            }
            return pick!(self, "nosuch", "t1.nosuch", "nosuch.id", "a.b.c.d", "id", "\"\"", "\"id\"", "`a`", "rowid", "x.*").to_string();
        }
        let k = self.r.below(self.scope.len() as u64) as usize;
        let (q, t) = self.scope[k].clone();
        let c = self.col_of(t, class);
        if self.ch(60) {
            format!("{}.{}", q, c)
        } else {
            c.to_string()
        }
    }
    /// argument of a given class: i int, n numeric, f float, t text, d date, s timestamp, m time, b bool, x any
    fn arg(&mut self, class: char) -> String {
        if self.depth == 0 || self.ch(55) {
            let wrong = self.ch(18);
            let class = if wrong { pick!(self, 'i', 'f', 't', 'd', 'm', 'b', 'x', 'j', 'v') } else { class };
            if self.ch(35) && !self.scope.is_empty() {
                let c = match class {
                    'n' => Some(pick!(self, 'i', 'f', 'n')),
                    'x' => None,
                    c => Some(c),
                };
                return self.column(c);
            }
            return match class {
                'i' => self.int_lit(),
                'n' | 'f' => {
                    if self.ch(50) {
                        self.int_lit()
                    } else {
                        self.p(FLOAT_LITS).to_string()
                    }
                }
                't' => self.str_lit(),
                'd' => pick!(self, "'2024-02-29'", "'2023-02-29'", "'0001-01-01'", "'9999-12-31'", "'0000-00-00'", "'10000-01-01'", "'2024-13-45'", "CURRENT_DATE", "'1970-01-01'", "'-0001-01-01'", "20240229", "'24-2-9'").to_string(),
                's' => pick!(self, "'2024-02-29 12:34:56'", "'9999-12-31 23:59:59'", "'0001-01-01 00:00:00'", "'2024-02-29T12:34:56Z'", "CURRENT_TIMESTAMP", "'2024-02-29 25:00:00'", "0", "9223372036854775807").to_string(),
                'm' => pick!(self, "'12:34:56'", "'00:00:00'", "'23:59:59.999999'", "'25:61:61'", "'838:59:59'", "'-12:00:00'", "CURRENT_TIME", "'12:34'", "123456").to_string(),
                'b' => pick!(self, "TRUE", "FALSE", "NULL", "1", "0", "1 = 1", "'x'").to_string(),
                'j' => pick!(self, "'{\"a\": 1}'", "'[1,2]'", "'{'", "'null'").to_string(),
                'v' => pick!(self, "'[1,2,3,4]'", "'[1,2]'", "'[]'", "'[1e39,NaN,inf,-0]'").to_string(),
                _ => self.literal(),
            };
        }
        self.expr()
    }
    fn call(&mut self, name: &str, sig: &str) -> String {
        let is_size = SIZE_FUNCS.contains(&name);
        if is_size {
            self.size_level += 1;
        }
        let mut classes: Vec<char> = sig.chars().filter(|c| *c != '*').collect();
        if sig.ends_with('*') {
            let last = *classes.last().unwrap_or(&'x');
            for _ in 0..self.r.below(4) {
                classes.push(last);
            }
        }
        // arity errors
        match if self.chaos > 0 { self.r.below(12) } else { 99 } {
            0 => {
                classes.pop();
            }
            1 => classes.push('x'),
            2 => classes.clear(),
            3 => {
                for _ in 0..self.r.below(9) {
                    classes.push('x');
                }
            }
            _ => {}
        }
        let mut args = vec![];
        for (k, c) in classes.iter().enumerate() {
            // the count/precision arguments of size-producing functions are never in the ambiguous band
            let a = if is_size && *c != 't' && (k > 0 || !sig.starts_with('t')) { self.size_count() } else { self.arg(*c) };
            args.push(a);
        }
        if is_size {
            self.size_level -= 1;
        }
        let distinct = if AGGS.contains(&name) && self.ch(20) { "DISTINCT " } else { "" };
        if AGGS.contains(&name) && self.ch(15) {
            return format!("{}(*)", name);
        }
        let n = if self.ch(10) { name.to_ascii_lowercase() } else { name.to_string() };
        format!("{}({}{})", n, distinct, args.join(", "))
    }
    fn func(&mut self) -> String {
        let (n, s) = FUNCS[self.r.below(FUNCS.len() as u64) as usize];
        self.call(n, s)
    }
    fn window(&mut self) -> String {
        let f = self.p(WINFUNCS);
        let args = match f {
            "ROW_NUMBER" | "RANK" | "DENSE_RANK" | "PERCENT_RANK" | "CUME_DIST" => {
                if self.ch(8) {
                    self.arg('x')
                } else {
                    String::new()
                }
            }
            "NTILE" => pick!(self, "4", "0", "-1", "9223372036854775807", "NULL", "1.5", "'a'").to_string(),
            "LAG" | "LEAD" => {
                let c = self.arg('x');
                match self.r.below(4) {
                    0 => c,
                    1 => format!("{}, {}", c, pick!(self, "1", "0", "-1", "9223372036854775807", "NULL", "2147483648")),
                    _ => format!("{}, {}, {}", c, pick!(self, "1", "2", "-9223372036854775808", "100"), self.literal()),
                }
            }
            "NTH_VALUE" => format!("{}, {}", self.arg('x'), pick!(self, "1", "0", "-1", "99999999999")),
            "COUNT" if self.ch(40) => "*".to_string(),
            _ => self.arg('n'),
        };
        let mut spec = vec![];
        if self.ch(55) {
            let n = 1 + self.r.below(2);
            let e: Vec<String> = (0..n).map(|_| self.arg('x')).collect();
            spec.push(format!("PARTITION BY {}", e.join(", ")));
        }
        if self.ch(70) {
            spec.push(format!("ORDER BY {}", self.order_list()));
        }
        if self.ch(30) {
            let mode = if self.odd(10) { "GROUPS" } else { pick!(self, "ROWS", "ROWS", "RANGE") };
            let b = |g: &mut G| -> String {
                match g.r.below(7) {
                    0 => "CURRENT ROW".to_string(),
                    1 => "UNBOUNDED PRECEDING".to_string(),
                    2 => "UNBOUNDED FOLLOWING".to_string(),
                    3 => format!("{} PRECEDING", if g.odd(15) { pick!(g, "18446744073709551616", "-1", "1.5") } else { pick!(g, "1", "0", "2", "18446744073709551615") }),
                    _ => format!("{} FOLLOWING", pick!(g, "1", "0", "3", "9223372036854775807", "18446744073709551615")),
                }
            };
            if self.ch(70) {
                let (x, y) = (b(self), b(self));
                spec.push(format!("{} BETWEEN {} AND {}", mode, x, y));
            } else {
                let x = b(self);
                spec.push(format!("{} {}", mode, x));
            }
        }
        let filter = if self.ch(6) { format!(" FILTER (WHERE {})", self.arg('b')) } else { String::new() };
        format!("{}({}){} OVER ({})", f, args, filter, spec.join(" "))
    }
    fn order_list(&mut self) -> String {
        let n = 1 + self.r.below(3);
        let mut v = vec![];
        for _ in 0..n {
            let e = if self.ch(20) { pick!(self, "1", "2", "0", "-1", "99", "9223372036854775808", "1.5", "NULL", "'a'").to_string() } else { self.arg('x') };
            let d = pick!(self, "", "", " ASC", " DESC");
            let nl = pick!(self, "", "", "", " NULLS FIRST", " NULLS LAST");
            v.push(format!("{}{}{}", e, d, nl));
        }
        v.join(", ")
    }
    pub fn expr(&mut self) -> String {
        if self.depth == 0 {
            return if self.ch(50) && !self.scope.is_empty() { self.column(None) } else { self.literal() };
        }
        self.depth -= 1;
        let out = match self.r.below(100) {
            0..=13 => self.literal(),
            14..=33 => self.column(None),
            34..=51 => {
                let op = if self.odd(5) { "#" } else { self.p(BINOPS) };
                let (l, r) = (self.expr(), self.expr());
                format!("{} {} {}", l, op, r)
            }
            52..=55 => {
                let op = pick!(self, "-", "+", "NOT ", "~", "- ", "NOT NOT ");
                format!("{}{}", op, self.expr())
            }
            56..=66 => self.func(),
            67..=69 => {
                let n = 1 + self.r.below(3);
                let mut s = String::from("CASE");
                if self.ch(35) {
                    s.push_str(&format!(" {}", self.expr()));
                }
                for _ in 0..n {
                    let (c, r) = (self.expr(), self.expr());
                    s.push_str(&format!(" WHEN {} THEN {}", c, r));
                }
                if self.ch(60) {
                    s.push_str(&format!(" ELSE {}", self.expr()));
                }
                s.push_str(" END");
                s
            }
            70..=73 => {
                let ty = self.p(TYPES);
                let e = self.expr();
                if self.ch(80) {
                    format!("CAST({} AS {})", e, ty)
                } else {
                    format!("({})::{}", e, ty)
                }
            }
            74..=76 => {
                let (e, l, h) = (self.expr(), self.expr(), self.expr());
                format!("{} {}BETWEEN {} AND {}", e, pick!(self, "", "NOT "), l, h)
            }
            77..=79 => {
                let e = self.expr();
                let n = if self.chaos > 0 { self.r.below(5) } else { 1 + self.r.below(4) };
                let l: Vec<String> = (0..n).map(|_| self.expr()).collect();
                format!("{} {}IN ({})", e, pick!(self, "", "NOT "), l.join(", "))
            }
            80..=81 => {
                let (e, p) = (self.arg('t'), self.arg('t'));
                let esc = if self.ch(20) { format!(" ESCAPE {}", if self.odd(30) { pick!(self, "''", "'ab'", "NULL", "1") } else { pick!(self, "'!'", "'\\'", "'%'", "'#'") }) } else { String::new() };
                format!("{} {}{} {}{}", e, pick!(self, "", "NOT "), pick!(self, "LIKE", "ILIKE"), p, esc)
            }
            82..=84 => {
                let e = self.expr();
                match self.r.below(4) {
                    0 => format!("{} IS NULL", e),
                    1 => format!("{} IS NOT NULL", e),
                    2 => format!("{} IS DISTINCT FROM {}", e, self.expr()),
                    _ => format!("{} IS NOT DISTINCT FROM {}", e, self.expr()),
                }
            }
            85..=88 => {
                if self.budget >= 5 {
                    let saved = self.scope.clone();
                    let q = self.select(false);
                    self.scope = saved;
                    match self.r.below(5) {
                        0 => format!("{}EXISTS ({})", pick!(self, "", "NOT "), q),
                        1 => format!("{} {}IN ({})", self.expr(), pick!(self, "", "NOT "), q),
                        2 if self.chaos > 0 => format!("{} {} {} ({})", self.expr(), pick!(self, "=", "<", ">="), pick!(self, "ANY", "ALL", "SOME"), q),
                        _ => format!("({})", q),
                    }
                } else {
                    self.literal()
                }
            }
            89..=90 => format!("({})", self.expr()),
            91..=92 => {
                let f = self.p(AGGS);
                let e = self.arg('n');
                let filt = if self.ch(15) { format!(" FILTER (WHERE {})", self.arg('b')) } else { String::new() };
                format!("{}({}{}){}", f, if self.odd(20) { "ALL " } else { pick!(self, "", "", "DISTINCT ") }, e, filt)
            }
            93..=94 => self.window(),
            95 => {
                let n = self.r.below(4);
                let l: Vec<String> = (0..n).map(|_| self.expr()).collect();
                match self.r.below(4) {
                    0 => format!("ARRAY[{}]", l.join(", ")),
                    1 => format!("ROW({})", l.join(", ")),
                    2 => format!("({})[{}]", self.expr(), if self.odd(30) { pick!(self, ":", "1:", ":2", "") } else { pick!(self, "1", "0", "-1", "9223372036854775807", "1:2") }),
                    _ => format!("({}, {})", self.expr(), self.literal()),
                }
            }
            96 if self.params || self.chaos > 0 => self.placeholder(),
            _ if self.chaos == 0 => self.func(),
            _ => pick!(self, "nosuchfn(1)", "t1.*", "*", "COUNT(*) OVER ()", "id", "a", "s.nosuch(1, 2)", "\"ünï\".\"值\"", "1 = ", "()", "(SELECT)", "DEFAULT", "NULL IS NULL IS NULL", "- - - 1", "1 AND", "a -> ", "emb <-> emb").to_string(),
        };
        self.depth += 1;
        out
    }
}

const PRAGMAS: &[&str] = &["wal", "wal_autoflush", "synchronous", "join_memory_budget", "memory_budget", "memory_stats", "persisted_memory_stats", "wal_checkpoint", "wal_checkpoint_stats", "wal_checkpoint_threshold", "wal_frame_count", "wal_size", "database_mode", "recover_wal", "foreign_keys", "nosuch", "WAL", "Wal_Size"];
const PRAGMA_VALUES: &[&str] = &["ON", "OFF", "on", "TRUE", "FALSE", "0", "1", "2", "3", "-1", "NORMAL", "FULL", "65536", "18446744073709551615", "18446744073709551616", "4294967295", "4294967296", "99999999999999999999999999", "1.5", "1e3", "''", "'ON'", "NULL", "x", "\"ON\"", "-", "(1)", "ß"];

impl<'r> G<'r> {
    fn alias(&mut self) -> String {
if self.odd(10) { pick!(self, "t1", "select", "\"al ias\"", "ü", "\"\"").to_string() } else { pick!(self, "x", "y", "z", "a1", "q", "tt").to_string() }
    }
    fn table_ref(&mut self) -> String {
        // (FROM item, pushes its columns into scope)
        let t = self.table_in_budget();
        let name = TABS[t].name;
        let name_s = if self.ch(6) { format!("root.{}", name) } else if self.odd(3) { pick!(self, "nosuch", "turdb_catalog.tables", "nosuch.t1", "sys.memory_stats").to_string() } else { name.to_string() };
        if self.ch(55) {
            let a = { let b = self.alias(); if b.ends_with('"') { b } else { format!("{}{}", b, self.scope.len()) } };
            self.scope.push((a.clone(), t));
            format!("{}{}{}", name_s, pick!(self, " ", " AS "), a)
        } else {
            self.scope.push((name.to_string(), t));
            name_s
        }
    }
    fn from_item(&mut self) -> String {
        if self.depth > 1 && self.budget >= 40 && self.ch(14) {
            // derived table; its columns are unknown to the scope tracker -> refer to them rarely
            let saved = self.scope.clone();
            self.depth -= 1;
            let q = self.select(false);
            self.depth += 1;
            self.scope = saved;
            let a = format!("d{}", self.scope.len());
            return format!("{}({}) AS {}", pick!(self, "", "", "LATERAL "), q, a);
        }
        self.table_ref()
    }
    fn from_clause(&mut self) -> String {
        let mut s = self.from_item();
        let joins = match self.r.below(10) {
            0..=4 => 0,
            5..=7 => 1,
            _ => 2,
        };
        for _ in 0..joins {
            let jt = pick!(self, "JOIN", "INNER JOIN", "LEFT JOIN", "LEFT OUTER JOIN", "RIGHT JOIN", "FULL OUTER JOIN", "FULL JOIN", "CROSS JOIN", ",", "NATURAL JOIN", "NATURAL LEFT JOIN", "JOIN");
            let right = self.from_item();
            let cond = if jt == "CROSS JOIN" || jt == "," || jt.starts_with("NATURAL") {
                if self.odd(5) {
                    format!(" ON {}", self.arg('b'))
                } else {
                    String::new()
                }
            } else {
                match self.r.below(10) {
                    0 => format!(" USING ({})", if self.odd(30) { pick!(self, "nosuch", "", "id, id") } else { pick!(self, "id", "id", "id, a") }),
                    1 if self.chaos > 0 => String::new(),
                    2..=6 if self.scope.len() >= 2 => {
                        let n = self.scope.len();
                        let (l, r) = (self.scope[n - 2].clone(), self.scope[n - 1].clone());
                        let (lc, rc) = (self.col_of(l.1, Some('i')), self.col_of(r.1, Some('i')));
                        format!(" ON {}.{} {} {}.{}", l.0, lc, pick!(self, "=", "=", "=", "<", "<>"), r.0, rc)
                    }
                    _ => format!(" ON {}", self.expr()),
                }
            };
            s = format!("{} {} {}{}", s, jt, right, cond);
        }
        s
    }
    fn limit_val(&mut self) -> String {
        match self.r.below(10) {
            0..=5 => self.r.below(12).to_string(),
            6 => {
                if self.odd(40) {
                    pick!(self, "-1", "9223372036854775808", "18446744073709551616", "1.5", "NULL", "'1'", "ALL", "1e3").to_string()
                } else {
                    pick!(self, "0", "1", "9223372036854775807", "18446744073709551615", "4294967296", "2147483648").to_string()
                }
            }
            7 => {
                if self.params {
                    self.placeholder()
                } else {
                    "1 + 1".into()
                }
            }
            _ => {
                let d = self.depth;
                self.depth = self.depth.min(1);
                let saved = std::mem::take(&mut self.scope);
                let e = self.expr();
                self.scope = saved;
                self.depth = d;
                e
            }
        }
    }
    /// one SELECT block (top = may carry set operations / WITH / FOR)
    pub fn select(&mut self, top: bool) -> String {
        let mut s = String::new();
        let mut ctes: Vec<String> = vec![];
        if top && self.ch(12) {
            let n = 1 + self.r.below(2);
            for k in 0..n {
                let saved = self.scope.clone();
                self.depth = self.depth.saturating_sub(1);
                let q = self.select(false);
                self.depth += 1;
                self.scope = saved;
                let cols = if self.odd(15) { pick!(self, "(c1)", "(c1, c2)", "()", "(c1, c1)") } else { "" };
                ctes.push(format!("cte{}{} AS ({})", k, cols, q));
            }
            s.push_str(&format!("WITH {}{} ", pick!(self, "", "", "RECURSIVE "), ctes.join(", ")));
        }
        let scope_mark = self.scope.len();
        // FROM first (so the select list can name columns), rendered later
        let from = if self.ch(88) {
            if !ctes.is_empty() && self.ch(60) {
                Some(format!("cte0{}", pick!(self, "", " AS c", " JOIN cte0 AS c2 ON 1 = 1")))
            } else {
                Some(self.from_clause())
            }
        } else {
            None
        };
        s.push_str("SELECT ");
        match self.r.below(12) {
            0 | 1 => s.push_str("DISTINCT "),
            2 => s.push_str(&format!("DISTINCT ON ({}) ", self.arg('x'))),
            3 => s.push_str("ALL "),
            _ => {}
        }
        let grouped = self.ch(22);
        let ncols = 1 + self.r.below(3);
        let mut cols = vec![];
        for _ in 0..ncols {
            let c = match self.r.below(14) {
                0 | 1 => "*".to_string(),
                2 => {
                    if self.scope.len() > scope_mark {
                        format!("{}.*", self.scope[scope_mark].0)
                    } else {
                        "nosuch.*".into()
                    }
                }
                3 | 4 if grouped => {
                    let f = self.p(AGGS);
                    format!("{}({})", f, if f == "COUNT" && self.ch(50) { "*".to_string() } else { self.arg('n') })
                }
                5 => self.window(),
                _ => {
                    let e = self.expr();
                    if self.ch(25) {
                        format!("{} AS {}", e, if self.odd(15) { pick!(self, "select", "ü", "\"\"", "1") } else { pick!(self, "c1", "c2", "x", "\"a b\"", "id") })
                    } else if self.ch(5) {
                        format!("{} {}", e, pick!(self, "c1", "zz"))
                    } else {
                        e
                    }
                }
            };
            cols.push(c);
        }
        s.push_str(&cols.join(", "));
        if let Some(f) = from {
            s.push_str(" FROM ");
            s.push_str(&f);
        }
        if self.ch(55) {
            s.push_str(&format!(" WHERE {}", self.expr()));
        }
        if grouped {
            let n = 1 + self.r.below(2);
            let g: Vec<String> = (0..n).map(|_| if self.ch(15) { pick!(self, "1", "2", "0", "99", "-1").to_string() } else { self.arg('x') }).collect();
            s.push_str(&format!(" GROUP BY {}", g.join(", ")));
            if self.ch(40) {
                let f = self.p(AGGS);
                s.push_str(&format!(" HAVING {}({}) {} {}", f, if f == "COUNT" { "*".to_string() } else { self.arg('n') }, pick!(self, ">", "=", "<=", "<>"), self.literal()));
            }
        } else if self.odd(4) {
            s.push_str(&format!(" HAVING {}", self.expr()));
        }
        if top && self.ch(25) {
            // set operations; the operands get their own scope
            let n = 1 + self.r.below(2);
            for _ in 0..n {
                let saved = self.scope.clone();
                self.depth = self.depth.saturating_sub(1);
                let q = self.select(false);
                self.depth += 1;
                self.scope = saved;
                let q = if self.odd(15) { format!("({})", q) } else { q };
                s.push_str(&format!(" {}{} {}", pick!(self, "UNION", "UNION", "INTERSECT", "EXCEPT"), pick!(self, "", "", " ALL", " DISTINCT"), q));
            }
        }
        if self.ch(40) {
            s.push_str(&format!(" ORDER BY {}", self.order_list()));
        }
        if self.ch(35) {
            s.push_str(&format!(" LIMIT {}", self.limit_val()));
            if self.ch(40) {
                s.push_str(&format!(" OFFSET {}{}", self.limit_val(), pick!(self, "", "", " ROWS", " ROW")));
            }
        } else if self.ch(5) {
            s.push_str(&format!(" OFFSET {}", self.limit_val()));
        } else if self.ch(4) {
            s.push_str(&format!(" FETCH {} {} {} ONLY", pick!(self, "FIRST", "NEXT"), self.limit_val(), pick!(self, "ROWS", "ROW")));
        }
        if top && self.ch(5) {
            s.push_str(&format!(" FOR {}{}{}", pick!(self, "UPDATE", "SHARE", "NO KEY UPDATE", "KEY SHARE"), pick!(self, "", " OF t1", " OF nosuch, t2"), pick!(self, "", " NOWAIT", " SKIP LOCKED")));
        }
        if !top {
            self.scope.truncate(scope_mark.max(0));
        }
        s
    }
    fn value_for(&mut self, class: char) -> String {
        if self.ch(12) {
            return self.expr();
        }
        if self.params && self.ch(50) {
            return self.placeholder();
        }
        let d = self.depth;
        self.depth = 0;
        let saved = std::mem::take(&mut self.scope);
        let v = match class {
            'j' => pick!(self, "'{\"a\": 1}'", "'[1, 2, {\"b\": null}]'", "'{'", "''", "NULL", "'null'", "'{\"a\": {\"a\": {\"a\": {\"a\": {\"a\": {\"a\": 1}}}}}}'", "'\"\\ud800\"'", "'1e999'", "'[1,]'", "'{\"a\":1,\"a\":2}'", "1").to_string(),
            'v' => pick!(self, "'[1,2,3,4]'", "'[1,2]'", "'[]'", "'[1e39,NaN,inf,-0]'", "NULL", "'[1,2,3,4,5]'", "'1,2,3,4'", "'[a]'", "'['", "1", "'[1, 2, 3, 4'").to_string(),
            'u' => pick!(self, "'550e8400-e29b-41d4-a716-446655440000'", "'550e8400'", "''", "NULL", "'zzzzzzzz-zzzz-zzzz-zzzz-zzzzzzzzzzzz'", "'550e8400e29b41d4a716446655440000'", "1").to_string(),
            'x' => pick!(self, "x'00ff'", "x''", "'text'", "NULL", "x'abc'", "1").to_string(),
            c => self.arg(c),
        };
        self.scope = saved;
        self.depth = d;
        v
    }
    fn returning(&mut self, t: usize) -> String {
        if self.ch(30) {
            let saved = self.scope.clone();
            self.scope.push((TABS[t].name.to_string(), t));
            let r = match self.r.below(5) {
                0 | 1 => " RETURNING *".to_string(),
                2 => format!(" RETURNING {}", self.col_of(t, None)),
                3 => format!(" RETURNING {}, {} AS e", self.col_of(t, None), self.expr()),
                _ if self.chaos == 0 => " RETURNING *".to_string(),
                _ => format!(" RETURNING {}", pick!(self, "nosuch", "COUNT(*)", "t9.*", "", "*, *", "(SELECT 1)", "ROW_NUMBER() OVER ()")),
            };
            self.scope = saved;
            r
        } else {
            String::new()
        }
    }
    pub fn insert(&mut self) -> String {
        let t = self.any_table();
        let tab = &TABS[t];
        let mut cols: Vec<(&str, char)> = tab.cols.to_vec();
        let with_cols = self.ch(65);
        if with_cols {
            self.r.shuffle(&mut cols);
            let keep = 1 + self.r.below(cols.len() as u64) as usize;
            cols.truncate(keep);
        }
        let mut s = format!("INSERT INTO {}", if self.odd(4) { "nosuch" } else { tab.name });
        if with_cols {
            let mut names: Vec<String> = cols.iter().map(|c| c.0.to_string()).collect();
            match if self.chaos > 0 { self.r.below(25) } else { 99 } {
                0 => names.push("nosuch".into()),
                1 => names.push(names[0].clone()),
                2 => names.clear(),
                _ => {}
            }
            s.push_str(&format!(" ({})", names.join(", ")));
        }
        match self.r.below(12) {
            0 => s.push_str(" DEFAULT VALUES"),
            1 | 2 => {
                let saved = self.scope.clone();
                self.scope.clear();
                let q = self.select(true);
                self.scope = saved;
                s.push_str(&format!(" {}", q));
            }
            _ => {
                let nrows = if self.ch(80) { 1 } else { 2 + self.r.below(4) };
                let mut rows = vec![];
                for _ in 0..nrows {
                    let mut vals: Vec<String> = vec![];
                    for c in cols.clone() {
                        // primary keys mostly fresh so that the insert reaches the storage layer
                        let v = if (c.0 == "id" || c.0 == "k") && self.ch(75) {
                            if c.1 == 't' {
                                format!("'k{}'", self.r.below(100000))
                            } else {
                                (1000 + self.r.below(100000)).to_string()
                            }
                        } else {
                            self.value_for(c.1)
                        };
                        vals.push(v);
                    }
                    match if self.chaos > 0 { self.r.below(25) } else { 99 } {
                        0 => {
                            vals.pop();
                        }
                        1 => vals.push(self.literal()),
                        2 => vals.clear(),
                        _ => {}
                    }
                    rows.push(format!("({})", vals.join(", ")));
                }
                s.push_str(&format!(" VALUES {}", rows.join(", ")));
            }
        }
        if self.ch(22) {
            let target = match self.r.below(6) {
                0 => String::new(),
                1 => " ON CONSTRAINT t1_pkey".to_string(),
                2 if self.chaos > 0 => format!(" ({})", pick!(self, "nosuch", "id, id", "", "a, b")),
                _ => format!(" ({})", tab.cols[0].0),
            };
            let action = if self.ch(45) {
                "NOTHING".to_string()
            } else {
                let saved = self.scope.clone();
                self.scope.push((TABS[t].name.to_string(), t));
                self.scope.push(("EXCLUDED".to_string(), t));
                let n = 1 + self.r.below(2);
                let a: Vec<String> = (0..n)
                    .map(|_| {
                        let c = self.col_of(t, None);
                        format!("{} = {}", c, self.expr())
                    })
                    .collect();
                self.scope = saved;
                format!("UPDATE SET {}{}", a.join(", "), if self.ch(15) { " WHERE 1 = 1" } else { "" })
            };
            s.push_str(&format!(" ON CONFLICT{} DO {}", target, action));
        }
        s.push_str(&self.returning(t));
        s
    }
    pub fn update(&mut self) -> String {
        let t = self.any_table();
        let tab = &TABS[t];
        self.budget = (self.budget / tab.rows).max(1);
        let alias = if self.ch(20) { format!(" AS {}", "tu") } else { String::new() };
        let q = if alias.is_empty() { tab.name.to_string() } else { "tu".to_string() };
        self.scope.push((q.clone(), t));
        let mut from = String::new();
        if self.ch(25) {
            from = format!(" FROM {}", self.from_clause());
        }
        let n = 1 + self.r.below(3);
        let mut a = vec![];
        for _ in 0..n {
            let (c, class) = {
                let k = self.r.below(tab.cols.len() as u64) as usize;
                tab.cols[k]
            };
            let lhs = match if self.chaos > 0 { self.r.below(20) } else { 10 } {
                0 => "nosuch".to_string(),
                1 => format!("{}.{}", q, c),
                2 => format!("({}, {})", c, tab.cols[0].0),
                _ => c.to_string(),
            };
            let rhs = if self.ch(45) { self.expr() } else { self.value_for(class) };
            a.push(format!("{} = {}", lhs, rhs));
        }
        let mut s = format!("UPDATE {}{} SET {}{}", if self.odd(4) { "nosuch" } else { tab.name }, alias, a.join(", "), from);
        if self.ch(75) {
            s.push_str(&format!(" WHERE {}", self.expr()));
        }
        s.push_str(&self.returning(t));
        s
    }
    pub fn delete(&mut self) -> String {
        let t = self.any_table();
        let tab = &TABS[t];
        self.budget = (self.budget / tab.rows).max(1);
        self.scope.push((tab.name.to_string(), t));
        let mut s = format!("DELETE FROM {}", if self.odd(4) { "nosuch" } else { tab.name });
        if self.ch(15) {
            s.push_str(&format!(" USING {}", self.from_clause()));
        }
        if self.ch(85) {
            s.push_str(&format!(" WHERE {}", self.expr()));
        }
        s.push_str(&self.returning(t));
        s
    }
    fn new_name(&mut self) -> String {
        match self.r.below(14) {
            0 => "t1".into(),
            1 => "\"ünï\"".into(),
            2 => "\"\"".into(),
            3 => "select".into(),
            4 => format!("\"{}\"", "n".repeat(300)),
            5 => "root.nt".into(),
            6 => "nosuch.nt".into(),
            7 => "\"ta ble\"".into(),
            8 => "таблица".into(),
            _ => format!("nt{}", self.r.below(5)),
        }
    }
    fn col_def(&mut self, k: usize) -> String {
        let name = match self.r.below(14) {
            0 => "id".to_string(),
            1 => "\"кол\"".to_string(),
            2 => "select".to_string(),
            _ => format!("c{}", k),
        };
        let ty = self.p(TYPES);
        let mut s = format!("{} {}", name, ty);
        let saved = std::mem::take(&mut self.scope);
        for _ in 0..self.r.below(3) {
            let c = match self.r.below(14) {
                0 => " NOT NULL".to_string(),
                1 => " NULL".to_string(),
                2 => " UNIQUE".to_string(),
                3 => " PRIMARY KEY".to_string(),
                4 => " AUTO_INCREMENT".to_string(),
                5 | 6 => format!(" DEFAULT {}", if self.ch(60) { self.literal() } else { format!("({})", self.expr()) }),
                7 | 8 => format!(" CHECK ({})", if self.ch(50) { format!("{} > 0", name) } else { self.expr() }),
                9 => format!(" REFERENCES {}{}{}", pick!(self, "t1", "t1(id)", "t2(id)", "nosuch", "nosuch(x)", "t1(nosuch)"), pick!(self, "", " ON DELETE CASCADE", " ON DELETE SET NULL", " ON DELETE RESTRICT", " ON DELETE NO ACTION", " ON DELETE SET DEFAULT"), pick!(self, "", "", " ON UPDATE CASCADE", " ON UPDATE SET NULL")),
                10 => format!(" GENERATED ALWAYS AS ({}){}", self.expr(), pick!(self, "", " STORED")),
                _ => String::new(),
            };
            s.push_str(&c);
        }
        self.scope = saved;
        s
    }
    pub fn ddl(&mut self) -> String {
        match self.r.below(30) {
            0..=6 => {
                let n = if self.ch(3) { 0 } else if self.ch(3) { 40 + self.r.below(300) as usize } else { 1 + self.r.below(6) as usize };
                let mut defs: Vec<String> = (0..n).map(|k| self.col_def(k)).collect();
                for _ in 0..self.r.below(2) {
                    let c = match self.r.below(6) {
                        0 => "PRIMARY KEY (c0)".to_string(),
                        1 => "UNIQUE (c0, c1)".to_string(),
                        2 => format!("CONSTRAINT fk FOREIGN KEY (c0) REFERENCES {} ({}){}", pick!(self, "t1", "t2", "nosuch"), pick!(self, "id", "nosuch", "id, a"), pick!(self, "", " ON DELETE CASCADE", " ON UPDATE SET NULL")),
                        3 => format!("CHECK ({})", self.expr()),
                        4 => "CONSTRAINT ck CHECK (c0 > 0)".to_string(),
                        _ => "PRIMARY KEY (nosuch)".to_string(),
                    };
                    defs.push(c);
                }
                format!("CREATE {}TABLE {}{} ({})", pick!(self, "", "", "", "TEMPORARY ", "TEMP "), pick!(self, "", "", "IF NOT EXISTS "), self.new_name(), defs.join(", "))
            }
            7..=10 => {
                let t = self.any_table();
                let saved = self.scope.clone();
                self.scope.push((TABS[t].name.to_string(), t));
                let n = 1 + self.r.below(3);
                let cols: Vec<String> = (0..n)
                    .map(|_| {
                        let c = if self.ch(85) { self.col_of(t, None).to_string() } else { format!("({})", self.expr()) };
                        format!("{}{}{}", c, pick!(self, "", "", " ASC", " DESC"), pick!(self, "", "", " NULLS FIRST", " NULLS LAST"))
                    })
                    .collect();
                let wh = if self.ch(15) { format!(" WHERE {}", self.expr()) } else { String::new() };
                self.scope = saved;
                let tn = if self.ch(5) { "nosuch" } else { TABS[t].name };
                format!("CREATE {}INDEX {}{} ON {}{} ({}){}", pick!(self, "", "", "UNIQUE "), pick!(self, "", "", "IF NOT EXISTS "), pick!(self, "ix0", "ix1", "t1_a", "\"\"", "select", "ü"), tn, pick!(self, "", "", "", " USING BTREE", " USING HASH", " USING GIN", " USING GIST", " USING HNSW", " USING nosuch"), cols.join(", "), wh)
            }
            11 => format!("CREATE SCHEMA {}{}", pick!(self, "", "IF NOT EXISTS "), pick!(self, "s1", "root", "\"\"", "turdb_catalog", "ü", "s1.s2")),
            12..=17 => {
                let t = self.any_table();
                let tn = if self.ch(6) { "nosuch" } else { TABS[t].name };
                let col = if self.ch(85) { self.col_of(t, None).to_string() } else { "nosuch".to_string() };
                let act = match self.r.below(16) {
                    0..=2 => format!("ADD {}{}", pick!(self, "COLUMN ", "COLUMN ", ""), self.col_def(9)),
                    3 | 4 => format!("DROP {}{}{}{}", pick!(self, "COLUMN ", "COLUMN ", ""), pick!(self, "", "IF EXISTS "), col, pick!(self, "", "", " CASCADE", " RESTRICT")),
                    5 | 6 => format!("RENAME COLUMN {} TO {}", col, pick!(self, "renamed", "id", "a", "\"\"", "select", "ü")),
                    7 => format!("RENAME TO {}", self.new_name()),
                    8 => format!("ALTER COLUMN {} SET DATA TYPE {}", col, self.p(TYPES)),
                    9 => format!("ALTER COLUMN {} TYPE {}", col, self.p(TYPES)),
                    10 => format!("ALTER COLUMN {} SET DEFAULT {}", col, self.literal()),
                    11 => format!("ALTER COLUMN {} DROP DEFAULT", col),
                    12 => format!("ALTER COLUMN {} {} NOT NULL", col, pick!(self, "SET", "DROP")),
                    13 => format!("ADD {}", pick!(self, "CONSTRAINT u1 UNIQUE (a)", "PRIMARY KEY (id)", "CHECK (1 = 0)", "FOREIGN KEY (a) REFERENCES t2 (id)", "CONSTRAINT c CHECK (nosuch > 0)", "UNIQUE (nosuch)")),
                    _ => format!("DROP CONSTRAINT {}{}{}", pick!(self, "", "IF EXISTS "), pick!(self, "u1", "nosuch", "t1_pkey"), pick!(self, "", " CASCADE")),
                };
                format!("ALTER TABLE {} {}", tn, act)
            }
            18..=21 => {
                let obj = pick!(self, "TABLE", "TABLE", "TABLE", "INDEX", "INDEX", "SCHEMA", "VIEW", "SEQUENCE", "FUNCTION", "PROCEDURE", "TRIGGER", "DATABASE", "TYPE");
                let names = match obj {
                    "TABLE" | "VIEW" => pick!(self, "t1", "t2", "t3", "t4", "t5", "\"ünï\"", "nosuch", "t1, t2", "t1, t1", "root.t1", "nosuch.t1", "nt0"),
                    "INDEX" => pick!(self, "t1_a", "t1_ab", "t2_fk", "t3_emb", "nosuch", "t1_a, t1_ab", "root.t1_a"),
                    "SCHEMA" => pick!(self, "root", "s1", "nosuch", "turdb_catalog"),
                    _ => pick!(self, "x", "t1", "nosuch"),
                };
                format!("DROP {} {}{}{}", obj, pick!(self, "", "", "IF EXISTS "), names, pick!(self, "", "", " CASCADE", " RESTRICT"))
            }
            22 | 23 => format!("TRUNCATE {}{}{}{}", pick!(self, "TABLE ", "TABLE ", ""), pick!(self, "t1", "t2", "t3", "t4", "t5", "\"ünï\"", "nosuch", "t1, t2", "t5, t5", "root.t5"), pick!(self, "", "", " RESTART IDENTITY", " CONTINUE IDENTITY"), pick!(self, "", "", " CASCADE")),
            24 => {
                let saved = self.scope.clone();
                self.scope.clear();
                let q = self.select(true);
                self.scope = saved;
                format!("CREATE {}{}VIEW {}{} AS {}{}", pick!(self, "", "OR REPLACE "), pick!(self, "", "", "MATERIALIZED "), pick!(self, "v1", "t1", "root.v1"), pick!(self, "", " (a, b)"), q, pick!(self, "", "", " WITH CHECK OPTION", " WITH LOCAL CHECK OPTION"))
            }
            25 => format!("CREATE {}FUNCTION {}({}) RETURNS {} AS {} LANGUAGE {}", pick!(self, "", "OR REPLACE "), pick!(self, "f1", "root.f1", "upper"), pick!(self, "", "a INT", "a INT, b TEXT", "a"), self.p(TYPES), pick!(self, "'SELECT 1'", "$$ SELECT 1 $$", "$body$ x $body$", "$$ unterminated", "''"), pick!(self, "sql", "plpgsql", "'sql'", "")),
            26 => format!("CREATE {}PROCEDURE {}({}) AS {} LANGUAGE {}", pick!(self, "", "OR REPLACE "), pick!(self, "p1", "root.p1"), pick!(self, "", "a INT", "a INT, b nosuch"), pick!(self, "'SELECT 1'", "$$ DELETE FROM t1 $$"), pick!(self, "sql", "plpgsql")),
            27 => format!("CREATE {}TRIGGER {} {} {} ON {} {}EXECUTE {} {}()", pick!(self, "", "OR REPLACE "), pick!(self, "tr1", "t1"), pick!(self, "BEFORE", "AFTER", "INSTEAD OF"), pick!(self, "INSERT", "UPDATE OR DELETE", "TRUNCATE", "INSERT OR UPDATE OR DELETE OR TRUNCATE", "SELECT"), pick!(self, "t1", "nosuch"), pick!(self, "", "FOR EACH ROW ", "FOR EACH STATEMENT "), pick!(self, "FUNCTION", "PROCEDURE", ""), pick!(self, "f1", "nosuch")),
            28 => match self.r.below(4) {
                0 => format!("CREATE TYPE {} AS ENUM ({})", pick!(self, "mood", "root.mood", "int"), pick!(self, "'a', 'b'", "", "'a', 'a'", "'a', 1", "''")),
                1 => format!("CREATE TYPE {} AS ({})", pick!(self, "pair", "mood"), pick!(self, "a INT, b TEXT", "", "a INT, a INT", "a nosuch", "a pair")),
                2 => format!("CREATE DOMAIN {} AS {}", pick!(self, "posint", "int"), self.p(TYPES)),
                _ => format!("CREATE TYPE {}", pick!(self, "mood", "mood AS", "mood AS RANGE (subtype = int)")),
            },
            _ => format!("CREATE {}", pick!(self, "", "OR", "OR REPLACE", "OR REPLACE TABLE x (a INT)", "UNIQUE", "UNIQUE TABLE t (a INT)", "SEQUENCE s1", "DATABASE d", "EXTENSION vector", "TABLE", "TABLE t", "TABLE t (", "INDEX ON t1 (a)", "TABLE t AS SELECT 1")),
        }
    }
    pub fn misc(&mut self) -> String {
        match self.r.below(30) {
            0..=3 => format!("BEGIN{}{}{}", if self.odd(20) { " WORK" } else { pick!(self, "", "", " TRANSACTION") }, pick!(self, "", "", "", " ISOLATION LEVEL READ UNCOMMITTED", " ISOLATION LEVEL READ COMMITTED", " ISOLATION LEVEL REPEATABLE READ", " ISOLATION LEVEL SERIALIZABLE", " ISOLATION LEVEL nosuch", " ISOLATION LEVEL"), pick!(self, "", "", " READ ONLY", " READ WRITE", ", READ ONLY")),
            4 | 5 => format!("COMMIT{}", if self.odd(30) { pick!(self, " TRANSACTION", " WORK", " AND CHAIN", " x") } else { "" }),
            6 | 7 => format!("ROLLBACK{}", pick!(self, "", "", " TRANSACTION", " TO sp1", " TO SAVEPOINT sp1", " TO SAVEPOINT nosuch", " TO", " TO SAVEPOINT", " TO \"\"", " TO SAVEPOINT ü")),
            8 | 9 => format!("SAVEPOINT {}", pick!(self, "sp1", "sp1", "sp2", "\"\"", "select", "", "ü", "sp1 sp2", "1")),
            10 => format!("RELEASE {}{}", pick!(self, "", "SAVEPOINT "), pick!(self, "sp1", "sp2", "nosuch", "", "\"\"")),
            11..=14 => {
                let inner = match self.r.below(8) {
                    0..=3 => self.select(true),
                    4 => self.insert(),
                    5 => self.update(),
                    6 => self.delete(),
                    _ => pick!(self, "EXPLAIN SELECT 1", "BEGIN", "PRAGMA wal", "CREATE TABLE e (a INT)", "DROP TABLE t5", "", "TRUNCATE t5", "ALTER TABLE t5 ADD COLUMN z INT").to_string(),
                };
                format!("EXPLAIN {}{}{}{}", pick!(self, "", "", "ANALYZE ", "(ANALYZE) ", "(ANALYZE, VERBOSE) ", "(nosuch) "), pick!(self, "", "", "VERBOSE "), pick!(self, "", "", "", "FORMAT JSON ", "(FORMAT JSON) ", "(FORMAT XML) ", "(FORMAT YAML) ", "(FORMAT TEXT) ", "(FORMAT nosuch) ", "QUERY PLAN "), inner)
            }
            15..=17 => {
                let scope = pick!(self, "", "", "SESSION ", "LOCAL ", "GLOBAL ");
                let name = pick!(self, "foreign_keys", "search_path", "work_mem", "TRANSACTION ISOLATION LEVEL SERIALIZABLE", "x.y", "TIME ZONE", "", "\"\"", "join_memory_budget", "wal", "NAMES", "autocommit");
                let val = match self.r.below(6) {
                    0 => self.literal(),
                    1 => pick!(self, "ON", "OFF", "DEFAULT", "on", "true", "1", "0").to_string(),
                    2 => format!("{}, {}", self.literal(), self.literal()),
                    3 => String::new(),
                    _ => pick!(self, "ON", "OFF", "'UTC'", "root", "1", "(SELECT 1)", "9223372036854775808", "-1").to_string(),
                };
                format!("SET {}{} {} {}", scope, name, pick!(self, "=", "TO", "="), val)
            }
            18 => format!("SHOW {}", pick!(self, "ALL", "search_path", "foreign_keys", "", "TABLES", "nosuch", "\"\"", "TRANSACTION ISOLATION LEVEL")),
            19 => format!("RESET {}", pick!(self, "ALL", "search_path", "foreign_keys", "", "nosuch")),
            20 => format!("GRANT {} ON {}{} TO {}{}", pick!(self, "SELECT", "ALL", "ALL PRIVILEGES", "SELECT, INSERT", "nosuch", "", "EXECUTE", "USAGE"), pick!(self, "", "TABLE ", "SCHEMA ", "FUNCTION "), pick!(self, "t1", "nosuch", "root.t1", ""), pick!(self, "u1", "PUBLIC", "u1, u2", ""), pick!(self, "", " WITH GRANT OPTION")),
            21 => format!("REVOKE {} ON {} FROM {}{}", pick!(self, "SELECT", "ALL", "UPDATE, DELETE", ""), pick!(self, "t1", "TABLE t1", "nosuch"), pick!(self, "u1", "PUBLIC", ""), pick!(self, "", " CASCADE", " RESTRICT")),
            22 => {
                let n = self.r.below(4);
                let a: Vec<String> = (0..n).map(|_| self.expr()).collect();
                format!("CALL {}({})", pick!(self, "p1", "root.p1", "nosuch", "upper", ""), a.join(", "))
            }
            23 | 24 => {
                let t = self.any_table();
                let s2 = self.any_table();
                let saved = self.scope.clone();
                self.scope.push(("tgt".into(), t));
                self.scope.push(("src".into(), s2));
                let on = if self.ch(60) { format!("tgt.{} = src.{}", TABS[t].cols[0].0, TABS[s2].cols[0].0) } else { self.expr() };
                let mut cl = vec![];
                for _ in 0..self.r.below(4) {
                    cl.push(match self.r.below(5) {
                        0 => "WHEN MATCHED THEN DELETE".to_string(),
                        1 | 2 => format!("WHEN MATCHED THEN UPDATE SET {} = {}", self.col_of(t, None), self.expr()),
                        3 => format!("WHEN NOT MATCHED THEN INSERT VALUES ({})", (0..TABS[t].cols.len()).map(|_| self.literal()).collect::<Vec<_>>().join(", ")),
                        _ => format!("WHEN NOT MATCHED THEN INSERT ({}) VALUES ({})", TABS[t].cols[0].0, self.expr()),
                    });
                }
                self.scope = saved;
                format!("MERGE INTO {} {}USING {} {}ON {} {}", TABS[t].name, pick!(self, "tgt ", "AS tgt ", ""), TABS[s2].name, pick!(self, "src ", "AS src ", ""), on, cl.join(" "))
            }
            _ => {
                let name = self.p(PRAGMAS);
                match self.r.below(6) {
                    0 | 1 => format!("PRAGMA {}", name),
                    2 => format!("PRAGMA {}({})", name, self.p(PRAGMA_VALUES)),
                    3 => format!("PRAGMA {} = {}", pick!(self, "", "1", "\"\"", "a.b", "wal.x", "ü"), self.p(PRAGMA_VALUES)),
                    _ => format!("PRAGMA {} {} {}", name, pick!(self, "=", "=", "=", "", "=="), self.p(PRAGMA_VALUES)),
                }
            }
        }
    }
    /// any statement kind
    pub fn statement(&mut self) -> String {
        self.scope.clear();
        self.budget = 50_000;
        match self.r.below(100) {
            0..=39 => self.select(true),
            40..=51 => self.insert(),
            52..=61 => self.update(),
            62..=68 => self.delete(),
            69..=83 => self.ddl(),
            _ => self.misc(),
        }
    }
}

// ------------------------------------------------------------------------------------------
// token-level mutation
// ------------------------------------------------------------------------------------------
const DICT: &[&str] = &[
    "SELECT", "FROM", "WHERE", "GROUP", "BY", "HAVING", "ORDER", "LIMIT", "OFFSET", "UNION", "ALL", "INTERSECT", "EXCEPT", "JOIN", "LEFT", "RIGHT", "FULL", "OUTER", "INNER", "CROSS", "NATURAL", "ON", "USING", "AS", "DISTINCT",
    "INSERT", "INTO", "VALUES", "UPDATE", "SET", "DELETE", "RETURNING", "CONFLICT", "DO", "NOTHING", "DEFAULT", "CREATE", "TABLE", "INDEX", "UNIQUE", "PRIMARY", "KEY", "NOT", "NULL", "CHECK", "REFERENCES", "FOREIGN", "DROP", "ALTER",
    "ADD", "COLUMN", "RENAME", "TO", "TRUNCATE", "BEGIN", "COMMIT", "ROLLBACK", "SAVEPOINT", "RELEASE", "EXPLAIN", "PRAGMA", "AND", "OR", "IN", "IS", "LIKE", "ILIKE", "BETWEEN", "EXISTS", "CASE", "WHEN", "THEN", "ELSE", "END", "CAST",
    "OVER", "PARTITION", "ROWS", "RANGE", "UNBOUNDED", "PRECEDING", "FOLLOWING", "CURRENT", "ROW", "FILTER", "WITH", "RECURSIVE", "LATERAL", "ASC", "DESC", "NULLS", "FIRST", "LAST", "TRUE", "FALSE", "IF", "CASCADE", "INT", "BIGINT",
    "TEXT", "JSONB", "VECTOR", "DATE", "COUNT", "SUM", "AVG", "MIN", "MAX", "ROW_NUMBER", "COALESCE", "UPPER", "LENGTH", "SUBSTR", "ABS", "ROUND", "NOW", "(", ")", "(", ")", ",", ",", ";", ".", "*", "=", "<", ">", "<=", ">=", "<>", "!=",
    "+", "-", "/", "%", "||", "->", "->>", "<->", "<=>", "::", "[", "]", "?", "$1", ":p", "@p", "'", "\"", "`", "--", "/*", "*/", "0", "1", "-1", "2147483648", "9223372036854775807", "9223372036854775808", "1e999", "0.0", "''", "'a'",
    "'%'", "NULL", "t1", "t2", "t3", "t4", "t5", "id", "a", "b", "c", "emb", "j", "dt", "\"ünï\"", "x", "é", "😀", "\u{0}", "\u{200b}",
];

pub fn mutate_tokens(r: &mut Rng, toks: &mut Vec<String>, n: usize, donor: Option<&[String]>) -> Vec<&'static str> {
    let mut kinds = vec![];
    for _ in 0..n {
        if toks.is_empty() {
            toks.push(DICT[r.below(DICT.len() as u64) as usize].to_string());
            kinds.push("insert");
            continue;
        }
        let i = r.below(toks.len() as u64) as usize;
        match r.below(13) {
            0 | 1 => {
                toks.remove(i);
                kinds.push("delete");
            }
            2 | 3 => {
                let t = toks[i].clone();
                toks.insert(i, t);
                kinds.push("duplicate");
            }
            4 => {
                let j = r.below(toks.len() as u64) as usize;
                toks.swap(i, j);
                kinds.push("swap");
            }
            5 => {
                if i + 1 < toks.len() {
                    toks.swap(i, i + 1);
                }
                kinds.push("swap_adjacent");
            }
            6 | 7 => {
                toks[i] = DICT[r.below(DICT.len() as u64) as usize].to_string();
                kinds.push("replace");
            }
            8 => {
                toks.insert(i, DICT[r.below(DICT.len() as u64) as usize].to_string());
                kinds.push("insert");
            }
            9 => {
                // replace a literal by a boundary literal of the same class
                let first = toks[i].as_bytes().first().copied().unwrap_or(b' ');
                if first.is_ascii_digit() {
                    let pool: &[&str] = if r.chance(1, 2) { INT_LITS } else { FLOAT_LITS };
                    toks[i] = pool[r.below(pool.len() as u64) as usize].to_string();
                } else if first == b'\'' {
                    toks[i] = STR_LITS[r.below(STR_LITS.len() as u64) as usize].to_string();
                } else {
                    toks[i] = INT_LITS[r.below(INT_LITS.len() as u64) as usize].to_string();
                }
                kinds.push("boundary_literal");
            }
            10 => {
                toks.truncate(i);
                kinds.push("truncate");
            }
            11 => {
                if let Some(d) = donor {
                    if !d.is_empty() {
                        let a = r.below(d.len() as u64) as usize;
                        let l = 1 + r.below(6) as usize;
                        let piece: Vec<String> = d[a..(a + l).min(d.len())].to_vec();
                        for (k, p) in piece.into_iter().enumerate() {
                            toks.insert((i + k).min(toks.len()), p);
                        }
                    }
                }
                kinds.push("splice");
            }
            _ => {
                // cut a token in the middle (at a char boundary) -> unterminated strings, broken numbers
                let t = toks[i].clone();
                let cuts: Vec<usize> = t.char_indices().map(|(p, _)| p).collect();
                if cuts.len() > 1 {
                    let c = cuts[1 + r.below(cuts.len() as u64 - 1) as usize];
                    toks[i] = t[..c].to_string();
                }
                kinds.push("cut_token");
            }
        }
    }
    kinds
}

// ------------------------------------------------------------------------------------------
// case generators
// ------------------------------------------------------------------------------------------
pub struct Env {
    pub seed: u64,
    pub tier: String,
    pub root: PathBuf,
    pub work: PathBuf,
    pub corpus: Corpus,
}

fn case_rng(seed: u64, unit: &str, idx: u64) -> Rng {
    let mut base = Rng::derive(seed, STREAM);
    Rng::new(base.next() ^ fnv(unit.as_bytes()).rotate_left(17) ^ idx.wrapping_mul(0x9E3779B97F4A7C15))
}

fn entry_step(r: &mut Rng, sql: Txt) -> Step {
    let op = match r.below(20) {
        0..=12 => Op::Exec(sql),
        13..=17 => Op::Query(sql),
        18 => Op::QueryCols(sql),
        _ => Op::ExecParams(sql, vec![]),
    };
    Step { h: 0, op }
}

fn gen_gram(r: &mut Rng, case: &mut Case) {
    let n = match r.below(10) {
        0..=5 => 1,
        6..=7 => 2,
        8 => 3,
        _ => 5,
    };
    let txn = r.chance(1, 8);
    if txn {
        case.steps.push(Step::exec("BEGIN"));
    }
    let mut tags = vec![];
    for _ in 0..n {
        let mut sql = {
            let mut g = G::new(r);
            g.depth = 1 + g.r.below(3) as u32;
            g.statement()
        };
        let kind = stmt_kind(&Txt::lit(sql.clone()));
        if r.chance(1, 7) {
            let mut t = tokenize(&sql);
            let nm = 1 + r.below(2) as usize;
            mutate_tokens(r, &mut t, nm, None);
            sql = join_tokens(&t);
            tags.push(format!("{}~", kind));
        } else {
            tags.push(kind);
        }
        if r.chance(1, 30) {
            sql.push_str(["; ", ";;", "; SELECT 1", " -- c", " /* c */", ";\n"][r.below(6) as usize]);
        }
        case.steps.push(entry_step(r, Txt::lit(sql)));
    }
    if txn {
        case.steps.push(Step::exec(if r.chance(1, 2) { "ROLLBACK" } else { "COMMIT" }));
        case.steps.push(Step::query("SELECT COUNT(*) FROM t1"));
    }
    case.tag = format!("gram:{}", tags.join("+"));
}

fn gen_func(r: &mut Rng, case: &mut Case) {
    // every function is visited round-robin by the case index, so a run of >= FUNCS.len() cases covers all
    let (name, sig) = FUNCS[(case.idx as usize) % FUNCS.len()];
    let ctx = r.below(9);
    let sql = {
        let mut g = G::new(r);
        g.depth = 1 + g.r.below(2) as u32;
        g.budget = 2000;
        let t = g.r.below(5) as usize;
        if ctx > 0 {
            g.scope.push((TABS[t].name.to_string(), t));
        }
        let call = g.call(name, sig);
        let tn = TABS[t].name;
        match ctx {
            0 => format!("SELECT {}", call),
            1 => format!("SELECT {} FROM {}", call, tn),
            2 => format!("SELECT {} FROM {} WHERE {} {} {}", TABS[t].cols[0].0, tn, call, pick!(g, "=", "<", ">=", "<>", "IS NOT DISTINCT FROM"), g.literal()),
            3 => format!("SELECT {} FROM {} ORDER BY {}{}", TABS[t].cols[0].0, tn, call, pick!(g, "", " DESC", " LIMIT 3")),
            4 => format!("SELECT {}, COUNT(*) FROM {} GROUP BY {}", call, tn, call),
            5 => format!("UPDATE {} SET {} = {} WHERE {} IS NOT NULL", tn, TABS[t].cols[1].0, call, TABS[t].cols[0].0),
            6 => format!("INSERT INTO t5 (k, v) VALUES ({}, 1)", call),
            7 => format!("SELECT {} FROM {} WHERE {} IN (SELECT {} FROM {})", TABS[t].cols[0].0, tn, TABS[t].cols[0].0, call, tn),
            _ => format!("DELETE FROM {} WHERE {} = {}", tn, call, g.literal()),
        }
    };
    case.kind = Some(format!("fn:{}", name));
    case.tag = format!("func:{}:ctx{}", name, ctx);
    case.steps.push(entry_step(r, Txt::lit(sql)));
}

fn nest(prefix: &str, open: &str, core: &str, close: &str, suffix: &str, d: usize) -> Txt {
    let mut t = Txt::default();
    t.push(prefix);
    t.rep(open, d);
    t.push(core);
    t.rep(close, d);
    t.push(suffix);
    t
}

const DEEP_TEMPLATES: usize = 44;

fn deep_template(k: usize, d: usize) -> (Txt, &'static str) {
    match k {
        0 => (nest("SELECT ", "(", "1", ")", "", d), "parens"),
        1 => (nest("SELECT a FROM t1 WHERE ", "(", "a = 1", ")", "", d), "parens_where"),
        2 => (nest("SELECT * FROM ", "(SELECT * FROM ", "t5", ") AS s", "", d), "derived_tables"),
        3 => (nest("SELECT ", "(SELECT ", "1", ")", "", d), "scalar_subqueries"),
        4 => (nest("SELECT ", "CASE WHEN 1 = 1 THEN ", "1", " END", "", d), "case_then"),
        5 => (nest("SELECT ", "CASE WHEN 1 = 0 THEN 0 ELSE ", "1", " END", " FROM t5", d), "case_else"),
        6 => (nest("SELECT ", "NOT ", "TRUE", "", "", d), "not_chain"),
        7 => (nest("SELECT ", "- ", "1", "", "", d), "unary_minus_chain"),
        8 => (nest("SELECT ", "~", "1", "", "", d), "bitnot_chain"),
        9 => (nest("SELECT 1", " + 1", "", "", "", d), "plus_chain"),
        10 => (nest("SELECT k FROM t5 WHERE v = 0", " OR v = 1", "", "", "", d), "or_chain"),
        11 => (nest("SELECT k FROM t5 WHERE v >= 0", " AND v >= 0", "", "", "", d), "and_chain"),
        12 => (nest("SELECT ", "1 + (", "1", ")", "", d), "right_deep_plus"),
        13 => (nest("SELECT ", "UPPER(", "'x'", ")", "", d), "function_nest"),
        14 => (nest("SELECT ", "COALESCE(NULL, ", "a", ")", " FROM t1", d), "coalesce_nest"),
        15 => (nest("SELECT ", "CAST(", "1", " AS BIGINT)", "", d), "cast_nest"),
        16 => (nest("SELECT ", "1 IN (", "1", ")", "", d), "in_list_nest"),
        17 => (nest("SELECT k FROM t5 WHERE k IN ", "(SELECT k FROM t5 WHERE k IN ", "('a')", ")", "", d), "in_subquery_nest"),
        18 => (nest("SELECT k FROM t5 WHERE ", "EXISTS (SELECT 1 FROM t5 WHERE ", "1 = 1", ")", "", d), "exists_nest"),
        19 => (nest("SELECT 1", " UNION SELECT 1", "", "", "", d), "union_chain"),
        20 => (nest("SELECT 1", " UNION ALL SELECT 1", "", "", "", d), "union_all_chain"),
        21 => (nest("", "(", "SELECT 1", ")", "", d), "parenthesised_select"),
        22 => (nest("SELECT ", "(", "j", ")", " -> 'a' FROM t4", d), "parens_column"),
        23 => (nest("SELECT j", " -> 'a'", "", "", " FROM t4", d), "json_arrow_chain"),
        24 => (nest("SELECT (ARRAY[1])", "[1]", "", "", "", d), "subscript_chain"),
        25 => (nest("INSERT INTO t4 (id, j) VALUES (900, '", "[", "1", "]", "')", d), "jsonb_array_literal_nest"),
        26 => (nest("INSERT INTO t4 (id, j) VALUES (901, '", "{\"a\": ", "1", "}", "')", d), "jsonb_object_literal_nest"),
        27 => (nest("SELECT ", "ARRAY[", "1", "]", "", d), "array_nest"),
        28 => (nest("SELECT ", "ROW(", "1", ")", "", d), "row_nest"),
        29 => (nest("", "EXPLAIN ", "SELECT 1", "", "", d), "explain_chain"),
        30 => (nest("CREATE TABLE deep1 (a INT CHECK (", "(", "a > 0", ")", "))", d), "check_expr_nest"),
        31 => (nest("CREATE TABLE deep2 (a INT DEFAULT ", "(", "1", ")", ")", d), "default_expr_nest"),
        32 => (nest("SELECT CAST(NULL AS INT", "[]", "", "", ")", d), "array_type_suffix_chain"),
        33 => (nest("UPDATE t5 SET v = ", "(", "v", ")", " WHERE k = 'a'", d), "update_set_parens"),
        34 => (nest("DELETE FROM t5 WHERE ", "NOT (", "v = 1", ")", "", d), "delete_not_parens"),
        35 => (nest("SELECT ", "1 BETWEEN ", "0", " AND 2", "", d), "between_nest"),
        36 => (nest("SELECT 'a'", " || 'a'", "", "", "", d), "concat_chain"),
        37 => (nest("SELECT 'a'", " LIKE 'a'", "", "", "", d), "like_chain"),
        38 => (nest("SELECT 1", " = 1", "", "", "", d), "eq_chain"),
        39 => (nest("SELECT 1", " IS NULL", "", "", "", d), "is_null_chain"),
        40 => (nest("SELECT ", "ABS(- ", "a", ")", " FROM t1 ORDER BY 1", d), "abs_neg_nest"),
        41 => (nest("SELECT SUM(", "(", "a", ")", ") OVER (ORDER BY id) FROM t1", d), "window_arg_parens"),
        42 => (nest("SELECT a FROM t1 ORDER BY ", "(", "a", ")", " LIMIT 1", d), "order_by_parens"),
        _ => (nest("SELECT a FROM t1 GROUP BY a HAVING ", "(", "COUNT(*) > 0", ")", "", d), "having_parens"),
    }
}

fn cte_chain(d: usize) -> Txt {
    let mut s = String::from("WITH c0 AS (SELECT 1 AS x)");
    for i in 1..d {
        s.push_str(&format!(", c{} AS (SELECT x FROM c{})", i, i - 1));
    }
    s.push_str(&format!(" SELECT x FROM c{}", d.saturating_sub(1)));
    Txt::lit(s)
}

fn join_chain(d: usize) -> Txt {
    // key-equality joins on a 5-row table; at most 6 operands so that even a nested loop stays tiny
    let d = d.min(6).max(2);
    let mut s = String::from("SELECT COUNT(*) FROM \"ünï\" j0");
    for i in 1..d {
        s.push_str(&format!(" JOIN \"ünï\" j{} ON j{}.\"ключ\" = j{}.\"ключ\"", i, i - 1, i));
    }
    Txt::lit(s)
}

fn gen_deep(r: &mut Rng, case: &mut Case, thorough: bool) {
    let depths: &[usize] = &[3, 8, 16, 32, 50, 64, 100, 128, 150, 180, 200];
    let d = depths[r.below(depths.len() as u64) as usize];
    let k = (case.idx as usize) % (DEEP_TEMPLATES + 2);
    let (sql, name) = if k == DEEP_TEMPLATES {
        (cte_chain(d), "cte_chain")
    } else if k == DEEP_TEMPLATES + 1 {
        (join_chain(d), "join_chain")
    } else {
        deep_template(k, d)
    };
    case.tag = format!("deep:{}:{}", name, d);
    let mut st = entry_step(r, sql);
    if r.chance(1, 6) {
        if let Some(t) = st.sql().cloned() {
            st.op = Op::Prepare(t, vec![Round::Bind(vec![], false)]);
        }
    }
    case.steps.push(st);
}

fn gen_huge(r: &mut Rng, case: &mut Case) {
    const MIB: usize = 1 << 20;
    let big = |r: &mut Rng| -> usize { [1000, 4096, 65536, MIB, MIB + 1][r.below(5) as usize] };
    let k = case.idx % 60;
    let mut t = Txt::default();
    let name: &str;
    match k {
        0 => {
            t.push("SELECT 1234567890123456789012345678901234567890");
            name = "int40";
        }
        1 => {
            t.push("SELECT id FROM t1 WHERE id = 1234567890123456789012345678901234567890 OR a < -1234567890123456789012345678901234567890");
            name = "int40_where";
        }
        2 => {
            t.push("INSERT INTO t1 (id, a) VALUES (1234567890123456789012345678901234567890, 99999999999999999999)");
            name = "int40_insert";
        }
        3 => {
            t.push("SELECT 1e999, -1e999, 1e-999, 1e999 * 0, 1e999 - 1e999, CAST(1e999 AS INT), CAST(1e999 AS BIGINT), ROUND(1e999), 1e999 = 1e999");
            name = "float_1e999";
        }
        4 => {
            t.push("INSERT INTO t1 (id, c, r) VALUES (9001, 1e999, -1e999)");
            name = "float_1e999_insert";
        }
        5 => {
            t.push("UPDATE t1 SET c = c * 1e999, r = 1e39, a = 1e999 WHERE id < 5");
            name = "float_1e999_update";
        }
        6 => {
            t.push("SELECT id FROM t1 WHERE c < 1e999 ORDER BY c * 1e308 LIMIT 1e999");
            name = "float_1e999_order_limit";
        }
        7 => {
            t.push("SELECT '");
            t.rep("x", big(r));
            t.push("'");
            name = "string_select";
        }
        8 => {
            t.push("SELECT LENGTH('");
            t.rep("é", big(r) / 2);
            t.push("'), UPPER('");
            t.rep("ab", big(r) / 2);
            t.push("')");
            name = "string_functions";
        }
        9 => {
            t.push("INSERT INTO t2 (id, name, note) VALUES (9002, 'n', '");
            t.rep("y", big(r));
            t.push("') RETURNING id");
            name = "string_insert_text";
        }
        10 => {
            t.push("INSERT INTO t2 (id, name) VALUES (9003, '");
            t.rep("v", big(r));
            t.push("')");
            name = "string_insert_varchar40";
        }
        11 => {
            t.push("SELECT id FROM t1 WHERE b = '");
            t.rep("z", big(r));
            t.push("'");
            name = "string_where_eq";
        }
        12 => {
            t.push("SELECT id FROM t2 WHERE note LIKE '");
            t.rep("%n", [10, 100, 1000, 20000][r.below(4) as usize]);
            t.push("%x'");
            name = "like_pattern_many_wildcards";
        }
        13 => {
            t.push("SELECT id FROM t1 WHERE b LIKE '");
            t.rep("_", big(r));
            t.push("'");
            name = "like_pattern_underscores";
        }
        14 => {
            t.push("SELECT \"");
            t.rep("i", big(r));
            t.push("\" FROM t1");
            name = "identifier_quoted_huge";
        }
        15 => {
            t.push("SELECT ");
            t.rep("i", big(r));
            t.push(" FROM t1");
            name = "identifier_bare_huge";
        }
        16 => {
            t.push("CREATE TABLE ");
            t.rep("n", [64, 255, 256, 4096, 65536][r.below(5) as usize]);
            t.push(" (");
            t.rep("c", [64, 255, 256, 4096, 65536][r.below(5) as usize]);
            t.push(" INT)");
            name = "identifier_create_table";
        }
        17 => {
            t.push("SELECT ");
            t.rep("9", big(r));
            name = "number_many_digits";
        }
        18 => {
            t.push("SELECT 0.");
            t.rep("0", big(r));
            t.push("1, 1");
            t.rep("0", 400);
            t.push(".5, 1e");
            t.rep("9", 30);
            name = "float_many_digits";
        }
        19 => {
            t.push("SELECT");
            t.rep(" ", big(r));
            t.push("1");
            name = "whitespace_huge";
        }
        20 => {
            t.push("SELECT 1 /*");
            t.rep("c", big(r));
            t.push("*/ + 1 --");
            t.rep("d", 4096);
            name = "comment_huge";
        }
        21 => {
            t.push("SELECT id FROM t1 WHERE a IN (0");
            t.rep(", 1", [100, 5000, 20000][r.below(3) as usize]);
            t.push(")");
            name = "in_list_long";
        }
        22 => {
            t.push("SELECT 1");
            t.rep(", 1", [100, 2000, 5000][r.below(3) as usize]);
            name = "select_list_long";
        }
        23 => {
            t.push("CREATE TABLE wide (c0 INT");
            let n = [100usize, 1000, 2000][r.below(3) as usize];
            let mut s = String::new();
            for i in 1..n {
                s.push_str(&format!(", c{} INT", i));
            }
            t.push(s);
            t.push(")");
            name = "create_table_wide";
        }
        24 => {
            t.push("INSERT INTO t5 (k, v) VALUES ('w', 1, 2");
            t.rep(", 3", 5000);
            t.push(")");
            name = "insert_values_too_wide";
        }
        25 => {
            t.push("SELECT x'");
            t.rep("ab", big(r) / 2);
            t.push("', LENGTH(x'");
            t.rep("0", 1001);
            t.push("')");
            name = "hex_literal_huge";
        }
        26 => {
            t.push("INSERT INTO t4 (id, j) VALUES (9004, '[0");
            t.rep(", 1", [100, 10000, 200000][r.below(3) as usize]);
            t.push("]')");
            name = "jsonb_literal_long";
        }
        27 => {
            t.push("INSERT INTO t3 (title, emb) VALUES ('big', '[1");
            t.rep(", 1", [3, 4, 1000, 100000][r.below(4) as usize]);
            t.push("]')");
            name = "vector_literal_long";
        }
        28 => {
            t.push("SELECT id FROM t3 ORDER BY emb <-> '[1");
            t.rep(", 1", [0, 2, 3, 4, 1000][r.below(5) as usize]);
            t.push("]' LIMIT 3");
            name = "vector_query_dims";
        }
        29 => {
            t.push(["", " ", "\n", ";", ";;", " ; ", "--", "-- comment", "/**/", "/* */ ;", "\t\r\n", "\u{feff}", "\u{0}"][r.below(13) as usize]);
            name = "empty_input";
        }
        30 => {
            t.push(["SELECT ''", "SELECT '' || ''", "SELECT \"\" FROM t1", "SELECT `` FROM t1", "INSERT INTO t5 (k, v) VALUES ('', 0)", "SELECT * FROM t5 WHERE k = ''", "SELECT LENGTH(''), UPPER(''), SUBSTR('', 0, 0), REPEAT('', 0), LPAD('', 0, ''), REPLACE('', '', ''), INSTR('', ''), ASCII(''), REVERSE('')", "SELECT '' LIKE '', '' LIKE '%', 'a' LIKE '' ESCAPE ''", "SELECT CAST('' AS INT), CAST('' AS DOUBLE), CAST('' AS DATE), CAST('' AS JSONB), CAST('' AS VECTOR(4)), CAST('' AS UUID), CAST('' AS BOOLEAN)", "CREATE TABLE \"\" (\"\" INT)", "SELECT x''", "PRAGMA wal = ''", "SELECT 1 AS \"\""][r.below(13) as usize]);
            name = "empty_strings";
        }
        31 => {
            t.push(["SELECT 'abc", "SELECT \"abc", "SELECT `abc", "SELECT /* abc", "SELECT 1 /* a /* b */", "SELECT 1 -- x", "SELECT $$abc", "SELECT $tag$abc$tag", "SELECT x'ab", "SELECT 'a''", "SELECT 'a\\", "SELECT E'\\", "SELECT 'é", "SELECT \"é", "SELECT '😀", "SELECT 1 /*😀", "SELECT $é$", "SELECT '", "SELECT \"", "'", "\"", "`", "/*", "$$", "$a", "x'", "0x", "1e", "SELECT 1.", "SELECT .", "SELECT @", "SELECT :", "SELECT $", "SELECT #", "SELECT \\", "SELECT !", "SELECT |", "SELECT &", "SELECT <", "SELECT <-", "SELECT -", "SELECT /"][r.below(42) as usize]);
            name = "unterminated";
        }
        32 => {
            t.push(["SELECT \"值\" FROM \"ünï\"", "SELECT ключ FROM ünï", "SELECT \"值\", \"ключ\" FROM \"ünï\" WHERE \"值\" = 'ü' ORDER BY \"ключ\"", "CREATE TABLE 表 (列 INT)", "CREATE TABLE \"😀\" (\"😀\" INT, \"\u{200b}\" TEXT)", "SELECT 1 AS é", "SELECT 1 AS \"é\u{301}\"", "SELECT 1😀", "SELECT a😀 FROM t1", "SELECT 'a'é", "SELECT 1 +é 2", "SELECT é.* FROM t1 é", "SELECT * FROM t1 AS \"ü\" WHERE \"ü\".id = 1", "ALTER TABLE \"ünï\" RENAME COLUMN \"值\" TO \"价值\"", "CREATE INDEX \"ü_ix\" ON \"ünï\" (\"ключ\")", "INSERT INTO \"ünï\" VALUES (7, '\u{202e}rtl')", "SELECT UPPER('ß'), LOWER('İ'), LENGTH('😀'), CHAR_LENGTH('😀'), REVERSE('é\u{301}😀'), LEFT('😀😀', 1), RIGHT('😀😀', 1), SUBSTR('😀é', 2, 1), LPAD('é', 3, '😀'), ASCII('😀')", "SELECT\u{a0}1", "SELECT\u{3000}1", "ＳＥＬＥＣＴ 1", "PRAGMA ü = é", "SAVEPOINT ü", "SELECT $é", "SELECT :é", "SELECT @é"][r.below(25) as usize]);
            name = "unicode_identifiers";
        }
        33 => {
            t.push("SELECT SUBSTR('");
            t.rep("é😀", 2000);
            t.push(["', 3, 5)", "', 2147483647, 2147483647)", "', -9223372036854775808, 9223372036854775807)", "', 0, -1)", "', 4000, 1)"][r.below(5) as usize]);
            name = "substr_multibyte";
        }
        34 => {
            t.push("SELECT 9223372036854775807 + 1, -9223372036854775807 - 2, 9223372036854775807 * 2, 4611686018427387904 * 2, -9223372036854775807 - 1, (-9223372036854775807 - 1) / -1, (-9223372036854775807 - 1) % -1, 1 / 0, 1 % 0, 1.0 / 0, 1 << 64, 1 << -1, 1 >> 64, 2 ^ 64, -(-9223372036854775807 - 1), ABS(-9223372036854775807 - 1)");
            name = "int_overflow_constants";
        }
        35 => {
            let e = ["id + 9223372036854775807", "id - 9223372036854775807", "id * 9223372036854775807", "a * 2147483647 * 2147483647 * 2147483647", "id / 0", "id % 0", "a / (a - a)", "-id", "ABS(id)", "id << 63", "s * s * s * s * s * s", "id + id", "SUM(id)", "AVG(id)", "SUM(a) * 9223372036854775807", "(id / -1)", "(id % -1)", "MOD(id, -1)", "DIV(id, -1)", "id * -1", "0 - id", "POWER(id, 2)", "ROUND(c, 400)", "CAST(c AS BIGINT)", "CAST(c * 1e10 AS INT)", "CAST(id AS INT)", "CAST(id AS SMALLINT)", "CAST(a AS SMALLINT)", "c * 1e308", "CAST(c AS DECIMAL)", "amount * 99999999999999999999", "amount * amount * amount * amount * amount"][r.below(32) as usize];
            let (tn, col) = if e.contains("amount") { ("t2", "amount") } else { ("t1", "id") };
            let form = r.below(7);
            t.push(match form {
                0 => format!("SELECT {} FROM {}", e, tn),
                1 => format!("SELECT {} FROM {} WHERE {} > 0", col, tn, e),
                2 => format!("SELECT {} FROM {} ORDER BY {}", col, tn, e),
                3 => format!("SELECT {} FROM {} ORDER BY {} DESC LIMIT 3", col, tn, e),
                4 => {
                    if e.starts_with("SUM") || e.starts_with("AVG") {
                        format!("SELECT {} FROM {} GROUP BY d", e, tn)
                    } else {
                        format!("SELECT COUNT(*) FROM {} GROUP BY {}", tn, e)
                    }
                }
                5 => {
                    if tn == "t1" {
                        format!("UPDATE t1 SET u = {} WHERE id > 50", e)
                    } else {
                        format!("UPDATE t2 SET amount = {} WHERE id > 30", e)
                    }
                }
                _ => format!("SELECT MAX({}), MIN({}) FROM {}", e, e, tn),
            });
            name = "int_overflow_columns";
        }
        36 => {
            t.push(["SELECT * FROM t1 LIMIT 0", "SELECT * FROM t1 ORDER BY a LIMIT 0", "SELECT * FROM t1 ORDER BY a LIMIT 0 OFFSET 5", "SELECT * FROM t1 ORDER BY a LIMIT 9223372036854775807 OFFSET 9223372036854775807", "SELECT * FROM t1 LIMIT -1", "SELECT * FROM t1 LIMIT 1 OFFSET -1", "SELECT * FROM t1 ORDER BY c, b, a DESC NULLS FIRST LIMIT 18446744073709551615", "SELECT * FROM t1 ORDER BY 99", "SELECT * FROM t1 ORDER BY 0", "SELECT * FROM t1 ORDER BY -1", "SELECT a FROM t1 GROUP BY 1 ORDER BY 2", "SELECT * FROM t1 OFFSET 9223372036854775807", "SELECT * FROM t1 ORDER BY c LIMIT 3 OFFSET 9223372036854775806", "SELECT DISTINCT a FROM t1 ORDER BY a LIMIT 0", "SELECT a, COUNT(*) FROM t1 GROUP BY a ORDER BY 2 DESC LIMIT 0", "SELECT * FROM t1 FETCH FIRST 0 ROWS ONLY", "SELECT * FROM t1 ORDER BY c NULLS LAST, r NULLS FIRST"][r.below(17) as usize]);
            name = "limit_offset_order_bounds";
        }
        37 => {
            t.push(["SELECT NTILE(0) OVER (ORDER BY id) FROM t1", "SELECT NTILE(-1) OVER () FROM t1", "SELECT LAG(a, 9223372036854775807) OVER (ORDER BY id) FROM t1", "SELECT LEAD(a, -9223372036854775807 - 1) OVER (ORDER BY id) FROM t1", "SELECT LAG(a, -1) OVER (ORDER BY id) FROM t1", "SELECT SUM(a) OVER (ORDER BY id ROWS BETWEEN 18446744073709551615 PRECEDING AND 18446744073709551615 FOLLOWING) FROM t1", "SELECT SUM(a) OVER (ORDER BY id ROWS BETWEEN 2 FOLLOWING AND 1 PRECEDING) FROM t1", "SELECT SUM(id) OVER (ORDER BY id) FROM t1", "SELECT AVG(id) OVER (PARTITION BY d) FROM t1", "SELECT NTH_VALUE(a, 0) OVER (ORDER BY id) FROM t1", "SELECT ROW_NUMBER() OVER (ORDER BY c), RANK() OVER (ORDER BY c DESC), DENSE_RANK() OVER (PARTITION BY d ORDER BY r) FROM t1", "SELECT SUM(a) OVER (ORDER BY id RANGE BETWEEN 9223372036854775807 PRECEDING AND CURRENT ROW) FROM t1", "SELECT FIRST_VALUE(b) OVER (PARTITION BY a ORDER BY id ROWS BETWEEN UNBOUNDED FOLLOWING AND UNBOUNDED PRECEDING) FROM t1", "SELECT COUNT(*) OVER (), SUM(s) OVER (ORDER BY s ROWS 9223372036854775808 PRECEDING) FROM t1", "SELECT ROW_NUMBER() OVER (ORDER BY ROW_NUMBER() OVER ()) FROM t1", "SELECT SUM(SUM(a)) OVER () FROM t1", "SELECT SUM(a) OVER (PARTITION BY SUM(a) OVER ()) FROM t1"][r.below(17) as usize]);
            name = "window_bounds";
        }
        38 => {
            t.push(["SELECT DATE_ADD('9999-12-31', 1)", "SELECT DATE_ADD('2024-01-01', 9223372036854775807)", "SELECT DATE_SUB('0001-01-01', 1)", "SELECT DATE_SUB('2024-01-01', -9223372036854775807 - 1)", "SELECT DATEDIFF('9999-12-31', '0001-01-01'), DATEDIFF('0000-00-00', '9999-99-99')", "SELECT LAST_DAY('2024-13-01'), LAST_DAY('0000-00-00'), LAST_DAY('9999-12-31')", "SELECT FROM_DAYS(9223372036854775807), FROM_DAYS(-1), FROM_DAYS(0), TO_DAYS('0000-00-00')", "SELECT MAKEDATE(9223372036854775807, 9223372036854775807), MAKEDATE(2024, 0), MAKEDATE(0, 1), MAKETIME(9223372036854775807, 0, 0), MAKETIME(1, 61, 61)", "SELECT SEC_TO_TIME(9223372036854775807), SEC_TO_TIME(-9223372036854775807 - 1), TIME_TO_SEC('838:59:59')", "SELECT PERIOD_ADD(9223372036854775807, 9223372036854775807), PERIOD_ADD(0, -1), PERIOD_DIFF(0, 0), PERIOD_DIFF(209912, -9223372036854775807)", "SELECT DATE_FORMAT('2024-02-29', '%'), DATE_FORMAT('2024-02-29', '%%%'), DATE_FORMAT('2024-02-29 12:00:00', '%Y%m%d%H%i%s%f%W%M%j%U%u%a%b%c%e%h%k%l%p%r%T%w%x%v%X%V%D%y'), DATE_FORMAT('x', '%Y')", "SELECT STR_TO_DATE('31/02/2024', '%d/%m/%Y'), STR_TO_DATE('', ''), STR_TO_DATE('99999999', '%Y%m%d'), STR_TO_DATE('2024', '%')", "SELECT YEAR(dt), MONTH(dt), DAY(dt), DAYNAME(dt), MONTHNAME(dt), DAYOFWEEK(dt), DAYOFYEAR(dt), QUARTER(dt), WEEK(dt), WEEKDAY(dt), YEARWEEK(dt), LAST_DAY(dt), DATE_ADD(dt, 400000), DATE_SUB(dt, 800000) FROM t4", "SELECT HOUR(tm), MINUTE(tm), SECOND(tm), MICROSECOND(tm), ADDTIME(tm, tm), SUBTIME(tm, '838:59:59'), TIMEDIFF(tm, ts), TIME_TO_SEC(tm), TIME_FORMAT(tm, '%H%i%s%f%p%r%T%h%l%k') FROM t4", "SELECT DATE(ts), TIME(ts), TIMESTAMP(dt), YEAR(ts), HOUR(ts), DATEDIFF(ts, dt), DATE_ADD(ts, 2147483647), WEEK(ts), DAYNAME(ts) FROM t4", "SELECT WEEK('0000-01-01'), WEEK('9999-12-31'), YEARWEEK('0000-01-01'), DAYOFYEAR('2023-02-30'), DAYNAME('0000-00-00'), MONTHNAME('2024-00-01'), QUARTER('2024-99-01')", "SELECT YEAR(9223372036854775807), MONTH(-1), DAY(1e308), DAYNAME(NULL), HOUR('99999999:00:00'), DATE(1e999), TIME(-1)", "SELECT dt + 1, dt - 1, dt - dt, ts - ts, dt + 9223372036854775807, ts + 9223372036854775807, tm * 2, -dt, dt * dt FROM t4", "SELECT * FROM t4 WHERE dt = '2024-02-30' OR dt < '0000-00-00' OR ts > '10000-01-01 00:00:00' OR tm = '24:00:00'", "INSERT INTO t4 (id, dt, ts, tm) VALUES (950, '10000-01-01', '9999-12-31 23:59:59.9999999', '24:00:00'), (951, '-0001-01-01', '0000-00-00 00:00:00', '-00:00:01'), (952, '2024-02-30', '2024-02-29 24:00:00', '00:60:00')", "INSERT INTO t4 (id, dt, ts, tm) VALUES (953, 2147483647, 9223372036854775807, 9223372036854775807), (954, -2147483648, -9223372036854775807, -1)", "SELECT CAST(9223372036854775807 AS DATE), CAST(-9223372036854775807 AS TIMESTAMP), CAST(9223372036854775807 AS TIME), CAST(1e300 AS DATE), CAST('5874898-01-01' AS DATE), CAST('294277-01-01 00:00:00' AS TIMESTAMP)"][r.below(22) as usize]);
            name = "datetime_bounds";
        }
        39 => {
            t.push(["SELECT CAST(id AS INT), CAST(id AS SMALLINT), CAST(id AS TINYINT), CAST(id AS REAL), CAST(id AS DECIMAL(5,2)), CAST(id AS BOOLEAN), CAST(id AS DATE), CAST(id AS TEXT), CAST(id AS VARCHAR(1)), CAST(id AS UUID), CAST(id AS JSONB), CAST(id AS VECTOR(1)) FROM t1", "SELECT CAST(b AS INT), CAST(b AS BIGINT), CAST(b AS DOUBLE), CAST(b AS DECIMAL), CAST(b AS BOOLEAN), CAST(b AS DATE), CAST(b AS TIME), CAST(b AS TIMESTAMP), CAST(b AS UUID), CAST(b AS JSONB), CAST(b AS VECTOR(4)), CAST(b AS BLOB), CAST(b AS INET), CAST(b AS POINT), CAST(b AS INTERVAL), CAST(b AS INT4RANGE), CAST(b AS INT[]) FROM t1", "SELECT CAST(c AS INT), CAST(c AS BIGINT), CAST(c AS SMALLINT), CAST(c AS REAL), CAST(c AS DECIMAL(38, 30)), CAST(c AS TEXT), CAST(c AS DATE), CAST(c AS BOOLEAN) FROM t1", "SELECT CAST(amount AS INT), CAST(amount AS BIGINT), CAST(amount AS DOUBLE), CAST(amount AS DECIMAL(2,1)), CAST(amount AS DECIMAL(38,38)), CAST(amount AS TEXT), amount + 1, amount * 1e30, amount / 0, amount % 0, -amount, ABS(amount), ROUND(amount, 50), amount = 1.0 FROM t2", "SELECT CAST(j AS TEXT), CAST(j AS INT), CAST(j AS VECTOR(4)), j -> 'a', j ->> 'a', j -> 0, j -> -1, j -> 9223372036854775807, j #> '{a,b}', j #>> '{nested,k,1}', j @> '{\"a\": 1}', j <@ j, j -> 'b' -> 2 -> 'c', j || j, j = j, j < j FROM t4", "SELECT CAST(emb AS TEXT), CAST(emb AS JSONB), CAST(emb AS VECTOR(3)), emb <-> '[1,2,3,4]', emb <=> '[0,0,0,0]', emb <#> emb, emb <-> '[1,2]', emb <-> NULL, emb <-> 1, emb + emb, emb = emb, -emb FROM t3", "SELECT CAST(uid AS TEXT), CAST(uid AS BLOB), CAST(uid AS INT), uid = uid, uid < '550e8400', uid || 'x', UPPER(uid), LENGTH(uid), CAST(bl AS TEXT), CAST(bl AS UUID), CAST(bl AS INT), LENGTH(bl), UPPER(bl), bl || bl, bl = x'00ff', SUBSTR(bl, 2, 1) FROM t4", "SELECT CAST('1' AS DECIMAL(0,0)), CAST('1' AS DECIMAL(4294967295,4294967295)), CAST('1e400' AS DECIMAL), CAST('99999999999999999999999999999999999999999999' AS DECIMAL), CAST(1 AS VARCHAR(0)), CAST('abc' AS CHAR(4294967295)), CAST('[1]' AS VECTOR(0)), CAST('[1]' AS VECTOR(4294967295)), CAST(1 AS nosuch), CAST(NULL AS INT[][])", "SELECT d + 1, d * d, -d, d AND 1, d OR 'x', NOT d, d = 1, d < TRUE, SUM(d), AVG(d), MAX(d), CAST(d AS INT), CAST(d AS TEXT), CAST(d AS DATE) FROM t1 GROUP BY d", "SELECT a + b, a || b, a + c, a * r, s + id, s * s, b + 1, b * 2, -b, b / 0, b % 2, b & 1, b | 1, b << 1, ~b, a & id, a | s, a # u, a << s, a >> id, ~a, a ^ 2, a ^ 64, 2 ^ a, c % 2, c & 1, c << 1, ~c FROM t1"][r.below(10) as usize]);
            name = "casts_and_type_mixing";
        }
        40..=59 => {
            // size arguments far outside anything satisfiable: must be an error (or NULL), not an abort/hang
            let huge = ["9223372036854775807", "1099511627776", "4611686018427387904", "18446744073709551615", "1e300", "-9223372036854775807 - 1"][r.below(6) as usize];
            let f = match k {
                40 => format!("REPEAT('ab', {})", huge),
                41 => format!("REPEAT('', {})", huge),
                42 => format!("LPAD('x', {}, 'yz')", huge),
                43 => format!("RPAD('x', {}, 'yz')", huge),
                44 => format!("LPAD('x', {}, '')", huge),
                45 => format!("SPACE({})", huge),
                46 => format!("SUBSTR('abcdef', {}, {})", huge, huge),
                47 => format!("LEFT('abcdef', {}), RIGHT('abcdef', {})", huge, huge),
                48 => format!("FORMAT(1.5, {})", huge),
                49 => format!("ROUND(1.5, {}), TRUNCATE(1.5, {}), ROUND(1.5, -{})", huge, huge, huge),
                50 => format!("INSERT('abcdef', {}, {}, 'x')", huge, huge),
                51 => format!("SUBSTRING_INDEX('a,b,c', ',', {})", huge),
                52 => format!("CONV('zz', 36, {}), CONV('1', {}, 2), BIN({})", huge, huge, huge),
                53 => format!("POWER(10, {}), POW({}, {}), EXP({}), 10 ^ {}", huge, huge, huge, huge, huge),
                54 => format!("LOCATE('a', 'banana', {}), INSTR('banana', 'a'), FIELD({}, 1, 2), FIND_IN_SET('a', 'a,b')", huge, huge),
                55 => format!("MOD({}, -1), MOD({}, 0), DIV({}, -1), DIV({}, 0), SIGN({}), ABS({}), CEIL({}), FLOOR({})", huge, huge, huge, huge, huge, huge, huge, huge),
                56 => format!("CONCAT_WS(',', REPEAT('a', 300), REPEAT('b', 300)), LENGTH(REPEAT('😀', 300)), REPEAT(REPEAT('a', 10), {})", huge),
                57 => format!("LOG({}), LOG(0), LOG(-1), LN(0), LOG2(0), LOG10(-{}), SQRT(-1), ASIN(2), ACOS(-2), COT(0), ATAN2(0, 0), TAN({}), DEGREES({}), RADIANS({})", huge, huge, huge, huge, huge),
                58 => format!("GREATEST({}, 'a', NULL, 1.5), LEAST(), GREATEST(), COALESCE(), IF(), IFNULL(1), NULLIF(1), CONCAT(), CONCAT_WS(), TYPEOF(), IF(1, 2, 3, 4)", huge),
                _ => format!("RAND({}), RAND(-1), RAND('a'), PI(1), NOW(1), NOW({}), CURDATE(1), VERSION(1), DATABASE(1)", huge, huge),
            };
            t.push(if f.starts_with("INSERT(") || r.chance(2, 3) { format!("SELECT {}", f) } else { format!("SELECT {} FROM t5 WHERE k = 'a'", f) });
            name = "unsatisfiable_size_arguments";
        }
        _ => unreachable!(),
    }
    case.tag = format!("huge:{}", name);
    case.steps.push(entry_step(r, t));
}

fn gen_bytes(r: &mut Rng, case: &mut Case) {
    let flavour = r.below(8);
    let len = match r.below(10) {
        0 => 0,
        1..=5 => 1 + r.below(40) as usize,
        6..=8 => 40 + r.below(300) as usize,
        _ => 1000 + r.below(8000) as usize,
    };
    let s: String = match flavour {
        0 | 1 => String::from_utf8_lossy(&r.bytes(len)).to_string(),
        2 => r.bytes(len).iter().map(|b| (0x20 + b % 0x5f) as char).collect(),
        3 => {
            // SQL-ish alphabet
            let alpha: Vec<char> = "'\"`()[]{},;.*=<>!+-/%|&^~#@$:?\\ \n\t0123456789eExXselctfromwhainuSELCTFROMWHAINU_é😀\u{0}".chars().collect();
            (0..len).map(|_| alpha[r.below(alpha.len() as u64) as usize]).collect()
        }
        4 => {
            // random dictionary words
            let n = 1 + len / 6;
            let v: Vec<&str> = (0..n).map(|_| DICT[r.below(DICT.len() as u64) as usize]).collect();
            v.join(if r.chance(1, 8) { "" } else { " " })
        }
        _ => {
            // a valid statement with random bytes spliced in / overwritten at a random position
            let base = {
                let mut g = G::new(r);
                g.depth = 2;
                g.statement()
            };
            let mut b = base.into_bytes();
            for _ in 0..1 + r.below(3) {
                let pos = r.below(b.len() as u64 + 1) as usize;
                let junk = match r.below(5) {
                    0 => "é".as_bytes().to_vec(),
                    1 => "😀".as_bytes().to_vec(),
                    2 => vec![0u8],
                    _ => {
                        let n = 1 + r.below(4) as usize;
                        r.bytes(n)
                    }
                };
                if r.chance(1, 2) || pos >= b.len() {
                    for (k, x) in junk.iter().enumerate() {
                        b.insert((pos + k).min(b.len()), *x);
                    }
                } else {
                    for (k, x) in junk.iter().enumerate() {
                        if pos + k < b.len() {
                            b[pos + k] = *x;
                        }
                    }
                }
            }
            String::from_utf8_lossy(&b).to_string()
        }
    };
    case.tag = format!("bytes:f{}", flavour.min(5));
    case.steps.push(entry_step(r, Txt::lit(s)));
    if r.chance(1, 10) {
        // the same junk through prepare
        let t = case.steps[0].sql().cloned().unwrap_or_default();
        case.steps.push(Step { h: 0, op: Op::Prepare(t, vec![Round::Bind(vec![], false)]) });
    }
}

/// fill the `{}` / `{name}` / `{:>5}` placeholders of format strings harvested from the tests
fn fill_placeholders(r: &mut Rng, s: &str) -> String {
    let b = s.as_bytes();
    let mut out = String::with_capacity(s.len());
    let mut i = 0;
    let mut n = 0;
    while i < b.len() {
        if b[i] == b'{' {
            if b.get(i + 1) == Some(&b'{') {
                out.push('{');
                i += 2;
                continue;
            }
            if let Some(end) = s[i..].find('}') {
                let inner = &s[i + 1..i + end];
                if inner.len() <= 24 && !inner.contains('"') && !inner.contains(' ') {
                    n += 1;
                    // inside quotes -> a word, else a small number
                    let quoted = out.ends_with('\'') || out.ends_with('%') || out.ends_with('_');
                    if quoted {
                        out.push_str(["a", "x1", "Alice", "", "é"][r.below(5) as usize]);
                    } else if out.trim_end().to_ascii_uppercase().ends_with("FROM") || out.trim_end().to_ascii_uppercase().ends_with("INTO") || out.trim_end().to_ascii_uppercase().ends_with("TABLE") || out.trim_end().to_ascii_uppercase().ends_with("JOIN") {
                        out.push_str(["t1", "t5", "tbl"][r.below(3) as usize]);
                    } else {
                        out.push_str(&(r.below(20) + n).to_string());
                    }
                    i += end + 1;
                    continue;
                }
            }
        }
        if b[i] == b'}' && b.get(i + 1) == Some(&b'}') {
            out.push('}');
            i += 2;
            continue;
        }
        let ch_len = s[i..].chars().next().map(|c| c.len_utf8()).unwrap_or(1);
        out.push_str(&s[i..i + ch_len]);
        i += ch_len;
    }
    out
}

fn gen_mut(r: &mut Rng, case: &mut Case, corpus: &Corpus, thorough: bool) {
    if corpus.files.is_empty() {
        case.tag = "mut:empty_corpus".into();
        case.steps.push(Step::exec("SELECT 1"));
        return;
    }
    let f = &corpus.files[r.below(corpus.files.len() as u64) as usize];
    let stmts = &f.1;
    let win = (1 + r.below(5) as usize).min(stmts.len());
    let start = r.below((stmts.len() - win + 1) as u64) as usize;
    let target = start + r.below(win as u64) as usize;
    // the CREATE TABLE statements of the file that precede the window give the mutated statement its schema
    let mut pre: Vec<&String> = vec![];
    let mut seen_names = HashSet::new();
    let window_text: String = stmts[start..start + win].join(" ").to_ascii_lowercase();
    for s in stmts[..start].iter().rev() {
        if pre.len() >= 3 {
            break;
        }
        let up = s.trim_start().to_ascii_uppercase();
        if up.starts_with("CREATE TABLE") {
            let toks = tokenize(s);
            let name = toks.iter().skip(2).find(|t| !["IF", "NOT", "EXISTS"].contains(&t.to_ascii_uppercase().as_str())).cloned().unwrap_or_default().to_ascii_lowercase();
            if !name.is_empty() && window_text.contains(&name) && seen_names.insert(name) {
                pre.push(s);
            }
        }
    }
    pre.reverse();
    for s in pre {
        case.steps.push(Step::exec(fill_placeholders(r, s)));
    }
    let donor_stmt = &stmts[r.below(stmts.len() as u64) as usize];
    let donor = tokenize(donor_stmt);
    let mut kinds_all: Vec<&'static str> = vec![];
    for (k, s) in stmts[start..start + win].iter().enumerate() {
        let filled = fill_placeholders(r, s);
        if start + k == target || r.chance(1, 6) {
            let mut toks = tokenize(&filled);
            let n = if thorough {
                match r.below(10) {
                    0..=4 => 1,
                    5..=7 => 2 + r.below(2) as usize,
                    _ => 4 + r.below(5) as usize,
                }
            } else {
                1 + r.below(3) as usize
            };
            let kinds = mutate_tokens(r, &mut toks, n, Some(&donor));
            kinds_all.extend(kinds);
            case.steps.push(entry_step(r, Txt::lit(join_tokens(&toks))));
        } else {
            case.steps.push(Step::exec(filled));
        }
    }
    kinds_all.sort();
    kinds_all.dedup();
    case.tag = format!("mut:{}:{}", stmt_kind(&Txt::lit(stmts[target].clone())), kinds_all.join("+"));
}

fn gen_param(r: &mut Rng, huge_ok: bool) -> P {
    let f = |x: f64| x.to_bits();
    match r.below(34) {
        0 | 1 => P::Null,
        2 => P::Bool(r.chance(1, 2)),
        3..=6 => P::Int(r.range(-5, 70)),
        7 | 8 => P::Int([i64::MAX, i64::MIN, i64::MIN + 1, 2147483647, 2147483648, -2147483649, 32768, 4294967296, 0][r.below(9) as usize]),
        9 | 10 => P::Float([f(0.0), f(-0.0), f(1.5), f(f64::NAN), f(f64::INFINITY), f(f64::NEG_INFINITY), f(f64::MAX), f(f64::MIN_POSITIVE), f(5e-324), f(1e19), f(-9.3e18)][r.below(11) as usize]),
        11..=14 => P::Text(Txt::lit(["", "a", "abc", "héllo ✓", "O'Brien", "'; DROP TABLE t1; --", "?", "$1", "12", "2024-02-29", "[1,2,3,4]", "{\"a\": 1}", "\u{0}", "a\u{0}b", "%", "\\", "550e8400-e29b-41d4-a716-446655440000", "12:34:56", "name3"][r.below(19) as usize])),
        15 => {
            let mut t = Txt::default();
            t.rep(["x", "é", "'", "\u{0}", "ab"][r.below(5) as usize], if huge_ok { [1000, 65536, 1 << 20][r.below(3) as usize] } else { 1000 });
            P::Text(t)
        }
        16 => P::Blob(Txt::lit(["", "\u{0}\u{1}", "blob", "\u{7f}"][r.below(4) as usize])),
        17 => {
            let mut t = Txt::default();
            t.rep("\u{0}", if huge_ok { [4096, 1 << 20][r.below(2) as usize] } else { 4096 });
            P::Blob(t)
        }
        18 => P::Vector([1.0f32, 0.0, f32::NAN, f32::INFINITY, -1e38][r.below(5) as usize].to_bits(), [0, 1, 3, 4, 4, 4, 5, 1000, if huge_ok { 100000 } else { 1000 }][r.below(9) as usize]),
        19 => P::Date([0, 1, -1, 19782, i32::MAX, i32::MIN, 2932896, -719162, 2932897][r.below(9) as usize]),
        20 => P::Time([0, 1, -1, 86_399_999_999, 86_400_000_000, i64::MAX, i64::MIN][r.below(7) as usize]),
        21 => P::Timestamp([0, 1, -1, 1_709_210_096_000_000, i64::MAX, i64::MIN, 253_402_300_799_999_999, -62_135_596_800_000_000][r.below(8) as usize]),
        22 => P::TimestampTz([0, i64::MAX, i64::MIN, 1_709_210_096_000_000][r.below(4) as usize], [0, 3600, -3600, i32::MAX, i32::MIN, 86400][r.below(6) as usize]),
        23 => P::Uuid(r.below(256) as u8),
        24 => P::MacAddr(r.below(256) as u8),
        25 => {
            if r.chance(1, 2) {
                P::Inet4(r.below(256) as u8)
            } else {
                P::Inet6(r.below(256) as u8)
            }
        }
        26 => P::Interval([0, i64::MAX, i64::MIN, 1][r.below(4) as usize], [0, i32::MAX, i32::MIN][r.below(3) as usize], [0, i32::MAX, i32::MIN, 12][r.below(4) as usize]),
        27 => P::Point(f(f64::NAN), f(1.0)),
        28 => {
            if r.chance(1, 2) {
                P::GeoBox(f([0.0, f64::NAN, f64::INFINITY][r.below(3) as usize]))
            } else {
                P::Circle(f([1.0, -1.0, f64::NAN][r.below(3) as usize]))
            }
        }
        // Jsonb/ToastPointer carry *internal* encodings: arbitrary bytes there are the decoders' concern (C23);
        // here only empty / tiny payloads, i.e. what a caller can build without internal knowledge
        29 => P::Jsonb(Txt::lit(["", "{}", "\u{0}"][r.below(3) as usize])),
        30 => P::Decimal([0, 1, -1, i128::MAX, i128::MIN, 12345, 10i128.pow(38)][r.below(7) as usize], [0, 2, -2, i16::MAX, i16::MIN, 38, 39][r.below(7) as usize]),
        31 => P::Enum([0, 1, u16::MAX][r.below(3) as usize], [0, 1, u16::MAX][r.below(3) as usize]),
        32 => P::Toast(Txt::lit(["", "\u{0}\u{0}\u{0}\u{0}", "x"][r.below(3) as usize])),
        _ => P::Int(r.range(1, 60)),
    }
}

/// a parameter fitting the column class most of the time
fn gen_param_for(r: &mut Rng, class: char, huge_ok: bool) -> P {
    if r.chance(1, 4) {
        return gen_param(r, huge_ok);
    }
    match class {
        'i' => P::Int(if r.chance(1, 5) { [i64::MAX, i64::MIN, 2147483648, -1, 0][r.below(5) as usize] } else { r.range(1, 100000) }),
        'f' | 'n' => P::Float((r.range(-1000, 1000) as f64 / 8.0).to_bits()),
        't' => P::Text(Txt::lit(format!("p{}", r.below(100000)))),
        'b' => P::Bool(r.chance(1, 2)),
        'd' => {
            if r.chance(1, 2) {
                P::Text(Txt::lit("2024-02-29"))
            } else {
                P::Date(r.range(-1000, 30000) as i32)
            }
        }
        's' => {
            if r.chance(1, 2) {
                P::Text(Txt::lit("2024-02-29 12:34:56"))
            } else {
                P::Timestamp(r.range(0, 2_000_000_000) * 1_000_000)
            }
        }
        'm' => {
            if r.chance(1, 2) {
                P::Text(Txt::lit("12:34:56"))
            } else {
                P::Time(r.range(0, 86_399) * 1_000_000)
            }
        }
        'j' => P::Text(Txt::lit("{\"p\": [1, 2]}")),
        'v' => {
            if r.chance(1, 2) {
                P::Text(Txt::lit("[1, 2, 3, 4]"))
            } else {
                P::Vector(1.5f32.to_bits(), 4)
            }
        }
        'u' => {
            if r.chance(1, 2) {
                P::Text(Txt::lit("550e8400-e29b-41d4-a716-446655440099"))
            } else {
                P::Uuid(r.below(256) as u8)
            }
        }
        'x' => P::Blob(Txt::lit("bl")),
        _ => gen_param(r, huge_ok),
    }
}

/// statement with placeholders + the classes of the placeholders (for well-typed vectors)
fn param_statement(r: &mut Rng) -> (String, Vec<char>) {
    let t = r.below(5) as usize;
    let tab = &TABS[t];
    let ph = |r: &mut Rng, k: usize| -> String {
        match r.below(14) {
            0 => format!("${}", k + 1),
            1 => format!("?{}", k + 1),
            2 => [":p", "@p", "$0", "$99", "$4294967296"][r.below(5) as usize].to_string(),
            _ => "?".to_string(),
        }
    };
    match r.below(12) {
        0..=3 => {
            let cols = tab.cols;
            let v: Vec<String> = (0..cols.len()).map(|k| ph(r, k)).collect();
            let ret = if r.chance(1, 4) { " RETURNING *" } else { "" };
            let conflict = if r.chance(1, 6) { format!(" ON CONFLICT ({}) DO UPDATE SET {} = ?", cols[0].0, cols[1].0) } else { String::new() };
            let mut classes: Vec<char> = cols.iter().map(|c| c.1).collect();
            if !conflict.is_empty() {
                classes.push(cols[1].1);
            }
            (format!("INSERT INTO {} ({}) VALUES ({}){}{}", tab.name, cols.iter().map(|c| c.0).collect::<Vec<_>>().join(", "), v.join(", "), conflict, ret), classes)
        }
        4 | 5 => {
            let c = tab.cols[r.below(tab.cols.len() as u64) as usize];
            let c2 = tab.cols[r.below(tab.cols.len() as u64) as usize];
            (format!("SELECT * FROM {} WHERE {} {} {} {} {} = {}", tab.name, c.0, ["=", "<", ">=", "<>", "LIKE"][r.below(5) as usize], ph(r, 0), ["AND", "OR"][r.below(2) as usize], c2.0, ph(r, 1)), vec![c.1, c2.1])
        }
        6 => {
            let c = tab.cols[1 + r.below(tab.cols.len() as u64 - 1) as usize];
            (format!("UPDATE {} SET {} = {} WHERE {} = {}{}", tab.name, c.0, ph(r, 0), tab.cols[0].0, ph(r, 1), if r.chance(1, 4) { " RETURNING *" } else { "" }), vec![c.1, tab.cols[0].1])
        }
        7 => (format!("DELETE FROM {} WHERE {} = {} OR {} IN ({}, {})", tab.name, tab.cols[0].0, ph(r, 0), tab.cols[0].0, ph(r, 1), ph(r, 2)), vec![tab.cols[0].1; 3]),
        8 => (format!("SELECT {} FROM {} ORDER BY {} LIMIT {} OFFSET {}", tab.cols[0].0, tab.name, tab.cols[0].0, ph(r, 0), ph(r, 1)), vec!['i', 'i']),
        9 => (format!("SELECT {}, {} + {}, UPPER({}), COALESCE({}, {}), CAST({} AS {})", ph(r, 0), ph(r, 1), ph(r, 2), ph(r, 3), ph(r, 4), ph(r, 5), ph(r, 6), TYPES[r.below(TYPES.len() as u64) as usize]), vec!['x', 'i', 'i', 't', 'x', 'x', 'x']),
        10 => {
            let sql = {
                let mut g = G::new(r);
                g.params = true;
                g.depth = 2;
                let s = g.statement();
                s
            };
            let n = tokenize(&sql).iter().filter(|t| t.as_str() == "?" || t.starts_with('$') || t.starts_with(':') || t.starts_with('@')).count();
            (sql, vec!['x'; n])
        }
        _ => {
            const FIXED: &[&str] = &["SELECT '?', \"?\", ? -- ?", "SELECT ? /* ? */ + ?", "SELECT $1, $1, $2", "SELECT $2", "SELECT ?, $1, :a, @b", "PRAGMA join_memory_budget = ?", "CREATE TABLE pt (a INT DEFAULT ?)", "SELECT * FROM t1 LIMIT ?", "SELECT ? FROM t1 GROUP BY ? ORDER BY ?", "SELECT id FROM t3 ORDER BY emb <-> ? LIMIT 2", "INSERT INTO t4 (id, j) VALUES (?, ?)", "EXPLAIN SELECT * FROM t1 WHERE id = ?", "BEGIN", "SAVEPOINT ?", "SELECT ??", "SELECT ?::INT", "SELECT * FROM t1 WHERE id IN (?)", "SELECT * FROM t1 WHERE b LIKE ? ESCAPE ?"];
            let s = FIXED[r.below(FIXED.len() as u64) as usize];
            let n = s.matches('?').count() + s.matches('$').count();
            (s.to_string(), vec!['x'; n])
        }
    }
}

fn param_vector(r: &mut Rng, classes: &[char], huge_ok: bool) -> Vec<P> {
    let n = classes.len();
    let len = match r.below(12) {
        0 => 0,
        1 => n.saturating_sub(1),
        2 => n + 1,
        3 => [16, 17, 100, 1000][r.below(4) as usize],
        _ => n,
    };
    (0..len).map(|k| if k < n { gen_param_for(r, classes[k], huge_ok) } else { gen_param(r, huge_ok) }).collect()
}

fn gen_params(r: &mut Rng, case: &mut Case) {
    let (sql, classes) = param_statement(r);
    let mode = r.below(10);
    case.tag = format!("params:{}:{}", stmt_kind(&Txt::lit(sql.clone())), if mode < 5 { "execute_with_params" } else { "prepared" });
    if mode < 5 {
        let n = 1 + r.below(3);
        for _ in 0..n {
            let ps = param_vector(r, &classes, true);
            case.steps.push(Step { h: 0, op: Op::ExecParams(Txt::lit(sql.clone()), ps) });
        }
    } else {
        let mut rounds = vec![];
        let n = 1 + r.below(5);
        for k in 0..n {
            if r.chance(1, 7) {
                rounds.push(Round::Exec(Txt::lit(["DROP TABLE t1", "ALTER TABLE t1 DROP COLUMN b", "ALTER TABLE t2 ADD COLUMN z INT", "TRUNCATE TABLE t5", "BEGIN", "ROLLBACK", "CREATE INDEX pix ON t2 (qty)", "DROP INDEX t1_a", "ALTER TABLE t1 RENAME TO t1r", "PRAGMA wal = ON", "PRAGMA wal = OFF", "DELETE FROM t1"][r.below(12) as usize])));
            }
            rounds.push(Round::Bind(param_vector(r, &classes, k == 0), r.chance(1, 3)));
        }
        case.steps.push(Step { h: 0, op: Op::Prepare(Txt::lit(sql), rounds) });
        if r.chance(1, 3) {
            case.steps.push(Step::query("SELECT COUNT(*) FROM t2"));
        }
    }
}

fn api_sql(r: &mut Rng) -> String {
    match r.below(16) {
        0 => "BEGIN".into(),
        1 => "COMMIT".into(),
        2 => "ROLLBACK".into(),
        3 => format!("SAVEPOINT sp{}", r.below(3)),
        4 => format!("ROLLBACK TO SAVEPOINT sp{}", r.below(3)),
        5 => format!("RELEASE sp{}", r.below(3)),
        6 | 7 => format!("INSERT INTO t5 (k, v) VALUES ('api{}', {})", r.below(50), r.below(100)),
        8 => format!("UPDATE t5 SET v = v + 1 WHERE k = 'api{}'", r.below(50)),
        9 => format!("DELETE FROM t5 WHERE k = 'api{}'", r.below(50)),
        10 => "SELECT COUNT(*), SUM(v) FROM t5".into(),
        11 => format!("INSERT INTO t2 (id, name, qty) VALUES ({}, 'api', 1)", 100 + r.below(200)),
        12 => ["PRAGMA wal = ON", "PRAGMA wal = OFF", "PRAGMA wal_checkpoint", "PRAGMA synchronous = NORMAL", "PRAGMA wal_autoflush = OFF", "PRAGMA wal_checkpoint_threshold = 1", "PRAGMA recover_wal"][r.below(7) as usize].into(),
        13 => ["CREATE TABLE apit (a INT PRIMARY KEY, b TEXT)", "DROP TABLE IF EXISTS apit", "INSERT INTO apit VALUES (1, 'x')", "CREATE INDEX apix ON apit (b)", "ALTER TABLE apit ADD COLUMN c INT", "TRUNCATE TABLE apit", "DROP TABLE t5"][r.below(7) as usize].into(),
        14 => "SELECT t1.id, t2.name FROM t1 JOIN t2 ON t1.id = t2.t1_id ORDER BY 1 LIMIT 5".into(),
        _ => {
            let mut g = G::new(r);
            g.depth = 2;
            g.budget = 3000;
            g.statement()
        }
    }
}

fn api_rows(r: &mut Rng, table: &str) -> Vec<Vec<P>> {
    let t = TABS.iter().find(|t| t.name == table);
    let n = [0, 1, 1, 2, 5, 20][r.below(6) as usize];
    (0..n)
        .map(|k| match t {
            Some(tab) => {
                let mut row: Vec<P> = tab.cols.iter().map(|c| if c.0 == "id" { P::Int(5000 + r.below(100000) as i64) } else if c.0 == "k" { P::Text(Txt::lit(format!("b{}", r.below(100000)))) } else { gen_param_for(r, c.1, false) }).collect();
                match r.below(14) {
                    0 => {
                        row.pop();
                    }
                    1 => row.push(P::Int(1)),
                    2 => row.clear(),
                    _ => {}
                }
                row
            }
            None => vec![P::Int(k as i64)],
        })
        .collect()
}

fn api_step(r: &mut Rng, nh: u8, in_thread: bool) -> Step {
    let h = if nh <= 1 || r.chance(1, 2) { 0 } else { r.below(nh as u64 + 1) as u8 }; // may be one past the end: ignored by the runner
    let table = ["t5", "t2", "t1", "t3", "t4", "nosuch", "root.t5", "nosuch.t5", "", ".", "t5."][r.below(11) as usize].to_string();
    let op = match r.below(40) {
        0..=15 => Op::Exec(Txt::lit(api_sql(r))),
        16..=19 => Op::Query(Txt::lit(api_sql(r))),
        20 => Op::QueryCols(Txt::lit(api_sql(r))),
        21 | 22 => {
            let (sql, cl) = param_statement(r);
            let ps = param_vector(r, &cl, false);
            Op::ExecParams(Txt::lit(sql), ps)
        }
        23 | 24 => {
            let (sql, cl) = param_statement(r);
            let rounds = (0..1 + r.below(3)).map(|_| Round::Bind(param_vector(r, &cl, false), r.chance(1, 3))).collect();
            Op::Prepare(Txt::lit(sql), rounds)
        }
        25..=27 => {
            let rows = api_rows(r, &table);
            Op::InsertBatch(table, rows)
        }
        28 | 29 => {
            let rows = api_rows(r, &table);
            Op::BulkInsert(table, rows)
        }
        30 | 31 => Op::Checkpoint,
        32 => Op::CheckpointWal,
        33 | 34 => Op::Close,
        35 | 36 => Op::CloneHandle,
        37 => Op::DropHandle,
        38 if !in_thread => Op::ReopenAll,
        _ => Op::Exec(Txt::lit("SELECT COUNT(*) FROM t5")),
    };
    Step { h, op }
}

fn gen_api(r: &mut Rng, case: &mut Case) {
    let n = 4 + r.below(18) as usize;
    let mut nh: u8 = 1;
    let threads_at = if r.chance(2, 5) { Some(r.below(n as u64) as usize) } else { None };
    for k in 0..n {
        if Some(k) == threads_at {
            let nt = 2 + r.below(3) as usize;
            let ts: Vec<Vec<Step>> = (0..nt)
                .map(|_| {
                    let m = 2 + r.below(8) as usize;
                    let mut lh = 1u8;
                    (0..m)
                        .map(|_| {
                            let s = api_step(r, lh, true);
                            if s.op == Op::CloneHandle {
                                lh += 1;
                            }
                            s
                        })
                        .collect()
                })
                .collect();
            case.steps.push(Step { h: 0, op: Op::Threads(ts) });
            continue;
        }
        let s = api_step(r, nh, false);
        match s.op {
            Op::CloneHandle => nh = nh.saturating_add(1).min(6),
            Op::ReopenAll => nh = 1,
            _ => {}
        }
        case.steps.push(s);
    }
    let mut ops: Vec<&str> = case.steps.iter().map(|s| s.op_name()).collect();
    ops.sort();
    ops.dedup();
    case.tag = format!("api:{}", ops.join("+"));
}

pub const UNIT_NAMES: &[&str] = &["gram", "func", "deep", "huge", "mut", "bytes", "params", "api"];

pub fn gen_case(env: &Env, unit: &str, idx: u64) -> Case {
    let mut r = case_rng(env.seed, unit, idx);
    let thorough = env.tier == "thorough";
    let mut case = Case { unit: unit.to_string(), idx, wal: r.chance(1, 2), tag: String::new(), kind: None, steps: vec![] };
    match unit {
        "gram" => gen_gram(&mut r, &mut case),
        "func" => gen_func(&mut r, &mut case),
        "deep" => gen_deep(&mut r, &mut case, thorough),
        "huge" => gen_huge(&mut r, &mut case),
        "mut" => gen_mut(&mut r, &mut case, &env.corpus, thorough),
        "bytes" => gen_bytes(&mut r, &mut case),
        "params" => gen_params(&mut r, &mut case),
        _ => gen_api(&mut r, &mut case),
    }
    case
}

// ------------------------------------------------------------------------------------------
// case execution
// ------------------------------------------------------------------------------------------
#[derive(Clone, Debug)]
pub struct Failure {
    pub step: usize,
    /// position inside the step ("", "prepare", "round2", "thread1.step3")
    pub sub: String,
    pub entry: String,
    pub kind: String,
    pub site: String,
    pub msg: String,
    pub in_thread: bool,
}

#[derive(Default, Clone, Debug)]
pub struct Outcome {
    /// per call: "<op>:<ok variant | err class | panic>"
    pub classes: Vec<String>,
    pub failure: Option<Failure>,
    pub calls: u64,
    pub ok: u64,
    pub err: u64,
    pub parse_err: u64,
    pub setup_problem: Option<String>,
}

pub const CHILD_STACK: usize = 8 << 20;

fn err_class(e: &eyre::Report) -> String {
    let s = format!("{:#}", e);
    let parse = s.starts_with("failed to parse");
    let tail = s.rsplit(": ").next().unwrap_or(&s);
    let short: String = tail.chars().filter(|c| c.is_ascii_alphabetic() || *c == ' ').take(22).collect();
    format!("{}{}", if parse { "P:" } else { "E:" }, short)
}

fn result_class(r: &ExecuteResult) -> &'static str {
    match r {
        ExecuteResult::Select { .. } => "select",
        ExecuteResult::Insert { .. } => "insert",
        ExecuteResult::Update { .. } => "update",
        ExecuteResult::Delete { .. } => "delete",
        ExecuteResult::Truncate { .. } => "truncate",
        ExecuteResult::Explain { .. } => "explain",
        ExecuteResult::Pragma { .. } => "pragma",
        _ => "other",
    }
}

struct Exec<'a> {
    case: &'a Case,
    path: PathBuf,
    out: Outcome,
    /// label prefix published in the black box (None inside threads: only heartbeats)
    bb: Option<&'a BlackBox>,
    in_thread: bool,
}

impl<'a> Exec<'a> {
    fn note<T>(&mut self, op: &str, r: Result<eyre::Result<T>, (String, String)>, cls: impl Fn(&T) -> &'static str) -> Result<Option<T>, (String, String)> {
        self.out.calls += 1;
        match r {
            Ok(Ok(v)) => {
                self.out.ok += 1;
                self.out.classes.push(format!("{}:{}", op, cls(&v)));
                Ok(Some(v))
            }
            Ok(Err(e)) => {
                self.out.err += 1;
                let c = err_class(&e);
                if c.starts_with("P:") {
                    self.out.parse_err += 1;
                }
                self.out.classes.push(format!("{}:{}", op, c));
                Ok(None)
            }
            Err(p) => {
                self.out.classes.push(format!("{}:panic", op));
                Err(p)
            }
        }
    }
    /// "<statement kind>|<the only SQL function named in the text, if there is exactly one>"; resolved by `fail`
    fn kind_of(&self, sql: &Txt) -> String {
        format!("{}|{}", stmt_kind(sql), single_function(sql).unwrap_or_default())
    }
    fn fail(&self, step: usize, sub: &str, entry: &str, kind: String, p: (String, String)) -> Failure {
        // a panic inside src/sql/functions is keyed by the function (when the text names exactly one), anything
        // else by the statement kind: one root cause -> one signature, whichever generator found it
        let kind = match kind.split_once('|') {
            Some((stmt, f)) => {
                if !f.is_empty() && p.0.starts_with("sql/functions/") {
                    format!("fn:{}", f)
                } else {
                    stmt.to_string()
                }
            }
            None => kind,
        };
        Failure { step, sub: sub.to_string(), entry: entry.to_string(), kind, site: p.0, msg: p.1, in_thread: self.in_thread }
    }
    /// run one step on the handle vector; Err = a panic escaped from the library
    fn step(&mut self, i: usize, st: &Step, handles: &mut Vec<Option<Database>>) -> Result<(), Failure> {
        bb_beat();
        let h = st.h as usize;
        match &st.op {
            Op::CloneHandle => {
                let r = match handles.get(h).and_then(|x| x.as_ref()) {
                    Some(db) => guard(|| db.clone()),
                    None => {
                        self.out.classes.push("clone:nohandle".into());
                        return Ok(());
                    }
                };
                self.out.calls += 1;
                match r {
                    Ok(c) => {
                        handles.push(Some(c));
                        self.out.classes.push("clone:ok".into());
                        Ok(())
                    }
                    Err(p) => Err(self.fail(i, "", "api_sequence", "clone".into(), p)),
                }
            }
            Op::DropHandle => {
                if let Some(slot) = handles.get_mut(h) {
                    if let Some(db) = slot.take() {
                        self.out.calls += 1;
                        if let Err(p) = guard(move || drop(db)) {
                            return Err(self.fail(i, "", "api_sequence", "drop".into(), p));
                        }
                        self.out.classes.push("drop:ok".into());
                    }
                }
                Ok(())
            }
            Op::ReopenAll => {
                let hs: Vec<Database> = handles.drain(..).flatten().collect();
                self.out.calls += 1;
                if let Err(p) = guard(move || drop(hs)) {
                    return Err(self.fail(i, "drop_all", "api_sequence", "drop".into(), p));
                }
                let path = self.path.clone();
                let r = guard(|| Database::open(&path));
                match self.note("reopen", r, |_| "ok") {
                    Ok(Some(db)) => {
                        handles.push(Some(db));
                        Ok(())
                    }
                    Ok(None) => Ok(()),
                    Err(p) => Err(self.fail(i, "open", "api_sequence", "open".into(), p)),
                }
            }
            Op::Threads(ts) => {
                let base = match handles.first().and_then(|x| x.as_ref()) {
                    Some(db) => db,
                    None => {
                        self.out.classes.push("threads:nohandle".into());
                        return Ok(());
                    }
                };
                let mut joins = vec![];
                for (t, steps) in ts.iter().enumerate() {
                    let db = match guard(|| base.clone()) {
                        Ok(d) => d,
                        Err(p) => return Err(self.fail(i, &format!("thread{}.clone", t), "api_sequence", "clone".into(), p)),
                    };
                    let case = self.case.clone();
                    let steps = steps.clone();
                    let path = self.path.clone();
                    let j = std::thread::Builder::new().stack_size(CHILD_STACK).name(format!("c22-t{}", t)).spawn(move || {
                        let mut ex = Exec { case: &case, path, out: Outcome::default(), bb: None, in_thread: true };
                        let mut hs: Vec<Option<Database>> = vec![Some(db)];
                        let mut failure = None;
                        for (k, s) in steps.iter().enumerate() {
                            if matches!(s.op, Op::Threads(_) | Op::ReopenAll) {
                                continue;
                            }
                            if let Err(mut f) = ex.step(k, s, &mut hs) {
                                f.sub = format!("thread{}.step{}{}{}", t, k, if f.sub.is_empty() { "" } else { "." }, f.sub);
                                failure = Some(f);
                                break;
                            }
                        }
                        let all: Vec<Database> = hs.drain(..).flatten().collect();
                        if let Err(p) = guard(move || drop(all)) {
                            if failure.is_none() {
                                failure = Some(Failure { step: 0, sub: format!("thread{}.drop", t), entry: "api_sequence".into(), kind: "drop".into(), site: p.0, msg: p.1, in_thread: true });
                            }
                        }
                        (ex.out, failure)
                    });
                    match j {
                        Ok(j) => joins.push(j),
                        Err(_) => self.out.classes.push("threads:spawn_failed".into()),
                    }
                }
                let mut first: Option<Failure> = None;
                for j in joins {
                    match j.join() {
                        Ok((o, f)) => {
                            self.out.calls += o.calls;
                            self.out.ok += o.ok;
                            self.out.err += o.err;
                            self.out.parse_err += o.parse_err;
                            // thread interleaving is not deterministic: only the multiset of classes enters the hash
                            let mut c = o.classes;
                            c.sort();
                            c.dedup();
                            self.out.classes.extend(c);
                            if first.is_none() {
                                if let Some(mut f) = f {
                                    f.step = i;
                                    first = Some(f);
                                }
                            }
                        }
                        Err(_) => {
                            if first.is_none() {
                                first = Some(Failure { step: i, sub: "thread.join".into(), entry: "api_sequence".into(), kind: "threads".into(), site: "harness:thread_panicked_outside_guard".into(), msg: String::new(), in_thread: true });
                            }
                        }
                    }
                }
                match first {
                    Some(f) => Err(f),
                    None => Ok(()),
                }
            }
            _ => {
                let db = match handles.get(h).and_then(|x| x.as_ref()) {
                    Some(db) => db,
                    None => {
                        self.out.classes.push(format!("{}:nohandle", st.op_name()));
                        return Ok(());
                    }
                };
                match &st.op {
                    Op::Exec(t) => {
                        let sql = t.render();
                        let r = guard(|| db.execute(&sql));
                        self.note("execute", r, |v| result_class(v)).map(|_| ()).map_err(|p| self.fail(i, "", "execute", self.kind_of(t), p))
                    }
                    Op::Query(t) => {
                        let sql = t.render();
                        let r = guard(|| db.query(&sql));
                        self.note("query", r, |v| if v.is_empty() { "empty" } else { "rows" }).map(|_| ()).map_err(|p| self.fail(i, "", "query", self.kind_of(t), p))
                    }
                    Op::QueryCols(t) => {
                        let sql = t.render();
                        let r = guard(|| db.query_with_columns(&sql));
                        self.note("query_with_columns", r, |v| if v.1.is_empty() { "empty" } else { "rows" }).map(|_| ()).map_err(|p| self.fail(i, "", "query", self.kind_of(t), p))
                    }
                    Op::ExecParams(t, ps) => {
                        let sql = t.render();
                        let vals: Vec<OwnedValue> = ps.iter().map(|p| p.to_owned_value()).collect();
                        let r = guard(|| db.execute_with_params(&sql, &vals));
                        self.note("execute_with_params", r, |v| result_class(v)).map(|_| ()).map_err(|p| self.fail(i, "", "execute_with_params", self.kind_of(t), p))
                    }
                    Op::Prepare(t, rounds) => {
                        let sql = t.render();
                        let r = guard(|| db.prepare(&sql));
                        let stmt = match self.note("prepare", r, |_| "ok") {
                            Ok(Some(s)) => s,
                            Ok(None) => return Ok(()),
                            Err(p) => return Err(self.fail(i, "prepare", "prepare", self.kind_of(t), p)),
                        };
                        for (k, rd) in rounds.iter().enumerate() {
                            bb_beat();
                            match rd {
                                Round::Exec(x) => {
                                    let s2 = x.render();
                                    let r = guard(|| db.execute(&s2));
                                    if let Err(p) = self.note("execute", r, |v| result_class(v)) {
                                        return Err(self.fail(i, &format!("round{}", k), "execute", stmt_kind(x), p));
                                    }
                                }
                                Round::Bind(ps, q) => {
                                    let vals: Vec<OwnedValue> = ps.iter().map(|p| p.to_owned_value()).collect();
                                    let q = *q;
                                    let stmt_ref = &stmt;
                                    let r = guard(move || -> eyre::Result<&'static str> {
                                        let mut it = vals.into_iter();
                                        match it.next() {
                                            // a BoundStatement needs at least one bind(); zero parameters go through the public cached-plan entry
                                            None => db.execute_with_cached_plan(stmt_ref, &[]).map(|v| result_class(&v)),
                                            Some(v0) => {
                                                let mut b = stmt_ref.bind(v0);
                                                for v in it {
                                                    b = b.bind(v);
                                                }
                                                if q {
                                                    b.query(db).map(|rows| if rows.is_empty() { "empty" } else { "rows" })
                                                } else {
                                                    b.execute(db).map(|v| result_class(&v))
                                                }
                                            }
                                        }
                                    });
                                    if let Err(p) = self.note(if q { "bound.query" } else { "bound.execute" }, r, |v| *v) {
                                        return Err(self.fail(i, &format!("round{}", k), "prepare", self.kind_of(t), p));
                                    }
                                }
                            }
                        }
                        self.out.calls += 1;
                        match guard(move || drop(stmt)) {
                            Ok(_) => Ok(()),
                            Err(p) => Err(self.fail(i, "drop_statement", "prepare", self.kind_of(t), p)),
                        }
                    }
                    Op::InsertBatch(table, rows) => {
                        let vals: Vec<Vec<OwnedValue>> = rows.iter().map(|r| r.iter().map(|p| p.to_owned_value()).collect()).collect();
                        let r = guard(|| db.insert_batch(table, &vals));
                        self.note("insert_batch", r, |_| "ok").map(|_| ()).map_err(|p| self.fail(i, "", "api_sequence", "insert_batch".into(), p))
                    }
                    Op::BulkInsert(table, rows) => {
                        let vals: Vec<Vec<OwnedValue>> = rows.iter().map(|r| r.iter().map(|p| p.to_owned_value()).collect()).collect();
                        let r = guard(move || db.bulk_insert(table, vals));
                        self.note("bulk_insert", r, |_| "ok").map(|_| ()).map_err(|p| self.fail(i, "", "api_sequence", "bulk_insert".into(), p))
                    }
                    Op::Checkpoint => {
                        let r = guard(|| db.checkpoint());
                        self.note("checkpoint", r, |_| "ok").map(|_| ()).map_err(|p| self.fail(i, "", "api_sequence", "checkpoint".into(), p))
                    }
                    Op::CheckpointWal => {
                        let r = guard(|| db.checkpoint_wal());
                        self.note("checkpoint_wal", r, |_| "ok").map(|_| ()).map_err(|p| self.fail(i, "", "api_sequence", "checkpoint_wal".into(), p))
                    }
                    Op::Close => {
                        let r = guard(|| db.close());
                        self.note("close", r, |_| "ok").map(|_| ()).map_err(|p| self.fail(i, "", "api_sequence", "close".into(), p))
                    }
                    _ => Ok(()),
                }
            }
        }
    }
}

/// run a case on a fresh copy of the base image
pub fn run_case(case: &Case, env: &Env, bb: Option<&BlackBox>) -> Outcome {
    let dbdir = env.work.join("db");
    if let Some(b) = bb {
        b.op("copy");
    }
    let _ = std::fs::remove_dir_all(&dbdir);
    if let Err(e) = copy_dir(&base_dir(&env.root, case.wal), &dbdir) {
        return Outcome { setup_problem: Some(format!("copy of the base image failed: {}", e)), ..Default::default() };
    }
    let mut ex = Exec { case, path: dbdir.clone(), out: Outcome::default(), bb, in_thread: false };
    if let Some(b) = bb {
        b.op("open");
    }
    let db = match guard(|| Database::open(&dbdir)) {
        Ok(Ok(db)) => db,
        Ok(Err(e)) => {
            ex.out.setup_problem = Some(format!("open of a pristine copy failed: {:#}", e));
            return ex.out;
        }
        Err(p) => {
            ex.out.failure = Some(ex.fail(0, "open", "api_sequence", "open".into(), p));
            return ex.out;
        }
    };
    let mut handles: Vec<Option<Database>> = vec![Some(db)];
    if case.wal {
        if let Some(b) = bb {
            b.op("pragma_wal");
        }
        let r = guard(|| handles[0].as_ref().unwrap().execute("PRAGMA wal = ON"));
        if let Err(p) = r {
            ex.out.failure = Some(ex.fail(0, "pragma_wal_on", "execute", "PRAGMA".into(), p));
        }
    }
    if ex.out.failure.is_none() {
        for (i, st) in case.steps.iter().enumerate() {
            if let Some(b) = bb {
                b.op(&format!("{}:{}", i, st.op_name()));
            }
            if let Err(f) = ex.step(i, st, &mut handles) {
                ex.out.failure = Some(f);
                break;
            }
        }
    }
    if let Some(b) = bb {
        b.op(&format!("{}:drop", case.steps.len()));
    }
    let all: Vec<Database> = handles.drain(..).flatten().collect();
    ex.out.calls += 1;
    if let Err(p) = guard(move || drop(all)) {
        if ex.out.failure.is_none() {
            ex.out.failure = Some(Failure { step: case.steps.len(), sub: "drop".into(), entry: "api_sequence".into(), kind: "drop".into(), site: p.0, msg: p.1, in_thread: false });
        }
    }
    ex.out
}

// ------------------------------------------------------------------------------------------
// shrinking: candidate generation is shared by the in-process shrinker (panics) and the
// parent-driven one (aborts: one child process per candidate)
// ------------------------------------------------------------------------------------------
/// flatten a failing Threads step into the sequential steps of the failing thread
fn flatten_thread(case: &Case, f: &Failure) -> Option<Case> {
    let st = case.steps.get(f.step)?;
    if let Op::Threads(ts) = &st.op {
        let t: usize = f.sub.strip_prefix("thread")?.split('.').next()?.parse().ok()?;
        let mut c = case.clone();
        let mut steps: Vec<Step> = case.steps[..f.step].to_vec();
        steps.extend(ts.get(t)?.iter().cloned());
        c.steps = steps;
        return Some(c);
    }
    None
}

/// structural candidates, most aggressive first
fn step_candidates(case: &Case, fail_step: usize) -> Vec<Case> {
    let mut out = vec![];
    let n = case.steps.len();
    if n == 0 {
        return out;
    }
    let fs = fail_step.min(n - 1);
    if n > fs + 1 {
        let mut c = case.clone();
        c.steps.truncate(fs + 1);
        out.push(c);
    }
    if fs > 0 {
        // the failing step alone, on handle 0
        let mut c = case.clone();
        let mut s = case.steps[fs].clone();
        s.h = 0;
        c.steps = vec![s];
        out.push(c);
        // drop the first half / single predecessors
        if fs >= 2 {
            let mut c = case.clone();
            c.steps = case.steps[fs / 2..=fs].to_vec();
            out.push(c);
        }
        for k in 0..fs.min(12) {
            let mut c = case.clone();
            c.steps.truncate(fs + 1);
            c.steps.remove(k);
            out.push(c);
        }
    }
    out
}

/// candidates that simplify the text / parameters of step `i`
fn text_candidates(case: &Case, i: usize, token_chunk: Option<(usize, usize)>) -> Vec<Case> {
    let mut out = vec![];
    let st = match case.steps.get(i) {
        Some(s) => s,
        None => return out,
    };
    let with_sql = |t: Txt| -> Case {
        let mut c = case.clone();
        if let Some(x) = c.steps[i].sql_mut() {
            *x = t.normalized();
        }
        c
    };
    if let Some(t) = st.sql() {
        if let Some((start, len)) = token_chunk {
            let s = t.render();
            let toks = tokenize(&s);
            if start < toks.len() {
                let mut v = toks.clone();
                v.drain(start..(start + len).min(toks.len()));
                out.push(with_sql(Txt::lit(join_tokens(&v))));
            }
            return out;
        }
        if t.has_rep() {
            // all repeat counts halved together (keeps nesting balanced), then to 1, then one by one
            for div in [2usize, 0] {
                let mut x = t.clone();
                for s in x.0.iter_mut() {
                    if let Seg::Rep(_, n) = s {
                        *n = if div == 0 { 1 } else { (*n / div).max(1) };
                    }
                }
                if x != *t {
                    out.push(with_sql(x));
                }
            }
            for k in 0..t.0.len() {
                if let Seg::Rep(_, n) = &t.0[k] {
                    if *n > 1 {
                        let mut x = t.clone();
                        x.0[k] = Seg::Rep(match &t.0[k] { Seg::Rep(r, _) => r.clone(), _ => String::new() }, n / 2);
                        out.push(with_sql(x));
                    }
                }
            }
        }
    }
    match &st.op {
        Op::ExecParams(t, ps) if !ps.is_empty() => {
            let mut c = case.clone();
            c.steps[i].op = Op::ExecParams(t.clone(), ps[..ps.len() / 2].to_vec());
            out.push(c);
            for k in 0..ps.len().min(8) {
                if ps[k] != P::Null {
                    let mut q = ps.clone();
                    q[k] = P::Null;
                    let mut c = case.clone();
                    c.steps[i].op = Op::ExecParams(t.clone(), q);
                    out.push(c);
                }
            }
        }
        Op::Prepare(t, rounds) if !rounds.is_empty() => {
            let mut c = case.clone();
            c.steps[i].op = Op::Prepare(t.clone(), vec![]);
            out.push(c);
            if rounds.len() > 1 {
                for k in 0..rounds.len() {
                    let mut r2 = rounds.clone();
                    r2.remove(k);
                    let mut c = case.clone();
                    c.steps[i].op = Op::Prepare(t.clone(), r2);
                    out.push(c);
                }
            }
        }
        Op::InsertBatch(t, rows) | Op::BulkInsert(t, rows) if rows.len() > 1 => {
            for half in [&rows[..rows.len() / 2], &rows[rows.len() / 2..]] {
                let mut c = case.clone();
                c.steps[i].op = if matches!(st.op, Op::InsertBatch(..)) { Op::InsertBatch(t.clone(), half.to_vec()) } else { Op::BulkInsert(t.clone(), half.to_vec()) };
                out.push(c);
            }
        }
        _ => {}
    }
    out
}

/// entry-point canonicalisation candidates for the failing step: (candidate, entry name if it reproduces)
fn entry_candidates(case: &Case, f: &Failure) -> Vec<(Case, &'static str)> {
    let mut out = vec![];
    let st = match case.steps.get(f.step) {
        Some(s) => s,
        None => return out,
    };
    let (sql, params): (Txt, Option<Vec<P>>) = match &st.op {
        Op::Exec(_) => return out,
        Op::Query(t) | Op::QueryCols(t) => (t.clone(), None),
        Op::ExecParams(t, ps) => (t.clone(), Some(ps.clone())),
        Op::Prepare(t, rounds) => {
            let k: Option<usize> = f.sub.strip_prefix("round").and_then(|x| x.parse().ok());
            match k.and_then(|k| rounds.get(k)) {
                Some(Round::Bind(ps, _)) => (t.clone(), Some(ps.clone())),
                Some(Round::Exec(x)) => (x.clone(), None),
                None => (t.clone(), None),
            }
        }
        _ => return out,
    };
    let mut c = case.clone();
    c.steps.truncate(f.step + 1);
    c.steps[f.step] = Step { h: st.h, op: Op::Exec(sql.clone()) };
    out.push((c, "execute"));
    if let (Some(ps), Op::Prepare(..)) = (params, &st.op) {
        let mut c = case.clone();
        c.steps.truncate(f.step + 1);
        c.steps[f.step] = Step { h: st.h, op: Op::ExecParams(sql, ps) };
        out.push((c, "execute_with_params"));
    }
    out
}

fn signature(entry: &str, kind: &str, what: &str) -> String {
    format!("{}/{}/{}/{}", PROP, entry, kind, what)
}

/// does the context of the failing step involve more than plain statement calls on handle 0?
fn sequence_context(case: &Case, f: &Failure) -> bool {
    f.in_thread || case.steps.iter().take(f.step + 1).any(|s| s.h != 0 || s.sql().is_none())
}

/// in-process: decide the canonical entry point of a panic (see module doc) and return (entry, case to shrink)
fn canonical_entry(case: &Case, f: &Failure, env: &Env, runs: &mut u32) -> (String, Case, Failure) {
    let mut cur = case.clone();
    let mut fail = f.clone();
    // threads -> sequential
    if fail.in_thread {
        if let Some(c) = flatten_thread(&cur, &fail) {
            *runs += 1;
            let o = run_case(&c, env, None);
            if let Some(f2) = o.failure {
                if f2.site == fail.site && !f2.in_thread {
                    cur = c;
                    fail = f2;
                }
            }
        }
    }
    let mut entry = fail.entry.clone();
    if sequence_context(&cur, &fail) && cur.steps.get(fail.step).map(|s| s.sql().is_some()).unwrap_or(false) && !fail.in_thread {
        // does the call alone reproduce it?
        let mut c = cur.clone();
        let mut s = cur.steps[fail.step].clone();
        s.h = 0;
        c.steps = vec![s];
        *runs += 1;
        let o = run_case(&c, env, None);
        match o.failure {
            Some(f2) if f2.site == fail.site => {
                cur = c;
                fail = f2;
            }
            _ => entry = "api_sequence".to_string(),
        }
    } else if fail.in_thread {
        entry = "api_sequence".to_string();
    }
    if entry != "api_sequence" && entry != "execute" {
        for (c, name) in entry_candidates(&cur, &fail) {
            *runs += 1;
            let o = run_case(&c, env, None);
            if let Some(f2) = o.failure {
                if f2.site == fail.site {
                    entry = name.to_string();
                    cur = c;
                    fail = f2;
                    break;
                }
            }
        }
    }
    (entry, cur, fail)
}

/// generic greedy shrinker; `test(candidate)` returns the failing step index if the candidate still fails the same way
fn shrink_with(case: &Case, fail_step: usize, budget: u32, test: &mut dyn FnMut(&Case) -> Option<usize>) -> (Case, u32) {
    let mut cur = case.clone();
    let mut fs = fail_step;
    let mut used = 0u32;
    // 1. structure
    let mut progress = true;
    while progress && used < budget {
        progress = false;
        for c in step_candidates(&cur, fs) {
            if used >= budget {
                break;
            }
            if c == cur {
                continue;
            }
            used += 1;
            if let Some(s) = test(&c) {
                cur = c;
                fs = s;
                progress = true;
                break;
            }
        }
    }
    // 2. repeat counts / parameters of the failing step
    progress = true;
    while progress && used < budget {
        progress = false;
        for c in text_candidates(&cur, fs, None) {
            if used >= budget {
                break;
            }
            if c == cur {
                continue;
            }
            used += 1;
            if let Some(s) = test(&c) {
                cur = c;
                fs = s;
                progress = true;
                break;
            }
        }
    }
    // 3. token deletion (ddmin over complements) on texts of moderate size
    if let Some(len) = cur.steps.get(fs).and_then(|s| s.sql()).map(|t| t.len()) {
        if len <= 6000 {
            let mut chunk = {
                let n = tokenize(&cur.steps[fs].sql().unwrap().render()).len();
                (n / 2).max(1)
            };
            loop {
                let n = tokenize(&cur.steps[fs].sql().unwrap().render()).len();
                if n <= 1 || used >= budget {
                    break;
                }
                let mut start = 0;
                let mut removed_any = false;
                while start < tokenize(&cur.steps[fs].sql().unwrap().render()).len() && used < budget {
                    let cands = text_candidates(&cur, fs, Some((start, chunk)));
                    let mut removed = false;
                    for c in cands {
                        if c == cur {
                            continue;
                        }
                        used += 1;
                        if let Some(s) = test(&c) {
                            cur = c;
                            fs = s;
                            removed = true;
                            removed_any = true;
                        }
                    }
                    if !removed {
                        start += chunk;
                    }
                }
                if chunk == 1 && !removed_any {
                    break;
                }
                if !removed_any || chunk > 1 {
                    chunk = (chunk / 2).max(1);
                }
            }
        } else {
            // halve a long literal text
            loop {
                if used >= budget {
                    break;
                }
                let t = cur.steps[fs].sql().unwrap().render();
                if t.len() < 64 {
                    break;
                }
                let mut cut = t.len() / 2;
                while !t.is_char_boundary(cut) {
                    cut += 1;
                }
                let mut c = cur.clone();
                *c.steps[fs].sql_mut().unwrap() = Txt::lit(t[..cut].to_string());
                used += 1;
                match test(&c) {
                    Some(s) => {
                        cur = c;
                        fs = s;
                    }
                    None => break,
                }
            }
        }
    }
    (cur, used)
}

// ------------------------------------------------------------------------------------------
// recorder of one child process
// ------------------------------------------------------------------------------------------
pub struct Rec {
    out: Option<std::fs::File>,
    pub lines: Vec<String>,
    evals: u64,
    calls: u64,
    ok: u64,
    err: u64,
    parse_err: u64,
    panics: u64,
    new_nt: Vec<u64>,
    seen_nt: HashSet<u64>,
    sig_delta: BTreeMap<String, u64>,
    sig_seen: HashSet<String>,
    ctr: BTreeMap<String, u64>,
}

impl Rec {
    fn new(out: Option<std::fs::File>) -> Rec {
        Rec { out, lines: vec![], evals: 0, calls: 0, ok: 0, err: 0, parse_err: 0, panics: 0, new_nt: vec![], seen_nt: HashSet::new(), sig_delta: BTreeMap::new(), sig_seen: HashSet::new(), ctr: BTreeMap::new() }
    }
    fn emit(&mut self, v: Value) {
        let s = v.to_string();
        match &mut self.out {
            Some(f) => {
                let _ = f.write_all(s.as_bytes());
                let _ = f.write_all(b"\n");
            }
            None => self.lines.push(s),
        }
    }
    fn count(&mut self, k: &str, n: u64) {
        *self.ctr.entry(k.to_string()).or_insert(0) += n;
    }
    fn flush_progress(&mut self) {
        let nt = std::mem::take(&mut self.new_nt);
        let sd = std::mem::take(&mut self.sig_delta);
        let ctr = std::mem::take(&mut self.ctr);
        let v = json!({"t": "p", "evals": self.evals, "calls": self.calls, "ok": self.ok, "err": self.err, "parse_err": self.parse_err, "panics": self.panics, "nt": nt, "sigc": sd, "ctr": ctr});
        self.evals = 0;
        self.calls = 0;
        self.ok = 0;
        self.err = 0;
        self.parse_err = 0;
        self.panics = 0;
        self.emit(v);
    }
}

fn case_hash(case: &Case, o: &Outcome) -> u64 {
    let mut h = fnv(case.unit.as_bytes()) ^ fnv(case.tag.as_bytes()).rotate_left(9);
    for c in &o.classes {
        h = (h ^ fnv(c.as_bytes())).wrapping_mul(0x100000001b3).rotate_left(7);
    }
    h
}

fn now_ms() -> u64 {
    std::time::SystemTime::now().duration_since(std::time::UNIX_EPOCH).map(|d| d.as_millis() as u64).unwrap_or(0)
}

fn describe_failure(f: &Failure) -> Value {
    let overflow = f.msg.contains("with overflow") && !f.msg.contains("divide with overflow") && !f.msg.contains("remainder with overflow");
    json!({
        "panic": f.msg, "site": f.site, "step": f.step, "at": f.sub,
        "depends_on_overflow_checks": overflow,
        "note": if overflow { "arithmetic-overflow panic: only a panic in a build with overflow-checks on (this harness profile); a release build wraps silently instead (then a C20 matter)" } else { "" },
    })
}

fn replay_cmd(env: &Env, case: &Case) -> String {
    format!("tv C22 --tier {} --seed {} child {} {} 1 /verif/scratch/c22-replay", env.tier, env.seed, case.unit, case.idx)
}

/// claim the right to shrink a signature (once per run, across child processes)
fn claim_shrink(env: &Env, sig: &str) -> bool {
    let dir = env.root.join("shrunk");
    let _ = std::fs::create_dir_all(&dir);
    std::fs::OpenOptions::new().write(true).create_new(true).open(dir.join(format!("{:016x}", fnv(sig.as_bytes())))).is_ok()
}

/// run cases [start, start+count) of one unit
fn run_cases(unit: &str, env: &Env, start: u64, count: u64, deadline_ms: u64, bb: Option<&BlackBox>, rec: &mut Rec) -> u64 {
    let mut done = 0u64;
    let mut last_flush = std::time::Instant::now();
    for idx in start..start + count {
        if deadline_ms > 0 && now_ms() > deadline_ms {
            break;
        }
        if let Some(b) = bb {
            b.begin(idx);
            b.op("gen");
        }
        let case = match guard(|| gen_case(env, unit, idx)) {
            Ok(c) => c,
            Err((site, msg)) => {
                rec.emit(json!({"t": "v", "sig": format!("{}/harness_bug/gen/{}", PROP, site), "assertion": "harness", "detail": {"unit": unit, "idx": idx, "panic": msg}}));
                *rec.sig_delta.entry(format!("{}/harness_bug/gen/{}", PROP, site)).or_insert(0) += 1;
                done += 1;
                continue;
            }
        };
        let o = run_case(&case, env, bb);
        rec.evals += 1;
        done += 1;
        if std::env::var("TV_C22_DUMP").is_ok() {
            for (k, st) in case.steps.iter().enumerate() {
                eprintln!("[{} {} #{}] {} {}", unit, idx, k, st.op_name(), st.sql().map(|t| t.render().chars().take(400).collect::<String>()).unwrap_or_default());
            }
            eprintln!("    => {:?} {}", o.classes, o.failure.as_ref().map(|f| format!("PANIC {} {}", f.site, f.msg)).unwrap_or_default());
        }
        rec.calls += o.calls;
        rec.ok += o.ok;
        rec.err += o.err;
        rec.parse_err += o.parse_err;
        if let Some(p) = &o.setup_problem {
            rec.count("setup_problems", 1);
            if rec.ctr["setup_problems"] <= 2 {
                rec.emit(json!({"t": "setup", "msg": p}));
            }
        }
        if o.calls > 0 {
            let h = case_hash(&case, &o);
            if rec.seen_nt.len() < 400_000 && rec.seen_nt.insert(h) {
                rec.new_nt.push(h);
            }
        }
        rec.count(&format!("cases_{}", unit), 1);
        if let Some(f) = &o.failure {
            rec.panics += 1;
            if let Some(b) = bb {
                b.op("shrink");
            }
            if f.site.starts_with("harness:") {
                let sig = format!("{}/harness_bug/{}", PROP, f.site);
                *rec.sig_delta.entry(sig.clone()).or_insert(0) += 1;
                if rec.sig_seen.insert(sig.clone()) {
                    rec.emit(json!({"t": "v", "sig": sig, "assertion": "harness", "detail": {"case": case.to_json(), "observed": describe_failure(f)}}));
                }
            } else {
                let mut runs = 0u32;
                let (entry, ccase, cfail) = canonical_entry(&case, f, env, &mut runs);
                let sig = signature(&entry, &cfail.kind, &format!("panic:{}", cfail.site));
                *rec.sig_delta.entry(sig.clone()).or_insert(0) += 1;
                let first_here = rec.sig_seen.insert(sig.clone());
                if first_here {
                    let detail = json!({"case": case.to_json(), "observed": describe_failure(f), "entry_point_reported": entry, "replay": replay_cmd(env, &case)});
                    rec.emit(json!({"t": "v", "sig": sig, "assertion": "no_panic", "detail": detail}));
                    if claim_shrink(env, &sig) {
                        let site = cfail.site.clone();
                        let mut test = |c: &Case| -> Option<usize> {
                            bb_beat();
                            let o = run_case(c, env, None);
                            o.failure.and_then(|f2| if f2.site == site { Some(f2.step) } else { None })
                        };
                        let (m, used) = shrink_with(&ccase, cfail.step, 160, &mut test);
                        let mo = run_case(&m, env, None);
                        let detail = json!({"case": m.to_json(), "observed": mo.failure.as_ref().map(describe_failure), "shrink_runs": used + runs, "from": {"unit": case.unit, "idx": case.idx, "replay": replay_cmd(env, &case)}});
                        rec.emit(json!({"t": "min", "sig": sig, "detail": detail}));
                    }
                }
                rec.count("shrink_and_canonicalisation_runs", runs as u64);
            }
        }
        if let Some(b) = bb {
            b.finished(done);
        }
        if done % 256 == 0 || (done % 4 == 0 && last_flush.elapsed().as_millis() > 1500) {
            last_flush = std::time::Instant::now();
            rec.flush_progress();
            if let Some(b) = bb {
                b.flushed(done);
            }
        }
    }
    rec.flush_progress();
    rec.emit(json!({"t": "done", "executed": done}));
    done
}

// ------------------------------------------------------------------------------------------
// child processes
// ------------------------------------------------------------------------------------------
fn limit_address_space(bytes: u64) {
    unsafe {
        let lim = libc::rlimit { rlim_cur: bytes as libc::rlim_t, rlim_max: bytes as libc::rlim_t };
        libc::setrlimit(libc::RLIMIT_AS, &lim);
        let z = libc::rlimit { rlim_cur: 0, rlim_max: 0 };
        libc::setrlimit(libc::RLIMIT_CORE, &z);
    }
}

const CHILD_AS_LIMIT: u64 = 4 << 30;

/// do not outlive the parent (a hung case would otherwise stay around if the parent is killed); a kernel-side
/// death signal instead of a polling thread, so that a blocked worker really has every thread asleep
fn die_with_parent() {
    unsafe {
        libc::prctl(libc::PR_SET_PDEATHSIG, libc::SIGKILL as libc::c_ulong);
    }
}

/// Where the per-case database copies live.  Every case copies ~28 files, opens, syncs and drops a database; on the
/// shared ext4 disk the ~16 fsync/msync calls per case cost 10-20 ms each under load (measured: 400 ms per case), so
/// the copies go to the memory-backed /dev/shm/tv-c22-<pid>/ when that exists (removed at the end of the run; stale
/// directories of dead runs are swept at start).  TV_C22_NO_SHM=1 keeps them under /verif/scratch/c22-<pid>/.
fn work_root_for(pid: u32) -> PathBuf {
    let shm = Path::new("/dev/shm");
    if std::env::var("TV_C22_NO_SHM").is_err() && shm.is_dir() {
        shm.join(format!("tv-c22-{}", pid))
    } else {
        PathBuf::from(format!("{}/scratch/c22-{}/work", report::VERIF_DIR, pid))
    }
}

fn sweep_stale_work_roots() {
    if let Ok(rd) = std::fs::read_dir("/dev/shm") {
        for e in rd.flatten() {
            let name = e.file_name().to_string_lossy().to_string();
            if let Some(pid) = name.strip_prefix("tv-c22-").and_then(|p| p.parse::<u32>().ok()) {
                if !Path::new(&format!("/proc/{}", pid)).exists() {
                    let _ = std::fs::remove_dir_all(e.path());
                }
            }
        }
    }
}

/// work directory of a child: below the parent's work root (TV_C22_WORK_ROOT) or an own one (standalone)
fn child_work_dir(jobdir: &Path) -> (PathBuf, Option<PathBuf>) {
    match std::env::var("TV_C22_WORK_ROOT") {
        Ok(r) if !r.is_empty() => (PathBuf::from(r).join(jobdir.file_name().map(|n| n.to_os_string()).unwrap_or_default()), None),
        _ => {
            let own = work_root_for(std::process::id());
            (own.join("w"), Some(own))
        }
    }
}

fn ensure_bases(root: &Path) -> Result<(), String> {
    for wal in [false, true] {
        if !base_dir(root, wal).exists() {
            create_db_base(root, wal)?;
        }
    }
    Ok(())
}

fn make_env(a: &Args, root: &Path, work: &Path) -> Env {
    Env { seed: a.seed, tier: a.tier.clone(), root: root.to_path_buf(), work: work.to_path_buf(), corpus: harvest() }
}

/// args: child <unit> <start> <count> <jobdir> [<root>] [<deadline_ms>]
fn child_main(a: &Args) -> i32 {
    std::env::set_var("RUST_BACKTRACE", "0");
    std::env::set_var("RUST_LIB_BACKTRACE", "0");
    let r = &a.rest;
    if r.len() < 5 || !UNIT_NAMES.contains(&r[1].as_str()) {
        eprintln!("usage: tv C22 [--tier T --seed S] child <{}> <start> <count> <jobdir> [<root>] [<deadline_ms>]", UNIT_NAMES.join("|"));
        return 2;
    }
    let unit = r[1].clone();
    let start: u64 = r[2].parse().expect("start");
    let count: u64 = r[3].parse().expect("count");
    let jobdir = PathBuf::from(&r[4]);
    let standalone = r.get(5).is_none();
    let root = r.get(5).map(PathBuf::from).unwrap_or_else(|| jobdir.clone());
    let deadline: u64 = r.get(6).and_then(|s| s.parse().ok()).unwrap_or(0);
    let (work, own_root) = child_work_dir(&jobdir);
    fresh_dir(&work);
    if standalone {
        let _ = std::fs::remove_file(jobdir.join("res.jsonl"));
        let _ = std::fs::remove_dir_all(jobdir.join("shrunk"));
        if let Err(e) = ensure_bases(&root) {
            eprintln!("cannot build the base database: {}", e);
            return 2;
        }
    }
    limit_address_space(CHILD_AS_LIMIT);
    die_with_parent();
    let bb = BlackBox::open(&jobdir.join("bb"));
    let out = std::fs::OpenOptions::new().create(true).append(true).open(jobdir.join("res.jsonl")).expect("result file");
    let env = make_env(a, &root, &work);
    let h = std::thread::Builder::new()
        .stack_size(CHILD_STACK)
        .name("c22-cases".into())
        .spawn(move || {
            let mut rec = Rec::new(Some(out));
            run_cases(&unit, &env, start, count, deadline, bb.as_ref(), &mut rec)
        })
        .expect("spawn worker");
    let done = h.join().unwrap_or(0);
    if standalone {
        if let Ok(s) = std::fs::read_to_string(jobdir.join("res.jsonl")) {
            for l in s.lines() {
                if l.contains("\"t\":\"v\"") || l.contains("\"t\":\"min\"") {
                    println!("{}", l);
                }
            }
        }
        println!("child: unit={} start={} executed={}", r[1], start, done);
        let _ = std::fs::remove_dir_all(jobdir.join("shrunk"));
    }
    let _ = std::fs::remove_dir_all(&work);
    if let Some(o) = own_root {
        let _ = std::fs::remove_dir_all(o);
    }
    0
}

/// args: one <case.json> <jobdir> [<root>]  -- run one explicit case (replay, solitary hang confirmation, abort shrinking)
fn one_main(a: &Args) -> i32 {
    std::env::set_var("RUST_BACKTRACE", "0");
    std::env::set_var("RUST_LIB_BACKTRACE", "0");
    let r = &a.rest;
    if r.len() < 3 {
        eprintln!("usage: tv C22 one <case.json> <jobdir> [<root>]");
        return 2;
    }
    let txt = match std::fs::read_to_string(&r[1]) {
        Ok(t) => t,
        Err(e) => {
            eprintln!("cannot read {}: {}", r[1], e);
            return 2;
        }
    };
    let v: Value = match serde_json::from_str(&txt) {
        Ok(v) => v,
        Err(e) => {
            eprintln!("bad JSON in {}: {}", r[1], e);
            return 2;
        }
    };
    // accepts a bare case, a replay file (detail.minimized.case / detail.examples[0].case)
    let cv = if v.get("steps").is_some() {
        v.clone()
    } else if v["detail"]["minimized"]["case"].get("steps").is_some() {
        v["detail"]["minimized"]["case"].clone()
    } else if v["detail"]["examples"][0]["case"].get("steps").is_some() {
        v["detail"]["examples"][0]["case"].clone()
    } else {
        v["case"].clone()
    };
    let case = match Case::from_json(&cv) {
        Some(c) => c,
        None => {
            eprintln!("no case found in {}", r[1]);
            return 2;
        }
    };
    let jobdir = PathBuf::from(&r[2]);
    let standalone = r.get(3).is_none();
    let root = r.get(3).map(PathBuf::from).unwrap_or_else(|| jobdir.clone());
    let (work, own_root) = child_work_dir(&jobdir);
    fresh_dir(&work);
    if standalone {
        if let Err(e) = ensure_bases(&root) {
            eprintln!("cannot build the base database: {}", e);
            return 2;
        }
    }
    limit_address_space(CHILD_AS_LIMIT);
    die_with_parent();
    let bb = BlackBox::open(&jobdir.join("bb"));
    let env = Env { seed: a.seed, tier: a.tier.clone(), root, work: work.clone(), corpus: Corpus { files: vec![], total: 0, distinct: 0 } };
    let jd = jobdir.clone();
    let h = std::thread::Builder::new()
        .stack_size(CHILD_STACK)
        .name("c22-one".into())
        .spawn(move || {
            if let Some(b) = &bb {
                b.begin(case.idx);
            }
            let t0 = std::time::Instant::now();
            let o = run_case(&case, &env, bb.as_ref());
            let v = json!({"t": "one", "classes": o.classes, "calls": o.calls, "ok": o.ok, "err": o.err, "wall_s": t0.elapsed().as_secs_f64(), "setup_problem": o.setup_problem,
                "failure": o.failure.as_ref().map(|f| json!({"step": f.step, "sub": f.sub, "entry": f.entry, "kind": f.kind, "site": f.site, "msg": f.msg, "in_thread": f.in_thread}))});
            let _ = std::fs::write(jd.join("one.json"), v.to_string());
            v
        })
        .expect("spawn worker");
    let r = h.join();
    let _ = std::fs::remove_dir_all(&work);
    if let Some(o) = own_root {
        let _ = std::fs::remove_dir_all(o);
    }
    match r {
        Ok(v) => {
            if standalone {
                println!("{}", serde_json::to_string_pretty(&v).unwrap_or_default());
            }
            0
        }
        Err(_) => 3,
    }
}

// ------------------------------------------------------------------------------------------
// parent side: running one explicit case in a monitored child
// ------------------------------------------------------------------------------------------
/// user+system CPU seconds of a process (all threads)
fn proc_cpu_s(pid: u32) -> Option<f64> {
    let st = std::fs::read_to_string(format!("/proc/{}/stat", pid)).ok()?;
    let rest = &st[st.rfind(')')? + 1..];
    let f: Vec<&str> = rest.split_whitespace().collect();
    let ut: f64 = f.get(11)?.parse().ok()?;
    let stime: f64 = f.get(12)?.parse().ok()?;
    Some((ut + stime) / 100.0)
}

/// resident set size of a process in bytes
fn proc_rss(pid: u32) -> u64 {
    std::fs::read_to_string(format!("/proc/{}/status", pid))
        .ok()
        .and_then(|s| s.lines().find(|l| l.starts_with("VmRSS:")).and_then(|l| l.split_whitespace().nth(1).and_then(|x| x.parse::<u64>().ok())))
        .unwrap_or(0)
        * 1024
}

/// a worker killed at a CPU limit while holding this much memory (on a <= 200-row database) is a memory blow-up that
/// had not reached RLIMIT_AS yet: classified as alloc_abort, like the death it was heading for
const BLOWUP_RSS: u64 = 1 << 30;

/// true if every thread of the process sleeps (state S): nothing runnable, nothing in disk wait
fn proc_all_sleeping(pid: u32) -> bool {
    let rd = match std::fs::read_dir(format!("/proc/{}/task", pid)) {
        Ok(r) => r,
        Err(_) => return false,
    };
    let mut n = 0;
    for e in rd.flatten() {
        let st = match std::fs::read_to_string(e.path().join("stat")) {
            Ok(s) => s,
            Err(_) => continue,
        };
        let state = st.rfind(')').and_then(|p| st[p + 1..].trim_start().chars().next()).unwrap_or('R');
        if state != 'S' {
            return false;
        }
        n += 1;
    }
    n > 0
}

/// watches one worker: heartbeat, CPU burned inside the current call, time spent with every thread asleep
struct Watch {
    last: (u64, u64),
    last_change: std::time::Instant,
    cpu_mark: f64,
    /// window in which (nearly) every sample found all threads asleep and the CPU clock (nearly) standing still:
    /// (start, cpu at start, samples asleep, samples awake)
    asleep_since: Option<(std::time::Instant, f64, u32, u32)>,
}

enum Verdict {
    Fine,
    /// CPU seconds burned inside one call
    Cpu(f64),
    /// seconds during which no thread of the worker was runnable (a lock that nobody will release)
    Blocked(f64),
}

impl Watch {
    fn new() -> Watch {
        Watch { last: (u64::MAX, u64::MAX), last_change: std::time::Instant::now(), cpu_mark: 0.0, asleep_since: None }
    }
    fn poll(&mut self, pid: u32, bb: &Option<(u64, u64, u64, String, bool, u64)>, cpu_limit: f64, blocked_limit: f64) -> Verdict {
        let cur = bb.as_ref().map(|b| (b.0, b.1)).unwrap_or((u64::MAX, 0));
        if cur != self.last {
            self.last = cur;
            self.last_change = std::time::Instant::now();
            self.cpu_mark = proc_cpu_s(pid).unwrap_or(0.0);
            self.asleep_since = None;
            return Verdict::Fine;
        }
        if self.last_change.elapsed().as_secs_f64() < 1.5 {
            return Verdict::Fine;
        }
        let cpu = proc_cpu_s(pid).unwrap_or(self.cpu_mark);
        let burned = cpu - self.cpu_mark;
        if burned > cpu_limit {
            return Verdict::Cpu(burned);
        }
        // On a loaded machine a thread that wakes for microseconds (timers) can be caught runnable, so a few awake
        // samples are tolerated; what must hold is: < 10% awake samples and < 2% CPU use over the whole window.
        let asleep = proc_all_sleeping(pid);
        let (t, c, mut na, mut nw) = self.asleep_since.unwrap_or((std::time::Instant::now(), cpu, 0, 0));
        if asleep {
            na += 1;
        } else {
            nw += 1;
        }
        let d = t.elapsed().as_secs_f64();
        if (na + nw >= 20 && nw * 10 > na + nw) || cpu - c > 0.3 + 0.02 * d || (na + nw < 20 && nw > 3) {
            self.asleep_since = None;
            return Verdict::Fine;
        }
        self.asleep_since = Some((t, c, na, nw));
        if d > blocked_limit && na + nw >= 20 {
            return Verdict::Blocked(d);
        }
        Verdict::Fine
    }
}

const SOFT_BLOCKED_S: f64 = 8.0;
const HARD_BLOCKED_S: f64 = 30.0;

fn classify_death(status: &std::process::ExitStatus, stderr: &str) -> String {
    use std::os::unix::process::ExitStatusExt;
    if stderr.contains("memory allocation of") || (stderr.contains("capacity overflow") && stderr.contains("abort")) {
        return "alloc_abort".into();
    }
    if stderr.contains("has overflowed its stack") || stderr.contains("stack overflow") {
        return "stack_overflow".into();
    }
    if stderr.contains("panic in a function that cannot unwind") || stderr.contains("panicked while processing panic") || stderr.contains("panic in a destructor") {
        return "double_panic".into();
    }
    match status.signal() {
        Some(6) => "SIGABRT".into(),
        Some(11) => "SIGSEGV".into(),
        Some(7) => "SIGBUS".into(),
        Some(4) => "SIGILL".into(),
        Some(8) => "SIGFPE".into(),
        Some(9) => "SIGKILL".into(),
        Some(s) => format!("signal{}", s),
        None => format!("exit{}", status.code().unwrap_or(-1)),
    }
}

#[derive(Debug, Clone)]
enum OneResult {
    /// the call sequence returned; the JSON written by the child
    Finished(Value, f64),
    /// (class, label, stderr tail)
    Died(String, String, Vec<String>),
    /// (label, seconds, blocked?) blocked = every thread asleep for that long; else CPU seconds burned inside the call
    Expired(String, f64, bool, u64),
    Spawn(String),
}

struct OneRunner {
    exe: PathBuf,
    root: PathBuf,
    tier: String,
    seed: u64,
    counter: AtomicU64,
    /// no new investigation run is started after this instant (keeps the tier's wall budget)
    stop_at: std::time::Instant,
}

impl OneRunner {
    /// a new investigation run may take ~10-20 s: none is started in the last 12 s
    fn out_of_time(&self) -> bool {
        std::time::Instant::now() + std::time::Duration::from_secs(12) > self.stop_at
    }
    fn run(&self, case: &Case, cpu_limit_s: f64, blocked_limit_s: f64) -> OneResult {
        use std::process::{Command, Stdio};
        let n = self.counter.fetch_add(1, Ordering::Relaxed);
        let dir = self.root.join(format!("one-{}", n));
        fresh_dir(&dir);
        let cf = dir.join("case.json");
        if std::fs::write(&cf, case.to_json().to_string()).is_err() {
            return OneResult::Spawn("cannot write case file".into());
        }
        let errf = match std::fs::File::create(dir.join("stderr.txt")) {
            Ok(f) => f,
            Err(e) => return OneResult::Spawn(e.to_string()),
        };
        let mut child = match Command::new(&self.exe)
            .arg(PROP)
            .arg("--tier")
            .arg(&self.tier)
            .arg("--seed")
            .arg(self.seed.to_string())
            .arg("one")
            .arg(&cf)
            .arg(&dir)
            .arg(&self.root)
            .env("RUST_BACKTRACE", "0")
            .env("RUST_LIB_BACKTRACE", "0")
            .stdin(Stdio::null())
            .stdout(Stdio::null())
            .stderr(Stdio::from(errf))
            .spawn()
        {
            Ok(c) => c,
            Err(e) => return OneResult::Spawn(e.to_string()),
        };
        let t0 = std::time::Instant::now();
        let mut watch = Watch::new();
        let res = loop {
            match child.try_wait() {
                Ok(Some(st)) => {
                    let stderr = std::fs::read_to_string(dir.join("stderr.txt")).unwrap_or_default();
                    match std::fs::read_to_string(dir.join("one.json")).ok().and_then(|s| serde_json::from_str::<Value>(&s).ok()) {
                        Some(v) if st.success() => break OneResult::Finished(v, t0.elapsed().as_secs_f64()),
                        _ => {
                            let label = read_blackbox(&dir.join("bb")).map(|b| b.3).unwrap_or_default();
                            break OneResult::Died(classify_death(&st, &stderr), label, stderr.lines().rev().take(4).map(|s| s.chars().take(300).collect()).collect());
                        }
                    }
                }
                Ok(None) => {
                    if std::time::Instant::now() > self.stop_at {
                        // wall budget of the tier used up: abandon the investigation run (no verdict from it)
                        let _ = child.kill();
                        let _ = child.wait();
                        break OneResult::Spawn("abandoned: wall budget of the tier used up".into());
                    }
                    let bb = read_blackbox(&dir.join("bb"));
                    match watch.poll(child.id(), &bb, cpu_limit_s, blocked_limit_s) {
                        Verdict::Fine => {}
                        Verdict::Cpu(burned) => {
                            let rss = proc_rss(child.id());
                            let _ = child.kill();
                            let _ = child.wait();
                            break OneResult::Expired(bb.map(|b| b.3).unwrap_or_default(), burned, false, rss);
                        }
                        Verdict::Blocked(d) => {
                            let rss = proc_rss(child.id());
                            let _ = child.kill();
                            let _ = child.wait();
                            break OneResult::Expired(bb.map(|b| b.3).unwrap_or_default(), d, true, rss);
                        }
                    }
                }
                Err(e) => break OneResult::Spawn(e.to_string()),
            }
            std::thread::sleep(std::time::Duration::from_millis(if t0.elapsed().as_millis() < 300 { 3 } else { 25 }));
        };
        let _ = std::fs::remove_dir_all(&dir);
        res
    }
}

/// "<i>:<op>" -> step index
fn label_step(label: &str) -> Option<usize> {
    label.split(':').next()?.parse().ok()
}

/// entry/kind of the step a label points at
fn attribute(case: &Case, label: &str, by_function: bool) -> (String, String, usize) {
    match label_step(label) {
        Some(i) if i < case.steps.len() => {
            let st = &case.steps[i];
            let kind = match st.sql() {
                Some(t) => match single_function(t) {
                    Some(f) if by_function => format!("fn:{}", f),
                    _ => stmt_kind(t),
                },
                None => st.op_name().to_string(),
            };
            let ctx = case.steps.iter().take(i + 1).any(|s| s.h != 0 || s.sql().is_none());
            (if ctx { "api_sequence".to_string() } else { st.entry().to_string() }, kind, i)
        }
        Some(i) => ("api_sequence".into(), "drop".into(), i),
        None => ("api_sequence".into(), label.to_string(), 0),
    }
}

#[derive(Default)]
struct SigAgg {
    count: u64,
    assertion: String,
    examples: Vec<Value>,
    minimized: Option<Value>,
    units: Vec<String>,
}

#[derive(Default, Clone)]
struct UnitAgg {
    planned: u64,
    cases: u64,
    calls: u64,
    ok: u64,
    err: u64,
    parse_err: u64,
    panics: u64,
    deaths: u64,
    soft_expiries: u64,
    skipped: u64,
}

struct Agg {
    sigs: BTreeMap<String, SigAgg>,
    units: BTreeMap<String, UnitAgg>,
    setup_msgs: Vec<String>,
}

impl Agg {
    fn new() -> Agg {
        Agg { sigs: BTreeMap::new(), units: BTreeMap::new(), setup_msgs: vec![] }
    }
    fn add_sig(&mut self, unit: &str, sig: &str, assertion: &str, n: u64, example: Option<Value>) {
        let s = self.sigs.entry(sig.to_string()).or_default();
        s.count += n;
        if s.assertion.is_empty() {
            s.assertion = assertion.to_string();
        }
        if !unit.is_empty() && !s.units.iter().any(|x| x == unit) {
            s.units.push(unit.to_string());
        }
        if let Some(e) = example {
            if s.examples.len() < 2 {
                s.examples.push(e);
            }
        }
    }
    fn merge_lines<'a>(&mut self, unit: &str, lines: impl Iterator<Item = &'a str>, ctx: &mut Ctx) -> bool {
        let mut done = false;
        for l in lines {
            let v: Value = match serde_json::from_str(l) {
                Ok(v) => v,
                Err(_) => continue,
            };
            match v["t"].as_str().unwrap_or("") {
                "p" => {
                    let ua = self.units.entry(unit.to_string()).or_default();
                    let e = v["evals"].as_u64().unwrap_or(0);
                    ua.cases += e;
                    ua.calls += v["calls"].as_u64().unwrap_or(0);
                    ua.ok += v["ok"].as_u64().unwrap_or(0);
                    ua.err += v["err"].as_u64().unwrap_or(0);
                    ua.parse_err += v["parse_err"].as_u64().unwrap_or(0);
                    ua.panics += v["panics"].as_u64().unwrap_or(0);
                    ctx.evals(e);
                    if let Some(a) = v["nt"].as_array() {
                        for h in a {
                            if let Some(h) = h.as_u64() {
                                ctx.nontrivial(h);
                            }
                        }
                    }
                    if let Some(m) = v["sigc"].as_object() {
                        for (sig, n) in m {
                            self.add_sig(unit, sig, "", n.as_u64().unwrap_or(0), None);
                        }
                    }
                    if let Some(m) = v["ctr"].as_object() {
                        for (k, n) in m {
                            ctx.count(k, n.as_u64().unwrap_or(0));
                        }
                    }
                }
                "v" => {
                    let sig = v["sig"].as_str().unwrap_or("").to_string();
                    let asr = v["assertion"].as_str().unwrap_or("").to_string();
                    self.add_sig(unit, &sig, &asr, 0, Some(v["detail"].clone()));
                    if let Some(s) = self.sigs.get_mut(&sig) {
                        if s.assertion.is_empty() {
                            s.assertion = asr;
                        }
                    }
                }
                "min" => {
                    let sig = v["sig"].as_str().unwrap_or("").to_string();
                    let s = self.sigs.entry(sig).or_default();
                    if s.minimized.is_none() {
                        s.minimized = Some(v["detail"].clone());
                    }
                }
                "setup" => {
                    if self.setup_msgs.len() < 4 {
                        self.setup_msgs.push(v["msg"].as_str().unwrap_or("").to_string());
                    }
                }
                "done" => done = true,
                _ => {}
            }
        }
        done
    }
    fn finish(self, ctx: &mut Ctx) {
        let mut all = vec![];
        let mut sigmap = serde_json::Map::new();
        let mut by_site: BTreeMap<String, Vec<String>> = BTreeMap::new();
        let mut overflow_dependent = vec![];
        for (sig, s) in &self.sigs {
            let count = s.count.max(s.examples.len() as u64).max(1);
            if sig.contains("/harness_bug/") {
                ctx.inconclusive(&format!("the harness itself panicked ({} x{}): {}", sig, count, s.examples.first().map(|e| e.to_string().chars().take(400).collect::<String>()).unwrap_or_default()));
                continue;
            }
            sigmap.insert(sig.clone(), json!(count));
            let cause = sig.splitn(4, '/').nth(3).unwrap_or("").to_string();
            by_site.entry(cause.clone()).or_default().push(sig.clone());
            let mut source_line = Value::Null;
            let mut debug_assert = false;
            if let Some(site) = cause.strip_prefix("panic:") {
                if let Some((file, line)) = site.rsplit_once(':') {
                    if let (Ok(txt), Ok(n)) = (std::fs::read_to_string(format!("/repo/src/{}", file)), line.parse::<usize>()) {
                        if let Some(l) = txt.lines().nth(n.saturating_sub(1)) {
                            debug_assert = l.contains("debug_assert");
                            source_line = json!(l.trim());
                        }
                    }
                }
            }
            let ovf = s.examples.first().map(|e| e["observed"]["depends_on_overflow_checks"].as_bool().unwrap_or(false)).unwrap_or(false) || s.minimized.as_ref().map(|m| m["observed"]["depends_on_overflow_checks"].as_bool().unwrap_or(false)).unwrap_or(false);
            if ovf || debug_assert {
                overflow_dependent.push(sig.clone());
            }
            let assertion = if s.assertion.is_empty() { "no_panic".to_string() } else { s.assertion.clone() };
            let detail = json!({"occurrences": count, "units": s.units, "source_line": source_line, "depends_on_overflow_checks_or_debug_assertions": ovf || debug_assert, "minimized": s.minimized, "examples": s.examples});
            all.push(json!({"sig": sig, "assertion": assertion, "detail": detail.clone()}));
            let known = ctx.is_known(sig).map(|f| f.id.clone());
            let unexplained = ctx.violation(&assertion, sig, detail);
            if !unexplained {
                if let Some(id) = known {
                    *ctx.known_hits.entry(id).or_insert(0) += count - 1;
                }
            }
        }
        ctx.count("distinct_signatures", sigmap.len() as u64);
        ctx.count("distinct_root_causes_by_site", by_site.len() as u64);
        ctx.extra.insert("signatures".into(), Value::Object(sigmap));
        ctx.extra.insert("signatures_by_cause".into(), json!(by_site));
        ctx.extra.insert("signatures_depending_on_overflow_checks_or_debug_assertions".into(), json!(overflow_dependent));
        let mut um = serde_json::Map::new();
        for (u, a) in &self.units {
            um.insert(u.clone(), json!({"planned": a.planned, "cases": a.cases, "api_calls": a.calls, "ok": a.ok, "err": a.err, "parse_errors": a.parse_err, "cases_with_panic": a.panics, "process_deaths": a.deaths, "soft_deadline_expiries": a.soft_expiries, "cases_not_run": a.skipped}));
        }
        ctx.extra.insert("per_unit".into(), Value::Object(um));
        if !self.setup_msgs.is_empty() {
            ctx.extra.insert("setup_problems".into(), json!(self.setup_msgs));
        }
        if !all.is_empty() {
            let dir = format!("{}/replay/{}", report::VERIF_DIR, ctx.prop);
            let _ = std::fs::create_dir_all(&dir);
            let path = format!("{}/{}-seed{}-all-signatures.json", dir, ctx.tier, ctx.seed);
            let _ = std::fs::write(&path, serde_json::to_string_pretty(&Value::Array(all)).unwrap());
            ctx.extra.insert("all_signatures_file".into(), json!(path));
        }
    }
}

// ------------------------------------------------------------------------------------------
// background investigations of the parent: confirm + shrink aborts, second stage of the hang rule
// ------------------------------------------------------------------------------------------
const SOFT_CPU_S: f64 = 20.0;
const HARD_CPU_S: f64 = 120.0;

enum Task {
    /// a child died while running this case at this label
    Death { case: Case, class: String, label: String, stderr: Vec<String>, prov_key: String },
    /// a call burned SOFT_CPU_S: run the case alone with the hard limit
    Hang { case: Case, label: String, prov_key: String, blocked: bool },
}

#[derive(Default)]
struct TaskResults {
    /// (signature, assertion, detail, provisional key)
    findings: Vec<(String, String, Value, String)>,
    counters: BTreeMap<String, u64>,
    notes: Vec<Value>,
}

fn bump(r: &std::sync::Mutex<TaskResults>, k: &str) {
    *r.lock().unwrap().counters.entry(k.to_string()).or_insert(0) += 1;
}

fn investigate_death(run: &OneRunner, case: Case, class: String, label: String, stderr: Vec<String>, prov_key: String, res: &std::sync::Mutex<TaskResults>, env_tier: &str, seed: u64, seen_alone: bool) {
    let same = |r: &OneResult| -> Option<usize> {
        match r {
            OneResult::Died(c, l, _) if *c == class => Some(label_step(l).unwrap_or(0)),
            // killed at the CPU limit on its way to the allocation failure
            OneResult::Expired(l, _, false, rss) if class == "alloc_abort" && *rss >= BLOWUP_RSS => Some(label_step(l).unwrap_or(0)),
            _ => None,
        }
    };
    // 1. re-run alone (a slow blow-up gets the hard limit)
    let no_time = !seen_alone && run.out_of_time();
    let seen_alone = seen_alone || no_time; // the death itself is a fact; without time it is reported unshrunk
    let mut first = if seen_alone { OneResult::Spawn("(not re-run)".into()) } else { run.run(&case, SOFT_CPU_S, SOFT_BLOCKED_S * 2.0) };
    if matches!(first, OneResult::Expired(..)) && same(&first).is_none() && !run.out_of_time() {
        first = run.run(&case, HARD_CPU_S, HARD_BLOCKED_S);
    }
    let confirmed = seen_alone || same(&first).is_some();
    let (mut entry, kind, step) = attribute(&case, &label, class == "alloc_abort");
    if !confirmed {
        bump(res, "process_deaths_not_reproduced_alone");
        if class == "SIGKILL" {
            // killed from outside (e.g. the kernel's OOM killer on a loaded machine): not attributable
            res.lock().unwrap().notes.push(json!({"unattributed_sigkill": {"unit": case.unit, "idx": case.idx, "label": label}}));
            return;
        }
        let sig = signature(&entry, &kind, &format!("abort:{}", class));
        let detail = json!({"case": case.to_json(), "observed": {"outcome": class, "at": label, "stderr_tail": stderr, "reproduced_when_run_alone": false, "rerun": format!("{:?}", first).chars().take(300).collect::<String>()}, "child_stack_bytes": CHILD_STACK, "child_rlimit_as": CHILD_AS_LIMIT});
        res.lock().unwrap().findings.push((sig, "no_abort".into(), detail, prov_key));
        return;
    }
    bump(res, "process_deaths_confirmed_alone");
    // 2. canonical entry: the call alone, then through execute
    let mut cur = case.clone();
    let mut fs = step.min(cur.steps.len().saturating_sub(1));
    if entry == "api_sequence" && !run.out_of_time() && cur.steps.get(fs).map(|s| s.sql().is_some()).unwrap_or(false) {
        let mut c = cur.clone();
        let mut s = cur.steps[fs].clone();
        s.h = 0;
        c.steps = vec![s];
        if same(&run.run(&c, SOFT_CPU_S, SOFT_BLOCKED_S * 2.0)).is_some() {
            entry = c.steps[0].entry().to_string();
            cur = c;
            fs = 0;
        }
    }
    if entry != "api_sequence" && entry != "execute" {
        let f = Failure { step: fs, sub: String::new(), entry: entry.clone(), kind: kind.clone(), site: String::new(), msg: String::new(), in_thread: false };
        for (c, name) in entry_candidates(&cur, &f) {
            if same(&run.run(&c, SOFT_CPU_S, SOFT_BLOCKED_S * 2.0)).is_some() {
                entry = name.to_string();
                cur = c;
                break;
            }
        }
    }
    // 3. shrink (one child process per candidate)
    let mut test = |c: &Case| -> Option<usize> {
        if run.out_of_time() {
            return None;
        }
        same(&run.run(c, SOFT_CPU_S, SOFT_BLOCKED_S * 2.0))
    };
    let (min, used) = shrink_with(&cur, fs, 36, &mut test);
    let sig = signature(&entry, &kind, &format!("abort:{}", class));
    let detail = json!({
        "minimized": {"case": min.to_json(), "shrink_runs": used},
        "case": case.to_json(),
        "observed": {"outcome": class, "at": label, "stderr_tail": stderr, "reproduced_when_run_alone": if no_time { json!("not re-run (wall budget of the tier used up)") } else { json!(true) }},
        "child_stack_bytes": CHILD_STACK, "child_rlimit_as": CHILD_AS_LIMIT,
        "replay": format!("tv C22 --tier {} --seed {} child {} {} 1 /verif/scratch/c22-replay", env_tier, seed, case.unit, case.idx),
    });
    res.lock().unwrap().findings.push((sig, "no_abort".into(), detail, prov_key));
}

fn investigate_hang(run: &OneRunner, case: Case, label: String, prov_key: String, res: &std::sync::Mutex<TaskResults>, env_tier: &str, seed: u64) {
    let r = run.run(&case, HARD_CPU_S, HARD_BLOCKED_S);
    match r {
        OneResult::Finished(v, wall) => {
            bump(res, "soft_deadline_cases_that_finished_alone");
            res.lock().unwrap().notes.push(json!({"slow_case_finished_alone": {"unit": case.unit, "idx": case.idx, "label": label, "wall_s": wall, "first_sql": case.steps.first().and_then(|s| s.sql()).map(|t| t.render().chars().take(300).collect::<String>())}}));
        }
        OneResult::Expired(l2, burned, false, rss) if rss >= BLOWUP_RSS => {
            // CPU limit reached with > 1 GiB resident: a memory blow-up, not a loop that makes no progress
            bump(res, "cpu_limit_reached_during_memory_blowup");
            investigate_death(run, case, "alloc_abort".into(), l2, vec![format!("killed after {:.0} CPU-s with {} MiB resident (RLIMIT_AS {} MiB not reached yet)", burned, rss >> 20, CHILD_AS_LIMIT >> 20)], prov_key, res, env_tier, seed, true);
        }
        OneResult::Expired(l2, burned, blocked, _rss) => {
            let (mut entry, kind, step) = attribute(&case, &l2, false);
            // minimal form: the call alone, with the soft limit only (each attempt is expensive)
            let mut min = None;
            if case.steps.len() > 1 && step < case.steps.len() && case.steps[step].sql().is_some() {
                let mut c = case.clone();
                let mut s = case.steps[step].clone();
                s.h = 0;
                c.steps = vec![s];
                if let OneResult::Expired(..) = run.run(&c, SOFT_CPU_S, SOFT_BLOCKED_S * 2.0) {
                    entry = c.steps[0].entry().to_string();
                    min = Some(c);
                }
            }
            let sig = signature(&entry, &kind, "hang");
            let detail = json!({
                "case": case.to_json(), "minimized": min.map(|m| json!({"case": m.to_json(), "note": "the call alone also exceeds the soft limit"})),
                "observed": {"outcome": if blocked { "hang (blocked: every thread of the worker asleep, no CPU consumed -- a lock nobody will release)" } else { "hang (CPU bound)" }, "at": l2, "seconds": burned, "first_stage_limits": {"cpu_s": SOFT_CPU_S, "blocked_s": SOFT_BLOCKED_S}, "second_stage_limits_run_alone": {"cpu_s": HARD_CPU_S, "blocked_s": HARD_BLOCKED_S}},
                "replay": format!("tv C22 --tier {} --seed {} child {} {} 1 /verif/scratch/c22-replay", env_tier, seed, case.unit, case.idx),
            });
            res.lock().unwrap().findings.push((sig, "terminates".into(), detail, prov_key));
        }
        OneResult::Died(class, l2, stderr) => {
            // it did not hang alone but died: treat as a death (confirmed by this very run)
            investigate_death(run, case, class, l2, stderr, prov_key, res, env_tier, seed, true);
        }
        OneResult::Spawn(e) => {
            res.lock().unwrap().notes.push(json!({"hang_confirmation_failed_to_run": e}));
        }
    }
}

// ------------------------------------------------------------------------------------------
// parent: schedules jobs over child processes, watches black boxes, attributes deaths and hangs
// ------------------------------------------------------------------------------------------
struct UnitPlan {
    name: &'static str,
    quick: u64,
    thorough: u64,
    chunk_quick: u64,
    chunk_thorough: u64,
}

const PLAN: &[UnitPlan] = &[
    UnitPlan { name: "gram", quick: 2600, thorough: 20_000, chunk_quick: 130, chunk_thorough: 500 },
    UnitPlan { name: "func", quick: 1330, thorough: 7_600, chunk_quick: 95, chunk_thorough: 380 },
    UnitPlan { name: "deep", quick: 230, thorough: 1380, chunk_quick: 46, chunk_thorough: 138 },
    UnitPlan { name: "huge", quick: 240, thorough: 1800, chunk_quick: 60, chunk_thorough: 180 },
    UnitPlan { name: "mut", quick: 1700, thorough: 14_000, chunk_quick: 100, chunk_thorough: 500 },
    UnitPlan { name: "bytes", quick: 900, thorough: 6_000, chunk_quick: 100, chunk_thorough: 500 },
    UnitPlan { name: "params", quick: 1000, thorough: 8_000, chunk_quick: 100, chunk_thorough: 500 },
    UnitPlan { name: "api", quick: 500, thorough: 4_000, chunk_quick: 50, chunk_thorough: 250 },
];

struct Job {
    unit: &'static str,
    start: u64,
    end: u64,
    restarts: u32,
}

struct Running {
    job: Job,
    child: std::process::Child,
    dir: PathBuf,
    watch: Watch,
}

fn parent_main(a: &Args) -> i32 {
    use std::process::{Command, Stdio};
    use std::sync::{mpsc, Arc, Mutex};
    use std::time::{Duration, Instant};
    let mut ctx = Ctx::new(
        PROP,
        &a.tier,
        a.seed,
        "exploration",
        "every case = fresh copy of a <= 200-row database (6 tables, all column families, indexes; WAL off / WAL on) + 1..25 public API calls: grammar-generated valid/near-valid statements of every statement kind, every SQL function with arity/type errors, nesting up to depth 200, huge literals, token mutations of the SQL harvested from /repo/tests, random bytes (lossy UTF-8), execute_with_params / prepare+bind with wrong length/type/huge values, multi-handle and multi-thread API sequences. Monitors: panic hook + catch_unwind, worker death (8 MiB stack, RLIMIT_AS 4 GiB), two-stage CPU-time hang rule (20 s, then 120 s alone). distinct_nontrivial = distinct (unit, generator class, per-call outcome vector incl. error class) hashes of cases that made at least one call",
    );
    std::env::set_var("RUST_BACKTRACE", "0");
    std::env::set_var("RUST_LIB_BACKTRACE", "0");
    let quick = ctx.quick();
    let t0 = Instant::now();
    let budget_s: u64 = std::env::var("TV_C22_BUDGET_S").ok().and_then(|s| s.parse().ok()).unwrap_or(if quick { 60 } else { 560 });
    let root = PathBuf::from(format!("{}/scratch/c22-{}", report::VERIF_DIR, std::process::id()));
    fresh_dir(&root);
    sweep_stale_work_roots();
    let work_root = work_root_for(std::process::id());
    fresh_dir(&work_root);
    std::env::set_var("TV_C22_WORK_ROOT", &work_root);
    ctx.extra.insert("work_root".into(), json!(work_root.to_string_lossy()));
    let exe = std::env::current_exe().expect("current_exe");
    let only: Option<Vec<String>> = std::env::var("TV_C22_UNITS").ok().map(|s| s.split(',').map(|x| x.to_string()).collect());
    let scale: f64 = std::env::var("TV_C22_SCALE").ok().and_then(|s| s.parse().ok()).unwrap_or(1.0);
    let mut agg = Agg::new();

    // base images
    let mut db_ok = true;
    for wal in [false, true] {
        match create_db_base(&root, wal) {
            Ok((ok, failed, panics)) => {
                for (stmt, site, msg) in &panics {
                    let t = Txt::lit(stmt.clone());
                    let sig = signature("execute", &stmt_kind(&t), &format!("panic:{}", site));
                    agg.add_sig("setup", &sig, "no_panic", 1, Some(json!({"case": {"database": "empty database being populated by DB_SETUP", "steps": [{"op": "execute", "sql": stmt}]}, "observed": {"panic": msg, "site": site}})));
                }
                // baseline: the image opens and holds the rows
                let work = root.join("baseline");
                fresh_dir(&work);
                let _ = copy_dir(&base_dir(&root, wal), &work.join("db"));
                let r = guard(|| -> Result<Vec<usize>, String> {
                    let db = Database::open(work.join("db")).map_err(|e| format!("open: {e}"))?;
                    let mut v = vec![];
                    for t in TABS {
                        v.push(db.query(&format!("SELECT * FROM {}", t.name)).map_err(|e| format!("{}: {e}", t.name))?.len());
                    }
                    Ok(v)
                });
                let total: usize = match &r {
                    Ok(Ok(v)) => v.iter().sum(),
                    _ => 0,
                };
                ctx.extra.insert(format!("db_base_{}", if wal { "wal" } else { "nowal" }), json!({"setup_statements_ok": ok, "setup_statements_failed": failed, "rows_per_table": format!("{:?}", r), "total_rows": total}));
                let t1_ok = matches!(&r, Ok(Ok(v)) if v[0] >= 10 && v[1] >= 10);
                if !t1_ok || total > 200 {
                    ctx.inconclusive(&format!("base database (wal={}) unusable: {:?} (total rows {})", wal, r, total));
                    db_ok = false;
                }
                let _ = std::fs::remove_dir_all(&work);
            }
            Err(e) => {
                ctx.inconclusive(&format!("could not build the base database (wal={}): {}", wal, e));
                db_ok = false;
            }
        }
    }
    let penv = make_env(a, &root, &work_root.join("parent-work"));
    ctx.extra.insert("harvested_test_sql".into(), json!({"files": penv.corpus.files.len(), "statements": penv.corpus.total, "distinct": penv.corpus.distinct}));
    if penv.corpus.total < 100 {
        ctx.inconclusive(&format!("only {} SQL literals harvested from /repo/tests", penv.corpus.total));
    }
    ctx.extra.insert("setup_s".into(), json!(t0.elapsed().as_secs_f64()));
    // the budget counts from the start of the run (setup included)
    let left = Duration::from_secs(budget_s).saturating_sub(t0.elapsed());
    let deadline = Instant::now() + left;
    let deadline_ms = now_ms() + left.as_millis() as u64;

    // job queue, units interleaved
    let mut queue: std::collections::VecDeque<Job> = Default::default();
    let mut per_unit: Vec<Vec<Job>> = vec![];
    for u in PLAN {
        if let Some(o) = &only {
            if !o.iter().any(|x| x == u.name) {
                continue;
            }
        }
        if !db_ok {
            continue;
        }
        let total = ((if quick { u.quick } else { u.thorough }) as f64 * scale) as u64;
        let chunk = if quick { u.chunk_quick } else { u.chunk_thorough };
        agg.units.entry(u.name.to_string()).or_default().planned = total;
        let mut v = vec![];
        let mut s = 0;
        while s < total {
            let e = (s + chunk).min(total);
            v.push(Job { unit: u.name, start: s, end: e, restarts: 0 });
            s = e;
        }
        per_unit.push(v);
    }
    loop {
        let mut any = false;
        for v in per_unit.iter_mut() {
            if !v.is_empty() {
                queue.push_back(v.remove(0));
                any = true;
            }
        }
        if !any {
            break;
        }
    }
    let ncpu = std::thread::available_parallelism().map(|n| n.get()).unwrap_or(4);
    let lanes: usize = std::env::var("TV_C22_LANES").ok().and_then(|s| s.parse().ok()).unwrap_or_else(|| ncpu.saturating_sub(2).clamp(2, 12));
    let max_restarts: u32 = if quick { 30 } else { 200 };

    // investigation workers
    // wall budget of the whole run: quick <= 90 s, thorough <= 12 min
    let stop_at = t0 + Duration::from_secs(if quick { 84 } else { 700 });
    let runner = Arc::new(OneRunner { exe: exe.clone(), root: root.clone(), tier: a.tier.clone(), seed: a.seed, counter: AtomicU64::new(0), stop_at });
    let results = Arc::new(Mutex::new(TaskResults::default()));
    let (tx, rx) = mpsc::channel::<Task>();
    let rx = Arc::new(Mutex::new(rx));
    let mut workers = vec![];
    for _ in 0..4 {
        let (rx, runner, results, tier, seed) = (rx.clone(), runner.clone(), results.clone(), a.tier.clone(), a.seed);
        workers.push(std::thread::spawn(move || loop {
            let t = match rx.lock().unwrap().recv() {
                Ok(t) => t,
                Err(_) => break,
            };
            match t {
                Task::Death { case, class, label, stderr, prov_key } => investigate_death(&runner, case, class, label, stderr, prov_key, &results, &tier, seed, false),
                Task::Hang { case, label, prov_key, blocked } => {
                    // the fit is checked again when the investigation really starts (it may have waited in the queue)
                    let needed = Duration::from_secs(if blocked { 34 } else { 135 });
                    if Instant::now() + needed > runner.stop_at {
                        bump(&results, if blocked { "soft_deadline_blocked_cases_not_rerun_no_time_left" } else { "soft_deadline_busy_cases_not_rerun_no_time_left" });
                        results.lock().unwrap().notes.push(json!({"hang_suspect_first_stage_only": {"unit": case.unit, "idx": case.idx, "at": label, "blocked": blocked}}));
                    } else {
                        investigate_hang(&runner, case, label, prov_key, &results, &tier, seed)
                    }
                }
            }
        }));
    }
    // provisional key -> occurrences (only the first two of a key are investigated)
    let mut prov_counts: BTreeMap<String, u64> = BTreeMap::new();
    let mut hang_tasks = 0u32;
    let mut death_tasks = 0u32;
    let mut suspects: Vec<Value> = vec![];

    let mut running: Vec<Running> = vec![];
    let mut jobno = 0u64;
    loop {
        let now = Instant::now();
        let expired = now >= deadline;
        while !expired && running.len() < lanes {
            let job = match queue.pop_front() {
                Some(j) => j,
                None => break,
            };
            jobno += 1;
            let dir = root.join(format!("job-{}", jobno));
            fresh_dir(&dir);
            let errf = std::fs::File::create(dir.join("stderr.txt")).expect("stderr file");
            let child = Command::new(&exe)
                .arg(PROP)
                .arg("--tier")
                .arg(&a.tier)
                .arg("--seed")
                .arg(a.seed.to_string())
                .arg("child")
                .arg(job.unit)
                .arg(job.start.to_string())
                .arg((job.end - job.start).to_string())
                .arg(&dir)
                .arg(&root)
                .arg(deadline_ms.to_string())
                .env("RUST_BACKTRACE", "0")
                .env("RUST_LIB_BACKTRACE", "0")
                .stdin(Stdio::null())
                .stdout(Stdio::null())
                .stderr(Stdio::from(errf))
                .spawn()
                .expect("spawn child");
            running.push(Running { job, child, dir, watch: Watch::new() });
        }
        if running.is_empty() && (queue.is_empty() || expired) {
            break;
        }
        let mut i = 0;
        while i < running.len() {
            let mut finished: Option<(Option<std::process::ExitStatus>, bool)> = None;
            let mut was_blocked = false;
            match running[i].child.try_wait() {
                Ok(Some(st)) => finished = Some((Some(st), false)),
                Ok(None) => {
                    let bb = read_blackbox(&running[i].dir.join("bb"));
                    let symbolizing = bb.as_ref().map(|b| b.4).unwrap_or(false);
                    let limit = if symbolizing { 90.0 } else { SOFT_CPU_S };
                    let pid = running[i].child.id();
                    let verdict = running[i].watch.poll(pid, &bb, limit, SOFT_BLOCKED_S);
                    if !matches!(verdict, Verdict::Fine) {
                        was_blocked = matches!(verdict, Verdict::Blocked(_));
                        let _ = running[i].child.kill();
                        let st = running[i].child.wait().ok();
                        finished = Some((st, true));
                    } else if expired && now > deadline + Duration::from_secs(3) {
                        let _ = running[i].child.kill();
                        let _ = running[i].child.wait();
                        let r = running.swap_remove(i);
                        let txt = std::fs::read_to_string(r.dir.join("res.jsonl")).unwrap_or_default();
                        agg.merge_lines(r.job.unit, txt.lines(), &mut ctx);
                        let fin = read_blackbox(&r.dir.join("bb")).map(|b| b.2).unwrap_or(0);
                        agg.units.entry(r.job.unit.to_string()).or_default().skipped += (r.job.end - r.job.start).saturating_sub(fin);
                        let _ = std::fs::remove_dir_all(&r.dir);
                        continue;
                    }
                }
                Err(_) => finished = Some((None, false)),
            }
            if let Some((status, soft_expired)) = finished {
                let r = running.swap_remove(i);
                let uname = r.job.unit;
                let txt = std::fs::read_to_string(r.dir.join("res.jsonl")).unwrap_or_default();
                let done = agg.merge_lines(uname, txt.lines(), &mut ctx);
                if !done {
                    let bb = read_blackbox(&r.dir.join("bb"));
                    let (idx, _, fin, label, _, flushed) = bb.unwrap_or((r.job.start, 0, 0, "start".into(), false, 0));
                    let stderr = std::fs::read_to_string(r.dir.join("stderr.txt")).unwrap_or_default();
                    let stderr_tail: Vec<String> = stderr.lines().rev().take(4).map(|s| s.chars().take(300).collect()).collect();
                    let ua = agg.units.entry(uname.to_string()).or_default();
                    let lost = fin.saturating_sub(flushed);
                    if label.is_empty() || label == "start" {
                        ua.skipped += r.job.end - r.job.start;
                        ctx.inconclusive(&format!("unit {} child died before its first case: {}", uname, stderr_tail.first().cloned().unwrap_or_default()));
                    } else {
                        ua.cases += lost + 1;
                        ctx.evals(lost + 1);
                        let class = if soft_expired { "soft_expired".to_string() } else { status.as_ref().map(|s| classify_death(s, &stderr)).unwrap_or_else(|| "unknown".into()) };
                        if label == "shrink" || label == "gen" || label == "copy" {
                            // the harness-side phases (the shrinker re-runs mutated candidates): the original finding is already
                            // recorded; a candidate that kills/hangs the worker is not followed up
                            ctx.count(&format!("worker_lost_during_{}", label), 1);
                        } else {
                            let case = gen_case(&penv, uname, idx);
                            let (entry, kind, _) = attribute(&case, &label, class == "alloc_abort");
                            let prov_key = format!("{}/{}/{}", entry, kind, if soft_expired { "hang".to_string() } else { format!("abort:{}", class) });
                            let n = prov_counts.entry(prov_key.clone()).or_insert(0);
                            *n += 1;
                            ctx.nontrivial(fnv(prov_key.as_bytes()) ^ idx);
                            if soft_expired {
                                ua.soft_expiries += 1;
                                // the second stage needs up to 40 s (blocked) / 120 CPU-s (busy): only started if it fits the wall budget
                                let needed = Duration::from_secs(if was_blocked { 34 } else { 135 });
                                if Instant::now() + needed > stop_at {
                                    ctx.count(if was_blocked { "soft_deadline_blocked_cases_not_rerun_no_time_left" } else { "soft_deadline_busy_cases_not_rerun_no_time_left" }, 1);
                                    if suspects.len() < 6 {
                                        suspects.push(json!({"unit": uname, "idx": idx, "at": label, "blocked": was_blocked, "entry": entry, "kind": kind, "sql": case.steps.get(label_step(&label).unwrap_or(0)).and_then(|s| s.sql()).map(|t| t.render().chars().take(300).collect::<String>())}));
                                    }
                                } else if *n <= 2 && hang_tasks < 8 {
                                    hang_tasks += 1;
                                    let _ = tx.send(Task::Hang { case, label: label.clone(), prov_key, blocked: was_blocked });
                                } else {
                                    ctx.count("soft_deadline_cases_not_rerun_cap", 1);
                                }
                            } else {
                                ua.deaths += 1;
                                if *n <= 2 && death_tasks < 40 {
                                    death_tasks += 1;
                                    let _ = tx.send(Task::Death { case, class, label: label.clone(), stderr: stderr_tail, prov_key });
                                }
                            }
                        }
                        let next = idx + 1;
                        if next < r.job.end {
                            if r.job.restarts < max_restarts {
                                queue.push_front(Job { unit: r.job.unit, start: next, end: r.job.end, restarts: r.job.restarts + 1 });
                            } else {
                                agg.units.entry(uname.to_string()).or_default().skipped += r.job.end - next;
                                ctx.count("jobs_abandoned_after_repeated_deaths", 1);
                            }
                        }
                    }
                } else {
                    let fin = read_blackbox(&r.dir.join("bb")).map(|b| b.2).unwrap_or(0);
                    let planned = r.job.end - r.job.start;
                    if fin < planned {
                        agg.units.entry(uname.to_string()).or_default().skipped += planned - fin;
                    }
                }
                let _ = std::fs::remove_dir_all(&r.dir);
                continue;
            }
            i += 1;
        }
        std::thread::sleep(Duration::from_millis(15));
    }
    for j in queue.iter() {
        agg.units.entry(j.unit.to_string()).or_default().skipped += j.end - j.start;
    }
    let main_phase_s = t0.elapsed().as_secs_f64();
    // wait for the investigations (second stage of the hang rule may take 120 CPU-s per case)
    drop(tx);
    for w in workers {
        let _ = w.join();
    }
    let tr = std::mem::take(&mut *results.lock().unwrap());
    let mut final_of: HashMap<String, String> = HashMap::new();
    for (sig, assertion, detail, prov) in tr.findings {
        final_of.entry(prov).or_insert_with(|| sig.clone());
        let unit = detail["case"]["unit"].as_str().unwrap_or("").to_string();
        let mut ex = detail.clone();
        let min = ex.as_object_mut().and_then(|m| m.remove("minimized")).filter(|m| !m.is_null());
        agg.add_sig(&unit, &sig, &assertion, 0, Some(ex));
        if let Some(m) = min {
            let s = agg.sigs.entry(sig.clone()).or_default();
            if s.minimized.is_none() {
                s.minimized = Some(m);
            }
        }
    }
    for (prov, n) in &prov_counts {
        // occurrences are booked on the signature the investigated witness resolved to; a suspected hang that
        // finished when run alone resolves to nothing and is only counted
        if let Some(sig) = final_of.get(prov) {
            agg.sigs.entry(sig.clone()).or_default().count += n;
        } else if !prov.ends_with("/hang") && !prov.ends_with("abort:SIGKILL") {
            let sig = format!("{}/{}", PROP, prov);
            agg.add_sig("", &sig, "no_abort", *n, Some(json!({"note": "worker deaths of this kind were seen but none was investigated (cap reached)"})));
        }
    }
    for (k, n) in tr.counters {
        ctx.count(&k, n);
    }
    if !suspects.is_empty() {
        ctx.extra.insert("hang_suspects_first_stage_only".into(), json!({"note": "exceeded the first-stage limit; the second stage (run alone, 120 CPU-s / 30 s blocked) did not fit into this tier's wall budget, so nothing is reported -- the thorough tier decides these", "cases": suspects}));
    }
    if !tr.notes.is_empty() {
        ctx.extra.insert("notes".into(), Value::Array(tr.notes.into_iter().take(12).collect()));
    }
    let not_run: u64 = agg.units.values().map(|u| u.skipped).sum();
    ctx.count("cases_planned_but_not_run", not_run);
    ctx.count("child_processes", jobno);
    ctx.count("single_case_child_processes", runner.counter.load(Ordering::Relaxed));
    ctx.extra.insert("lanes".into(), json!(lanes));
    ctx.extra.insert("budget_s".into(), json!(budget_s));
    ctx.extra.insert("main_phase_s".into(), json!(main_phase_s));
    for (u, ua) in agg.units.iter() {
        if ua.planned > 0 && ua.cases == 0 {
            ctx.inconclusive(&format!("unit {} executed no case", u));
        }
    }
    ctx.assumptions.push("workers run cases on a thread with an 8 MiB stack under RLIMIT_AS = 4 GiB; a stack overflow or allocation failure under these limits is reported (abort:stack_overflow / abort:alloc_abort)".into());
    ctx.assumptions.push("hang rule: a call that burns 20 CPU-s (all threads of the worker), or during which every thread of the worker sleeps for 8 s without consuming CPU (blocked on a lock: thread states read from /proc), is abandoned and its case re-run alone with limits of 120 CPU-s / 30 s blocked; only the second expiry is reported as <...>/hang. Row-combination budget of generated statements: product of the cardinalities of all table references <= 50000; size arguments of string functions are <= 300 or >= 2^40 (unsatisfiable)".into());
    ctx.assumptions.push("the harness profile has overflow-checks and debug-assertions on: signatures listed under signatures_depending_on_overflow_checks_or_debug_assertions are panics only in such a build (a release build wraps / skips the assertion)".into());
    ctx.assumptions.push("OwnedValue::Jsonb / ToastPointer parameters carry internal encodings; only empty or tiny payloads are passed (arbitrary bytes there are C23's domain)".into());
    ctx.exhaustive = Some(false);
    for (u, i) in [("gram", 3u64), ("mut", 5), ("params", 2), ("api", 1), ("deep", 7), ("func", 11)] {
        if let Ok(c) = guard(|| gen_case(&penv, u, i)) {
            let mut v = c.to_json();
            // keep samples short
            if v.to_string().len() > 3000 {
                v = json!({"unit": u, "idx": i, "tag": c.tag, "steps": c.steps.len(), "note": "large case elided"});
            }
            ctx.sample(v);
        }
    }
    agg.finish(&mut ctx);
    let _ = std::fs::remove_dir_all(&root);
    let _ = std::fs::remove_dir_all(&work_root);
    ctx.finish()
}

/// `tv C22 --replay <file>`: run the (minimal) case of a replay file in a monitored child and print what happened
fn replay_main(a: &Args, path: &str) -> i32 {
    let root = PathBuf::from(format!("{}/scratch/c22-{}", report::VERIF_DIR, std::process::id()));
    fresh_dir(&root);
    let txt = match std::fs::read_to_string(path) {
        Ok(t) => t,
        Err(e) => {
            eprintln!("cannot read {}: {}", path, e);
            return 2;
        }
    };
    let v: Value = serde_json::from_str(&txt).unwrap_or(Value::Null);
    let cv = if v.get("steps").is_some() {
        v.clone()
    } else if v["detail"]["minimized"]["case"].get("steps").is_some() {
        v["detail"]["minimized"]["case"].clone()
    } else {
        v["detail"]["examples"][0]["case"].clone()
    };
    let case = match Case::from_json(&cv) {
        Some(c) => c,
        None => {
            eprintln!("no case in {}", path);
            let _ = std::fs::remove_dir_all(&root);
            return 2;
        }
    };
    if let Err(e) = ensure_bases(&root) {
        eprintln!("cannot build the base database: {}", e);
        let _ = std::fs::remove_dir_all(&root);
        return 2;
    }
    let work_root = work_root_for(std::process::id());
    fresh_dir(&work_root);
    std::env::set_var("TV_C22_WORK_ROOT", &work_root);
    let runner = OneRunner { exe: std::env::current_exe().expect("exe"), root: root.clone(), tier: a.tier.clone(), seed: a.seed, counter: AtomicU64::new(0), stop_at: std::time::Instant::now() + std::time::Duration::from_secs(3600) };
    let r = runner.run(&case, HARD_CPU_S, HARD_BLOCKED_S);
    let _ = std::fs::remove_dir_all(&work_root);
    let code = match &r {
        OneResult::Finished(v, wall) => {
            println!("returned in {:.2}s: {}", wall, serde_json::to_string_pretty(v).unwrap_or_default());
            if v["failure"].is_null() {
                0
            } else {
                println!("VIOLATION property={} replay={}", PROP, path);
                1
            }
        }
        OneResult::Died(c, l, e) => {
            println!("worker died: abort:{} at step {} stderr={:?}", c, l, e);
            println!("VIOLATION property={} replay={}", PROP, path);
            1
        }
        OneResult::Expired(l, b, blocked, rss) => {
            println!("hang: {:.0} {} at step {} ({} MiB resident)", b, if *blocked { "s with every thread asleep (deadlock)" } else { "CPU-s burned" }, l, rss >> 20);
            println!("VIOLATION property={} replay={}", PROP, path);
            1
        }
        OneResult::Spawn(e) => {
            println!("INCONCLUSIVE property={} reason=cannot run child: {}", PROP, e);
            2
        }
    };
    let _ = std::fs::remove_dir_all(&root);
    code
}

pub fn run(a: &Args) -> i32 {
    match a.rest.first().map(|s| s.as_str()) {
        Some("child") => return child_main(a),
        Some("one") => return one_main(a),
        _ => {}
    }
    if cfg!(miri) {
        println!("INCONCLUSIVE property={} reason=C22 needs worker subprocesses and files (not runnable under Miri)", PROP);
        return 2;
    }
    if let Some(p) = &a.replay {
        return replay_main(a, p);
    }
    parent_main(a)
}

//! C23: decoders of stored bytes reject corruption without crashing.
//!
//! Every decoder is run on valid encodings (made with the real encoders) that were mutated
//! (field edits, bit flips, 0x00/0xFF runs, truncation, appends, splices) and on raw random bytes.
//! Monitor: catch_unwind + panic hook (signature = decoder + panic site), harness-side step bounds
//! for cursor loops (`no_progress`), and -- natively -- a parent/child split: cases run in re-exec'd
//! child processes (8 MiB worker stack, RLIMIT_AS) that publish (case index, current op, heartbeat)
//! in a shared-memory black box, so that an abort (allocation failure, stack overflow, double
//! panic), a fatal signal or a hang is attributed to the exact case and op by the parent.
//! Cases are a pure function of (seed, unit, index): `tv C23 --seed S child <unit> <idx> 1 <dir>`
//! replays one.  Under Miri only the in-memory units run, in-process, ~100 cases each.
#![allow(unused_variables, unused_mut, unused_assignments)]
use crate::memstore::{MemStore, PAGE};
use crate::report::{self, Ctx};
use crate::rng::{fnv, Rng};
use crate::Args;
use serde_json::{json, Value};
use std::cell::RefCell;
use std::collections::{BTreeMap, HashMap, HashSet};
use std::io::Write as _;
use std::path::{Path, PathBuf};

// ------------------------------------------------------------------------------------------
// panic capture: site = panic location if it is in /repo, else the first /repo frame of a backtrace
// ------------------------------------------------------------------------------------------
thread_local! {
    static REPO_FRAME: RefCell<Option<String>> = RefCell::new(None);
}
/// black box of this process (if any), so the panic hook can tell the parent that it is busy
/// symbolising a backtrace (slow on a loaded machine, must not be mistaken for a hang)
static BB_PTR: std::sync::atomic::AtomicPtr<u8> = std::sync::atomic::AtomicPtr::new(std::ptr::null_mut());

fn bb_symbolizing(on: bool) {
    let p = BB_PTR.load(std::sync::atomic::Ordering::Relaxed);
    if !p.is_null() {
        unsafe {
            std::ptr::write_volatile(p.add(24), on as u8);
            let hb = p.add(8) as *mut u64;
            std::ptr::write_volatile(hb, std::ptr::read_volatile(hb).wrapping_add(1));
        }
    }
}

fn first_repo_frame() -> Option<String> {
    if cfg!(miri) {
        return None;
    }
    bb_symbolizing(true);
    let bt = std::backtrace::Backtrace::force_capture().to_string();
    bb_symbolizing(false);
    for line in bt.lines() {
        let l = line.trim();
        if let Some(rest) = l.strip_prefix("at ") {
            if rest.starts_with("/repo/src/") {
                // "/repo/src/x.rs:12:5" -> "src/x.rs:12"
                let mut parts = rest["/repo/".len()..].split(':');
                let f = parts.next().unwrap_or("");
                let ln = parts.next().unwrap_or("");
                return Some(format!("{}:{}", f, ln));
            }
        }
    }
    None
}

fn install_hook() {
    use std::sync::Once;
    static ONCE: Once = Once::new();
    ONCE.call_once(|| {
        report::install_panic_hook();
        let prev = std::panic::take_hook();
        std::panic::set_hook(Box::new(move |info| {
            prev(info);
            let file = info.location().map(|l| l.file().to_string()).unwrap_or_default();
            let in_repo = file.starts_with("/repo/") || file.starts_with("src/");
            let fr = if in_repo { None } else { first_repo_frame() };
            REPO_FRAME.with(|p| *p.borrow_mut() = fr);
        }));
    });
}

/// run `f`; on panic return (site, message)
fn guard<T>(f: impl FnOnce() -> T) -> Result<T, (String, String)> {
    install_hook();
    REPO_FRAME.with(|p| p.borrow_mut().take());
    match report::catch(f) {
        Ok(v) => Ok(v),
        Err(msg) => {
            let raw = report::panic_site(&msg);
            let site = if let Some(s) = raw.strip_prefix("/repo/") {
                s.to_string()
            } else if raw.starts_with("src/") {
                raw.clone()
            } else {
                match REPO_FRAME.with(|p| p.borrow_mut().take()) {
                    Some(fr) => fr,
                    None => {
                        // location outside the repo and no symbolised frame: keep the std location (basename)
                        let b = raw.rsplit('/').next().unwrap_or(&raw).to_string();
                        format!("std:{}", b)
                    }
                }
            };
            let site = report::stable_site(&site);
            Err((site, msg))
        }
    }
}

// ------------------------------------------------------------------------------------------
// cases = base (named blobs made by the real encoders) + edits
// ------------------------------------------------------------------------------------------
#[derive(Clone)]
pub struct Blob {
    pub name: String,
    pub data: Vec<u8>,
}

#[derive(Clone, Copy)]
pub struct Field {
    pub blob: u16,
    pub off: u32,
    pub width: u8,
    /// >0: the field is a page pointer; interesting values include 0..=ptr_max
    pub ptr_max: u32,
}

#[derive(Clone, Debug)]
pub enum Edit {
    Set { blob: usize, off: usize, bytes: Vec<u8> },
    Fill { blob: usize, off: usize, len: usize, byte: u8 },
    Flip { blob: usize, off: usize, bit: u8 },
    Trunc { blob: usize, len: usize },
    Append { blob: usize, bytes: Vec<u8> },
    Copy { blob: usize, src: usize, dst: usize, len: usize },
}

impl Edit {
    fn kind(&self) -> &'static str {
        match self {
            Edit::Set { .. } => "set",
            Edit::Fill { byte: 0, .. } => "fill00",
            Edit::Fill { .. } => "fillff",
            Edit::Flip { .. } => "flip",
            Edit::Trunc { .. } => "trunc",
            Edit::Append { .. } => "append",
            Edit::Copy { .. } => "splice",
        }
    }
    fn apply(&self, blobs: &mut [Blob]) {
        match self {
            Edit::Set { blob, off, bytes } => {
                let d = &mut blobs[*blob].data;
                if *off < d.len() {
                    let n = bytes.len().min(d.len() - off);
                    d[*off..off + n].copy_from_slice(&bytes[..n]);
                }
            }
            Edit::Fill { blob, off, len, byte } => {
                let d = &mut blobs[*blob].data;
                if *off < d.len() {
                    let n = (*len).min(d.len() - off);
                    for b in &mut d[*off..off + n] {
                        *b = *byte;
                    }
                }
            }
            Edit::Flip { blob, off, bit } => {
                let d = &mut blobs[*blob].data;
                if *off < d.len() {
                    d[*off] ^= 1 << (bit & 7);
                }
            }
            Edit::Trunc { blob, len } => {
                let d = &mut blobs[*blob].data;
                if *len < d.len() {
                    d.truncate(*len);
                }
            }
            Edit::Append { blob, bytes } => blobs[*blob].data.extend_from_slice(bytes),
            Edit::Copy { blob, src, dst, len } => {
                let d = &mut blobs[*blob].data;
                if *src < d.len() && *dst < d.len() {
                    let n = (*len).min(d.len() - src).min(d.len() - dst);
                    d.copy_within(*src..src + n, *dst);
                }
            }
        }
    }
    fn describe(&self, blobs: &[Blob]) -> Value {
        let nm = |b: &usize| blobs.get(*b).map(|x| x.name.clone()).unwrap_or_default();
        match self {
            Edit::Set { blob, off, bytes } => json!({"op": "set", "blob": nm(blob), "off": off, "bytes_hex": hex(bytes, 64)}),
            Edit::Fill { blob, off, len, byte } => json!({"op": "fill", "blob": nm(blob), "off": off, "len": len, "byte": byte}),
            Edit::Flip { blob, off, bit } => json!({"op": "flip_bit", "blob": nm(blob), "off": off, "bit": bit}),
            Edit::Trunc { blob, len } => json!({"op": "truncate", "blob": nm(blob), "len": len}),
            Edit::Append { blob, bytes } => json!({"op": "append", "blob": nm(blob), "n": bytes.len(), "bytes_hex": hex(bytes, 64)}),
            Edit::Copy { blob, src, dst, len } => json!({"op": "copy_within", "blob": nm(blob), "src": src, "dst": dst, "len": len}),
        }
    }
}

pub fn hex(b: &[u8], max: usize) -> String {
    let mut s = String::with_capacity(b.len().min(max) * 2 + 8);
    for x in b.iter().take(max) {
        s.push_str(&format!("{:02x}", x));
    }
    if b.len() > max {
        s.push_str(&format!("..(+{}B)", b.len() - max));
    }
    s
}

pub struct Base {
    pub name: String,
    pub blobs: Vec<Blob>,
    /// groups of structural fields (a group is chosen uniformly, then a field)
    pub fields: Vec<Vec<Field>>,
    pub meta: Meta,
}

#[derive(Clone)]
pub struct Case {
    pub base: usize,
    /// raw input replacing blob 0 of the base (random bytes / crafted), before edits
    pub raw: Option<Vec<u8>>,
    pub edits: Vec<Edit>,
    pub seed: u64,
    pub tag: &'static str,
}

impl Case {
    fn materialize(&self, bases: &[Base]) -> Vec<Blob> {
        let mut blobs = bases[self.base].blobs.clone();
        if let Some(r) = &self.raw {
            blobs[0].data = r.clone();
        }
        for e in &self.edits {
            e.apply(&mut blobs);
        }
        blobs
    }
    fn describe(&self, unit: &str, idx: u64, bases: &[Base], seed: u64, tier: &str) -> Value {
        let b = &bases[self.base];
        let blobs = self.materialize(bases);
        let mut v = json!({
            "unit": unit, "case": idx, "base": b.name, "kind": self.tag,
            "edits": self.edits.iter().map(|e| e.describe(&b.blobs)).collect::<Vec<_>>(),
            "replay": format!("tv C23 --tier {} --seed {} child {} {} 1 /verif/scratch/c23-replay", tier, seed, unit, idx),
        });
        if self.raw.is_some() || blobs.iter().map(|x| x.data.len()).sum::<usize>() <= 512 {
            v["input_hex"] = json!(blobs.iter().map(|x| (x.name.clone(), hex(&x.data, 512))).collect::<Vec<_>>());
        }
        if !self.edits.is_empty() && self.raw.is_none() {
            // show the original bytes under each edit, so the repro reads "these bytes -> those bytes"
            let mut orig = vec![];
            for e in &self.edits {
                if let Edit::Set { blob, off, bytes } = e {
                    let d = &b.blobs[*blob].data;
                    if *off < d.len() {
                        let n = bytes.len().min(d.len() - off);
                        orig.push(json!({"blob": b.blobs[*blob].name, "off": off, "orig_hex": hex(&d[*off..off + n], 64)}));
                    }
                }
            }
            v["original_bytes"] = json!(orig);
        }
        v
    }
}

fn interesting(rng: &mut Rng, width: u8, cur: u64, ptr_max: u32, blob_len: usize) -> u64 {
    let max = if width >= 8 { u64::MAX } else { (1u64 << (8 * width as u32)) - 1 };
    if ptr_max > 0 && rng.chance(1, 2) {
        return rng.below(ptr_max as u64 + 2) & max;
    }
    let v = match rng.below(14) {
        0 => 0,
        1 => 1,
        2 => max,
        3 => max - 1,
        4 => max >> 1,
        5 => (max >> 1) + 1,
        6 => cur.wrapping_add(1),
        7 => cur.wrapping_sub(1),
        8 => cur.wrapping_add(rng.below(64)),
        9 => cur.wrapping_sub(rng.below(64)),
        10 => *rng.pick(&[16384u64, 16383, 16385, 16376, 16368, 128, 24, 16, 8191, 8192, 32768, 65535, 2045, 2046, 255, 256]),
        11 => (blob_len as i64 + rng.range(-2, 2)) as u64,
        12 => rng.next() >> rng.below(64),
        _ => rng.next(),
    };
    v & max
}

fn read_le(d: &[u8], off: usize, width: usize) -> u64 {
    let mut v = 0u64;
    for i in 0..width.min(8) {
        if off + i < d.len() {
            v |= (d[off + i] as u64) << (8 * i);
        }
    }
    v
}

/// 1..3 mutations of a base
fn mutate(rng: &mut Rng, base: &Base, page_blobs: bool, focus: Option<usize>) -> Vec<Edit> {
    let mut edits = vec![];
    let n = 1 + (rng.below(10) >= 6) as usize + (rng.below(10) >= 8) as usize;
    for _ in 0..n {
        let nb = base.blobs.len();
        // choose a blob: prefer non-empty ones
        let mut blob = rng.below(nb as u64) as usize;
        for _ in 0..4 {
            if !base.blobs[blob].data.is_empty() {
                break;
            }
            blob = rng.below(nb as u64) as usize;
        }
        if let Some(f) = focus {
            blob = f;
        }
        let len = base.blobs[blob].data.len();
        let d = &base.blobs[blob].data;
        let pos = |rng: &mut Rng| -> usize {
            if len == 0 {
                0
            } else if rng.chance(1, 3) {
                rng.below(len.min(64) as u64) as usize
            } else if page_blobs && rng.chance(1, 2) {
                // near the start of a page
                let pg = rng.below((len / PAGE).max(1) as u64) as usize;
                (pg * PAGE + rng.below(160) as usize).min(len - 1)
            } else {
                rng.below(len as u64) as usize
            }
        };
        let k = rng.below(100);
        let e = if k < 40 && !base.fields.is_empty() {
            let g = rng.pick(&base.fields);
            if g.is_empty() {
                continue;
            }
            let f = *rng.pick(g);
            let fd = &base.blobs[f.blob as usize].data;
            let cur = read_le(fd, f.off as usize, f.width as usize);
            let v = interesting(rng, f.width, cur, f.ptr_max, fd.len());
            Edit::Set { blob: f.blob as usize, off: f.off as usize, bytes: v.to_le_bytes()[..f.width as usize].to_vec() }
        } else if k < 50 {
            // aligned integer edit at an arbitrary place
            let w = *rng.pick(&[1usize, 2, 2, 4, 4, 8]);
            let off = pos(rng) / w * w;
            let cur = read_le(d, off, w);
            let v = interesting(rng, w as u8, cur, 0, len);
            Edit::Set { blob, off, bytes: v.to_le_bytes()[..w].to_vec() }
        } else if k < 62 {
            Edit::Flip { blob, off: pos(rng), bit: rng.below(8) as u8 }
        } else if k < 70 {
            let n = rng.usize(1, 8);
            Edit::Set { blob, off: pos(rng), bytes: rng.bytes(n) }
        } else if k < 80 {
            let l = if page_blobs && rng.chance(1, 4) { PAGE } else { rng.usize(1, 64) };
            let off = if l == PAGE { pos(rng) / PAGE * PAGE } else { pos(rng) };
            Edit::Fill { blob, off, len: l, byte: if rng.chance(1, 2) { 0 } else { 0xFF } }
        } else if k < 90 {
            let nl = match rng.below(6) {
                0 => len.saturating_sub(1),
                1 => len.saturating_sub(rng.usize(1, 9)),
                2 => rng.below(9.min(len as u64 + 1)) as usize,
                3 if page_blobs => (len / PAGE).saturating_sub(rng.usize(0, 2)) * PAGE + if rng.chance(1, 2) { 0 } else { rng.usize(1, PAGE - 1) },
                4 => len / 2,
                _ => rng.below(len as u64 + 1) as usize,
            };
            Edit::Trunc { blob, len: nl.min(len) }
        } else if k < 94 {
            let n = if page_blobs && rng.chance(1, 2) { PAGE } else { rng.usize(1, 16) };
            let bytes = if rng.chance(1, 2) { vec![0u8; n] } else { rng.bytes(n) };
            Edit::Append { blob, bytes }
        } else {
            if page_blobs && len >= 2 * PAGE {
                let np = len / PAGE;
                let s = rng.below(np as u64) as usize;
                let t = rng.below(np as u64) as usize;
                Edit::Copy { blob, src: s * PAGE, dst: t * PAGE, len: PAGE }
            } else {
                Edit::Copy { blob, src: pos(rng), dst: pos(rng), len: rng.usize(1, 32) }
            }
        };
        edits.push(e);
    }
    edits
}

fn random_bytes_input(rng: &mut Rng, page_sized: bool) -> Vec<u8> {
    let len = match rng.below(10) {
        0 => rng.usize(0, 4),
        1..=3 => rng.usize(0, 24),
        4..=6 => rng.usize(8, 200),
        7 => rng.usize(100, 3000),
        _ => {
            if page_sized {
                PAGE
            } else {
                rng.usize(0, 64)
            }
        }
    };
    let mut v = rng.bytes(len);
    // low-entropy variants: small values are far more likely to pass length checks
    match rng.below(4) {
        0 => {
            for b in v.iter_mut() {
                *b &= 0x0F;
            }
        }
        1 => {
            for b in v.iter_mut() {
                if *b > 0x40 {
                    *b = 0;
                }
            }
        }
        _ => {}
    }
    v
}

// ------------------------------------------------------------------------------------------
// per-base metadata
// ------------------------------------------------------------------------------------------
pub enum Meta {
    None,
    Record { schema: turdb::records::Schema, types: Vec<turdb::records::DataType>, comp_fields: usize },
    Jsonb { keys: Vec<String> },
    Composite { fields: usize },
    Header { kind: &'static str },
    Leaf { probes: Vec<Vec<u8>> },
    Interior { probes: Vec<Vec<u8>> },
    Tree { root: u32, probes: Vec<Vec<u8>> },
    Hnsw { kind: &'static str, dims: usize },
    Wal { fixable: bool },
    Db { wal: bool, focus: usize },
}

// ------------------------------------------------------------------------------------------
// black box: shared file mapping the parent can read after the child died
// layout: [0..8) case index  [8..16) heartbeat  [16..24) cases finished  [24] symbolising flag
// [80..88) cases whose counters were flushed to the result file  [32..80) op label (NUL padded)
// ------------------------------------------------------------------------------------------
pub struct BlackBox {
    ptr: *mut u8,
}
unsafe impl Send for BlackBox {}
const BB_SIZE: usize = 4096;

impl BlackBox {
    #[cfg(not(miri))]
    fn open(path: &Path) -> Option<BlackBox> {
        use std::os::unix::io::AsRawFd;
        let f = std::fs::OpenOptions::new().read(true).write(true).create(true).open(path).ok()?;
        f.set_len(BB_SIZE as u64).ok()?;
        let p = unsafe { libc::mmap(std::ptr::null_mut(), BB_SIZE, libc::PROT_READ | libc::PROT_WRITE, libc::MAP_SHARED, f.as_raw_fd(), 0) };
        if p == libc::MAP_FAILED {
            return None;
        }
        BB_PTR.store(p as *mut u8, std::sync::atomic::Ordering::Relaxed);
        Some(BlackBox { ptr: p as *mut u8 })
    }
    #[cfg(miri)]
    fn open(_path: &Path) -> Option<BlackBox> {
        None
    }
    fn begin(&self, idx: u64) {
        unsafe {
            std::ptr::write_volatile(self.ptr as *mut u64, idx);
            let hb = self.ptr.add(8) as *mut u64;
            std::ptr::write_volatile(hb, std::ptr::read_volatile(hb).wrapping_add(1));
        }
    }
    fn finished(&self, n: u64) {
        unsafe { std::ptr::write_volatile(self.ptr.add(16) as *mut u64, n) }
    }
    fn flushed(&self, n: u64) {
        unsafe { std::ptr::write_volatile(self.ptr.add(80) as *mut u64, n) }
    }
    fn op(&self, label: &str) {
        unsafe {
            let hb = self.ptr.add(8) as *mut u64;
            std::ptr::write_volatile(hb, std::ptr::read_volatile(hb).wrapping_add(1));
            let dst = self.ptr.add(32);
            let b = label.as_bytes();
            let n = b.len().min(47);
            std::ptr::copy_nonoverlapping(b.as_ptr(), dst, n);
            std::ptr::write_volatile(dst.add(n), 0);
        }
    }
}

/// parent side: (case idx, heartbeat, finished, label, symbolising, flushed)
fn read_blackbox(path: &Path) -> Option<(u64, u64, u64, String, bool, u64)> {
    let d = std::fs::read(path).ok()?;
    if d.len() < 96 {
        return None;
    }
    let idx = u64::from_le_bytes(d[0..8].try_into().ok()?);
    let hb = u64::from_le_bytes(d[8..16].try_into().ok()?);
    let fin = u64::from_le_bytes(d[16..24].try_into().ok()?);
    let lab = &d[32..80];
    let n = lab.iter().position(|b| *b == 0).unwrap_or(lab.len());
    let flushed = u64::from_le_bytes(d[80..88].try_into().ok()?);
    Some((idx, hb, fin, String::from_utf8_lossy(&lab[..n]).to_string(), d[24] != 0, flushed))
}

// ------------------------------------------------------------------------------------------
// recorder: collects outcomes of one job (child process or in-process)
// ------------------------------------------------------------------------------------------
pub struct Rec {
    pub unit: String,
    bb: Option<BlackBox>,
    out: Option<std::fs::File>,
    /// lines kept in memory when there is no result file (in-process mode)
    pub lines: Vec<String>,
    evals: u64,
    ops: u64,
    ok: u64,
    err: u64,
    panics: u64,
    new_nt: Vec<u64>,
    seen_nt: HashSet<u64>,
    sig_delta: BTreeMap<String, u64>,
    sig_examples: HashMap<String, u32>,
    ctr: BTreeMap<String, u64>,
    // per case
    case_hash: u64,
    case_sigs: Vec<(String, String, Value)>, // (sig, assertion, detail) raised by the current case
    quiet: bool,
}

impl Rec {
    fn new(unit: &str, bb: Option<BlackBox>, out: Option<std::fs::File>) -> Rec {
        Rec {
            unit: unit.to_string(),
            bb,
            out,
            lines: vec![],
            evals: 0,
            ops: 0,
            ok: 0,
            err: 0,
            panics: 0,
            new_nt: vec![],
            seen_nt: HashSet::new(),
            sig_delta: BTreeMap::new(),
            sig_examples: HashMap::new(),
            ctr: BTreeMap::new(),
            case_hash: 0,
            case_sigs: vec![],
            quiet: false,
        }
    }
    fn emit(&mut self, v: Value) {
        let s = v.to_string();
        match &mut self.out {
            Some(f) => {
                let _ = f.write_all(s.as_bytes());
                let _ = f.write_all(b"\n");
            }
            None => self.lines.push(s),
        }
    }
    fn count(&mut self, k: &str, n: u64) {
        *self.ctr.entry(k.to_string()).or_insert(0) += n;
    }
    fn mix(&mut self, label: &str, class: u8) {
        self.case_hash = (self.case_hash ^ fnv(label.as_bytes()) ^ class as u64).wrapping_mul(0x100000001b3).rotate_left(7);
    }
    fn label(&mut self, label: &str) {
        self.ops += 1;
        if let Some(bb) = &self.bb {
            bb.op(label);
        }
    }
    /// run one opaque call; a panic becomes a violation "C23/<decoder>/panic/<site>"
    pub fn run<T>(&mut self, label: &'static str, f: impl FnOnce() -> T) -> Option<T> {
        self.label(label);
        match guard(f) {
            Ok(v) => {
                self.mix(label, 0);
                Some(v)
            }
            Err((site, msg)) => {
                self.panics += 1;
                self.mix(label, 2);
                let dec = label.split('.').next().unwrap_or(label);
                if site.starts_with("src/props/") || site.starts_with("src/report") || site.starts_with("src/memstore") || site.starts_with("src/rng") {
                    // a panic in the harness itself is a defect of the check, never a finding about TurDB
                    self.raise(format!("C23/harness_bug/{}", site), "harness", json!({"op": label, "panic": msg}));
                    return None;
                }
                let sig = format!("C23/{}/panic/{}", dec, site);
                self.raise(sig, "no_panic", json!({"op": label, "panic": msg}));
                None
            }
        }
    }
    /// same for calls returning Result: counts Ok/Err
    pub fn run_res<T, E>(&mut self, label: &'static str, f: impl FnOnce() -> Result<T, E>) -> Option<T> {
        match self.run(label, f) {
            Some(Ok(v)) => {
                self.ok += 1;
                Some(v)
            }
            Some(Err(_)) => {
                self.err += 1;
                self.mix(label, 1);
                None
            }
            None => None,
        }
    }
    pub fn raise(&mut self, sig: String, assertion: &str, detail: Value) {
        if self.case_sigs.iter().any(|(s, _, _)| *s == sig) {
            return;
        }
        self.case_sigs.push((sig, assertion.to_string(), detail));
    }
    fn begin_case(&mut self, idx: u64) {
        self.case_hash = 0;
        self.case_sigs.clear();
        if let Some(bb) = &self.bb {
            bb.begin(idx);
        }
    }
    fn flush_progress(&mut self) {
        let nt = std::mem::take(&mut self.new_nt);
        let sd = std::mem::take(&mut self.sig_delta);
        let ctr = std::mem::take(&mut self.ctr);
        let v = json!({"t": "p", "evals": self.evals, "ops": self.ops, "ok": self.ok, "err": self.err, "panics": self.panics, "nt": nt, "sigc": sd, "ctr": ctr});
        self.evals = 0;
        self.ops = 0;
        self.ok = 0;
        self.err = 0;
        self.panics = 0;
        self.emit(v);
    }
}

// ------------------------------------------------------------------------------------------
// exact-size aligned buffer: the slice handed to a decoder ends where the allocation ends,
// so an over-read in an `unsafe` path is visible to Miri / ASan; `shift` varies the alignment
// ------------------------------------------------------------------------------------------
struct ExactBuf {
    ptr: *mut u8,
    layout: Option<std::alloc::Layout>,
    shift: usize,
    len: usize,
}
impl ExactBuf {
    fn new(data: &[u8], shift: usize) -> ExactBuf {
        let total = data.len() + shift;
        if total == 0 {
            return ExactBuf { ptr: std::ptr::NonNull::<u32>::dangling().as_ptr() as *mut u8, layout: None, shift: 0, len: 0 };
        }
        let layout = std::alloc::Layout::from_size_align(total, 8).unwrap();
        let ptr = unsafe { std::alloc::alloc_zeroed(layout) };
        assert!(!ptr.is_null());
        unsafe { std::ptr::copy_nonoverlapping(data.as_ptr(), ptr.add(shift), data.len()) };
        ExactBuf { ptr, layout: Some(layout), shift, len: data.len() }
    }
    fn slice(&self) -> &[u8] {
        unsafe { std::slice::from_raw_parts(self.ptr.add(self.shift), self.len) }
    }
}
impl Drop for ExactBuf {
    fn drop(&mut self) {
        if let Some(l) = self.layout {
            unsafe { std::alloc::dealloc(self.ptr, l) }
        }
    }
}

// ------------------------------------------------------------------------------------------
// records / jsonb / arrays / composites
// ------------------------------------------------------------------------------------------
use turdb::records::{ArrayBuilder, ArrayView, CompositeView, DataType, JsonbBuilder, JsonbBuilderValue, JsonbValue, JsonbView, RecordBuilder, RecordView};

const ALL_TYPES: [DataType; 33] = [
    DataType::Bool, DataType::Int2, DataType::Int4, DataType::Int8, DataType::Float4, DataType::Float8, DataType::Date, DataType::Time,
    DataType::Timestamp, DataType::TimestampTz, DataType::Uuid, DataType::MacAddr, DataType::Inet4, DataType::Inet6, DataType::Text, DataType::Blob,
    DataType::Vector, DataType::Jsonb, DataType::Varchar, DataType::Char, DataType::Decimal, DataType::Interval, DataType::Int4Range, DataType::Int8Range,
    DataType::DateRange, DataType::TimestampRange, DataType::Enum, DataType::Point, DataType::Box, DataType::Circle, DataType::Composite, DataType::Array,
    DataType::Bool,
];

fn rand_text(rng: &mut Rng, max: usize) -> String {
    let n = rng.usize(0, max);
    (0..n).map(|_| *rng.pick(&['a', 'b', 'z', '0', ' ', 'é', '"', '\\', 'ü', '\n', 'k'])).collect()
}

fn gen_jsonb_value(rng: &mut Rng, depth: u32) -> JsonbBuilderValue {
    let k = if depth >= 3 { rng.below(4) } else { rng.below(6) };
    match k {
        0 => JsonbBuilderValue::Null,
        1 => JsonbBuilderValue::Bool(rng.chance(1, 2)),
        2 => JsonbBuilderValue::Number(if rng.chance(1, 2) { rng.range(-1000, 1000) as f64 } else { rng.f64() * 1e6 }),
        3 => JsonbBuilderValue::String(rand_text(rng, 12)),
        4 => JsonbBuilderValue::Array((0..rng.usize(0, 5)).map(|_| gen_jsonb_value(rng, depth + 1)).collect()),
        _ => JsonbBuilderValue::Object((0..rng.usize(0, 5)).map(|i| (format!("{}{}", *rng.pick(&["a", "b", "key", "x"]), i), gen_jsonb_value(rng, depth + 1))).collect()),
    }
}

fn gen_jsonb(rng: &mut Rng) -> (Vec<u8>, Vec<String>) {
    let mut keys = vec!["a".to_string(), "a0".to_string()];
    let bytes = match rng.below(6) {
        0 => JsonbBuilder::new_null().build(),
        1 => JsonbBuilder::new_number(rng.f64() * 100.0).build(),
        2 => JsonbBuilder::new_string(rand_text(rng, 20)).build(),
        3 => {
            let mut b = JsonbBuilder::new_array();
            for _ in 0..rng.usize(0, 8) {
                b.push(gen_jsonb_value(rng, 1));
            }
            b.build()
        }
        _ => {
            let mut b = JsonbBuilder::new_object();
            for i in 0..rng.usize(0, 8) {
                let k = format!("{}{}", *rng.pick(&["a", "b", "key", "zz"]), i);
                keys.push(k.clone());
                b.set(k, gen_jsonb_value(rng, 1));
            }
            b.build()
        }
    };
    (bytes, keys)
}

fn gen_array(rng: &mut Rng) -> Vec<u8> {
    let t = *rng.pick(&[DataType::Int2, DataType::Int4, DataType::Int8, DataType::Float4, DataType::Float8, DataType::Bool, DataType::Text, DataType::Blob]);
    let mut b = ArrayBuilder::new(t);
    let n = rng.usize(0, 20);
    for _ in 0..n {
        if rng.chance(1, 6) {
            b.push_null();
            continue;
        }
        match t {
            DataType::Int2 => b.push_int2(rng.next() as i16),
            DataType::Int4 => b.push_int4(rng.next() as i32),
            DataType::Int8 => b.push_int8(rng.next() as i64),
            DataType::Float4 => b.push_float4(rng.f64() as f32),
            DataType::Float8 => b.push_float8(rng.f64()),
            DataType::Bool => b.push_bool(rng.chance(1, 2)),
            DataType::Text => b.push_text(&rand_text(rng, 10)),
            _ => {
                let l = rng.usize(0, 10);
                b.push_blob(&rng.bytes(l))
            }
        }
    }
    b.build()
}

fn col_def(i: usize, t: DataType) -> turdb::records::ColumnDef {
    match t {
        DataType::Char => turdb::records::ColumnDef::new_char(format!("c{}", i), 8),
        DataType::Varchar => turdb::records::ColumnDef::new_varchar(format!("c{}", i), Some(40)),
        _ => turdb::records::ColumnDef::new(format!("c{}", i), t),
    }
}

fn gen_record(rng: &mut Rng, types: &[DataType], depth: u32) -> (turdb::records::Schema, Vec<u8>) {
    let schema = turdb::records::Schema::new(types.iter().enumerate().map(|(i, t)| col_def(i, *t)).collect());
    let bytes = {
        let mut b = RecordBuilder::new(&schema);
        for (i, t) in types.iter().enumerate() {
            if rng.chance(1, 8) {
                b.set_null(i);
                continue;
            }
            let r = match t {
                DataType::Bool => b.set_bool(i, rng.chance(1, 2)),
                DataType::Int2 => b.set_int2(i, rng.next() as i16),
                DataType::Int4 => b.set_int4(i, rng.next() as i32),
                DataType::Int8 => b.set_int8(i, rng.next() as i64),
                DataType::Float4 => b.set_float4(i, rng.f64() as f32),
                DataType::Float8 => b.set_float8(i, rng.f64()),
                DataType::Date => b.set_date(i, rng.next() as i32),
                DataType::Time => b.set_time(i, rng.next() as i64),
                DataType::Timestamp => b.set_timestamp(i, rng.next() as i64),
                DataType::TimestampTz => b.set_timestamptz(i, rng.next() as i64, rng.range(-50000, 50000) as i32),
                DataType::Uuid => {
                    let u: [u8; 16] = rng.bytes(16).try_into().unwrap();
                    b.set_uuid(i, &u)
                }
                DataType::MacAddr => {
                    let u: [u8; 6] = rng.bytes(6).try_into().unwrap();
                    b.set_macaddr(i, &u)
                }
                DataType::Inet4 => {
                    let u: [u8; 4] = rng.bytes(4).try_into().unwrap();
                    b.set_inet4(i, &u)
                }
                DataType::Inet6 => {
                    let u: [u8; 16] = rng.bytes(16).try_into().unwrap();
                    b.set_inet6(i, &u)
                }
                DataType::Text => b.set_text(i, &rand_text(rng, 24)),
                DataType::Varchar => b.set_varchar(i, &rand_text(rng, 10)),
                DataType::Char => b.set_char(i, "abc"),
                DataType::Blob => {
                    let l = rng.usize(0, 24);
                    b.set_blob(i, &rng.bytes(l))
                }
                DataType::Vector => {
                    let n = rng.usize(0, 9);
                    let v: Vec<f32> = (0..n).map(|_| rng.f64() as f32).collect();
                    b.set_vector(i, &v)
                }
                DataType::Jsonb => {
                    let (bytes, _) = gen_jsonb(rng);
                    b.set_jsonb_bytes(i, &bytes)
                }
                DataType::Decimal => b.set_decimal(i, rng.next() as i128, rng.range(0, 10) as i16, rng.chance(1, 2)),
                DataType::Interval => b.set_interval(i, rng.next() as i64, rng.next() as i32, rng.next() as i32),
                DataType::Int4Range | DataType::DateRange => {
                    if rng.chance(1, 5) {
                        b.set_int4_range_empty(i)
                    } else {
                        let lo = if rng.chance(1, 4) { None } else { Some(rng.next() as i32) };
                        let hi = if rng.chance(1, 4) { None } else { Some(rng.next() as i32) };
                        b.set_int4_range(i, lo, hi, rng.chance(1, 2), rng.chance(1, 2))
                    }
                }
                DataType::Int8Range | DataType::TimestampRange => {
                    if rng.chance(1, 5) {
                        b.set_int8_range_empty(i)
                    } else {
                        let lo = if rng.chance(1, 4) { None } else { Some(rng.next() as i64) };
                        let hi = if rng.chance(1, 4) { None } else { Some(rng.next() as i64) };
                        b.set_int8_range(i, lo, hi, rng.chance(1, 2), rng.chance(1, 2))
                    }
                }
                DataType::Enum => b.set_enum(i, rng.next() as u16, rng.next() as u16),
                DataType::Point => b.set_point(i, rng.f64(), rng.f64()),
                DataType::Box => b.set_box(i, (rng.f64(), rng.f64()), (rng.f64(), rng.f64())),
                DataType::Circle => b.set_circle(i, (rng.f64(), rng.f64()), rng.f64()),
                DataType::Composite => {
                    if depth < 2 {
                        let (_, inner) = gen_record(rng, &[DataType::Int4, DataType::Text, DataType::Bool], depth + 1);
                        b.set_composite(i, &inner)
                    } else {
                        b.set_composite(i, &[4, 0, 0, 0])
                    }
                }
                DataType::Array => b.set_array(i, &gen_array(rng)),
            };
            r.expect("record builder on valid input");
        }
        b.build().expect("record build")
    };
    (schema, bytes)
}

fn record_fields(bytes: &[u8], ncols: usize, nvar: usize) -> Vec<Vec<Field>> {
    let mut hdr = vec![Field { blob: 0, off: 0, width: 2, ptr_max: 0 }];
    let bm = (ncols + 7) / 8;
    let mut bitmap = vec![];
    for i in 0..bm {
        bitmap.push(Field { blob: 0, off: (2 + i) as u32, width: 1, ptr_max: 0 });
    }
    let mut offs = vec![];
    for i in 0..nvar {
        offs.push(Field { blob: 0, off: (2 + bm + 2 * i) as u32, width: 2, ptr_max: 0 });
    }
    let hl = 2 + bm + 2 * nvar;
    let mut body = vec![];
    let mut o = hl;
    while o + 4 <= bytes.len() {
        body.push(Field { blob: 0, off: o as u32, width: 4, ptr_max: 0 });
        o += 4;
    }
    let mut g = vec![hdr];
    if !bitmap.is_empty() {
        g.push(bitmap);
    }
    if !offs.is_empty() {
        g.push(offs.clone());
        g.push(offs); // the offset table is the main attack surface
    }
    if !body.is_empty() {
        g.push(body);
    }
    g
}

fn build_record_bases(rng: &mut Rng, small: bool) -> Vec<Base> {
    let mut out = vec![];
    let n = if small { 6 } else { 24 };
    for bi in 0..n {
        let types: Vec<DataType> = if bi % 4 == 0 {
            let mut t = ALL_TYPES[..32].to_vec();
            rng.shuffle(&mut t);
            t
        } else {
            let k = rng.usize(1, 10);
            (0..k).map(|_| *rng.pick(&ALL_TYPES)).collect()
        };
        let (schema, bytes) = gen_record(rng, &types, 0);
        let nvar = types.iter().filter(|t| t.fixed_size().is_none()).count();
        let fields = record_fields(&bytes, types.len(), nvar);
        out.push(Base {
            name: format!("record#{} schema={:?}", bi, types),
            blobs: vec![Blob { name: "record".into(), data: bytes }],
            fields,
            meta: Meta::Record { schema, types, comp_fields: 3 },
        });
    }
    out
}

fn consume_value(v: &JsonbValue, rec: &mut Rec, depth: u32) {
    match v {
        JsonbValue::Array(view) | JsonbValue::Object(view) => {
            if depth < 3 {
                let view = *view;
                jsonb_ops(rec, view, &[], depth + 1);
            }
        }
        JsonbValue::String(s) => {
            std::hint::black_box(s.len());
        }
        _ => {}
    }
}

fn jsonb_ops(rec: &mut Rec, v: JsonbView, keys: &[String], depth: u32) {
    rec.run("JsonbView.root_type", || v.root_type());
    let n = rec.run("JsonbView.entry_count", || v.entry_count()).unwrap_or(0);
    if let Some(val) = rec.run_res("JsonbView.as_value", || v.as_value()) {
        if depth == 0 {
            if let JsonbValue::String(s) = &val {
                std::hint::black_box(s.len());
            }
        }
    }
    rec.run_res("JsonbView.to_json_string", || v.to_json_string());
    for k in keys.iter().take(4) {
        if let Some(Some(val)) = rec.run_res("JsonbView.get", || v.get(k)) {
            consume_value(&val, rec, depth);
        }
    }
    rec.run_res("JsonbView.get", || v.get("a"));
    rec.run_res("JsonbView.get", || v.get("zzzz"));
    rec.run_res("JsonbView.get_path", || v.get_path(&["a0", "b1"]));
    rec.run_res("JsonbView.get_path", || v.get_path(&[]));
    rec.run_res("JsonbView.array_len", || v.array_len());
    rec.run_res("JsonbView.object_len", || v.object_len());
    let mut idxs = vec![0usize, 1, 2, n / 2, n.wrapping_sub(1), n, n + 1];
    idxs.sort();
    idxs.dedup();
    for i in idxs {
        if let Some(Some(val)) = rec.run_res("JsonbView.array_get", || v.array_get(i)) {
            consume_value(&val, rec, depth);
        }
    }
    rec.run("JsonbView.iter_object", || {
        if let Ok(it) = v.iter_object() {
            for (k, item) in it.enumerate() {
                if k > 4096 || item.is_err() {
                    break;
                }
            }
        }
    });
    rec.run("JsonbView.iter_array", || {
        if let Ok(it) = v.iter_array() {
            for (k, item) in it.enumerate() {
                if k > 4096 || item.is_err() {
                    break;
                }
            }
        }
    });
}

fn array_ops(rec: &mut Rec, v: ArrayView) {
    rec.run("ArrayView.elem_type", || v.elem_type());
    let n = rec.run("ArrayView.len", || v.len()).unwrap_or(0);
    rec.run("ArrayView.is_empty", || v.is_empty());
    let mut idxs = vec![0usize, 1, 2, 7, 8, n / 2, n.wrapping_sub(1), n, n + 1, 65534];
    idxs.sort();
    idxs.dedup();
    for i in idxs {
        rec.run("ArrayView.is_null", || v.is_null(i));
        rec.run_res("ArrayView.get_int2", || v.get_int2(i));
        rec.run_res("ArrayView.get_int4", || v.get_int4(i));
        rec.run_res("ArrayView.get_int8", || v.get_int8(i));
        rec.run_res("ArrayView.get_float4", || v.get_float4(i));
        rec.run_res("ArrayView.get_float8", || v.get_float8(i));
        rec.run_res("ArrayView.get_bool", || v.get_bool(i));
        rec.run_res("ArrayView.get_text", || v.get_text(i).map(|s| s.len()));
        rec.run_res("ArrayView.get_blob", || v.get_blob(i).map(|s| s.len()));
    }
}

fn composite_ops(rec: &mut Rec, v: CompositeView, depth: u32) {
    let fc = v.field_count();
    for i in 0..=fc.min(9) {
        rec.run("CompositeView.is_null", || v.is_null(i));
        rec.run_res("CompositeView.get_field", || v.get_field(i).map(|s| s.len()));
        if depth < 2 {
            if let Some(n) = rec.run_res("CompositeView.get_nested_composite", || v.get_nested_composite(i, 3)) {
                composite_ops(rec, n, depth + 1);
            }
        }
    }
}

fn exec_record(rec: &mut Rec, base: &Base, blobs: &[Blob], seed: u64) {
    let (schema, types, comp_fields) = match &base.meta {
        Meta::Record { schema, types, comp_fields } => (schema, types, *comp_fields),
        _ => return,
    };
    let buf = ExactBuf::new(&blobs[0].data, (seed % 4) as usize);
    let data = buf.slice();
    let view = match rec.run_res("RecordView.new", || RecordView::new(data, schema)) {
        Some(v) => v,
        None => return,
    };
    let v = &view;
    rec.run("RecordView.header_len", || v.header_len());
    rec.run("RecordView.null_bitmap", || v.null_bitmap().len());
    rec.run("RecordView.offset_table", || v.offset_table().len());
    rec.run("RecordView.record_column_count", || v.record_column_count());
    for (i, t) in types.iter().enumerate() {
        rec.run("RecordView.is_null", || v.is_null(i));
        rec.run("RecordView.is_null_or_missing", || v.is_null_or_missing(i));
        match t {
            DataType::Bool => {
                rec.run_res("RecordView.get_bool", || v.get_bool(i));
                rec.run_res("RecordView.get_bool_opt", || v.get_bool_opt(i));
            }
            DataType::Int2 => {
                rec.run_res("RecordView.get_int2", || v.get_int2(i));
                rec.run_res("RecordView.get_int2_opt", || v.get_int2_opt(i));
            }
            DataType::Int4 => {
                rec.run_res("RecordView.get_int4", || v.get_int4(i));
                rec.run_res("RecordView.get_int4_opt", || v.get_int4_opt(i));
            }
            DataType::Int8 => {
                rec.run_res("RecordView.get_int8", || v.get_int8(i));
                rec.run_res("RecordView.get_int8_opt", || v.get_int8_opt(i));
            }
            DataType::Float4 => {
                rec.run_res("RecordView.get_float4", || v.get_float4(i));
                rec.run_res("RecordView.get_float4_opt", || v.get_float4_opt(i));
            }
            DataType::Float8 => {
                rec.run_res("RecordView.get_float8", || v.get_float8(i));
                rec.run_res("RecordView.get_float8_opt", || v.get_float8_opt(i));
            }
            DataType::Date => {
                rec.run_res("RecordView.get_date", || v.get_date(i));
                rec.run_res("RecordView.get_date_opt", || v.get_date_opt(i));
            }
            DataType::Time => {
                rec.run_res("RecordView.get_time", || v.get_time(i));
                rec.run_res("RecordView.get_time_opt", || v.get_time_opt(i));
            }
            DataType::Timestamp => {
                rec.run_res("RecordView.get_timestamp", || v.get_timestamp(i));
                rec.run_res("RecordView.get_timestamp_opt", || v.get_timestamp_opt(i));
            }
            DataType::TimestampTz => {
                rec.run_res("RecordView.get_timestamptz", || v.get_timestamptz(i));
                rec.run_res("RecordView.get_timestamptz_opt", || v.get_timestamptz_opt(i));
            }
            DataType::Uuid => {
                rec.run_res("RecordView.get_uuid", || v.get_uuid(i).map(|u| u[15]));
                rec.run_res("RecordView.get_uuid_opt", || v.get_uuid_opt(i).map(|u| u.map(|x| x[15])));
            }
            DataType::MacAddr => {
                rec.run_res("RecordView.get_macaddr", || v.get_macaddr(i).map(|u| u[5]));
                rec.run_res("RecordView.get_macaddr_opt", || v.get_macaddr_opt(i).map(|u| u.map(|x| x[5])));
            }
            DataType::Inet4 => {
                rec.run_res("RecordView.get_inet4", || v.get_inet4(i).map(|u| u[3]));
                rec.run_res("RecordView.get_inet4_opt", || v.get_inet4_opt(i).map(|u| u.map(|x| x[3])));
            }
            DataType::Inet6 => {
                rec.run_res("RecordView.get_inet6", || v.get_inet6(i).map(|u| u[15]));
                rec.run_res("RecordView.get_inet6_opt", || v.get_inet6_opt(i).map(|u| u.map(|x| x[15])));
            }
            DataType::Text => {
                rec.run_res("RecordView.get_text", || v.get_text(i).map(|s| s.len()));
                rec.run_res("RecordView.get_text_opt", || v.get_text_opt(i).map(|s| s.map(|x| x.len())));
                rec.run_res("RecordView.get_var_bounds", || v.get_var_bounds(i));
            }
            DataType::Varchar => {
                rec.run_res("RecordView.get_varchar", || v.get_varchar(i).map(|s| s.len()));
            }
            DataType::Char => {
                rec.run_res("RecordView.get_char", || v.get_char(i).map(|s| s.len()));
            }
            DataType::Blob => {
                rec.run_res("RecordView.get_blob", || v.get_blob(i).map(|s| s.iter().map(|b| *b as u64).sum::<u64>()));
                rec.run_res("RecordView.get_blob_opt", || v.get_blob_opt(i).map(|s| s.map(|x| x.len())));
                rec.run_res("RecordView.get_var_raw", || v.get_var_raw(i).map(|s| s.len()));
            }
            DataType::Vector => {
                // read every element of the zero-copy slice so an out-of-bounds slice is observable
                if rec.run_res("RecordView.get_vector", || v.get_vector(i).map(|s| s.iter().map(|f| f.to_bits() as u64).sum::<u64>())).is_some() {
                    rec.count("record_get_vector_zero_copy_reads", 1);
                }
                rec.run_res("RecordView.get_vector_copy", || v.get_vector_copy(i).map(|s| s.len()));
                rec.run_res("RecordView.get_vector_opt", || v.get_vector_opt(i).map(|s| s.map(|x| x.len())));
            }
            DataType::Jsonb => {
                if let Some(j) = rec.run_res("RecordView.get_jsonb", || v.get_jsonb(i)) {
                    jsonb_ops(rec, j, &[], 1);
                }
                rec.run_res("RecordView.get_jsonb_opt", || v.get_jsonb_opt(i).map(|x| x.is_some()));
            }
            DataType::Decimal => {
                if let Some(d) = rec.run_res("RecordView.get_decimal", || v.get_decimal(i)) {
                    rec.run("DecimalView.read", || (d.is_negative(), d.scale(), d.digits()));
                }
                rec.run_res("RecordView.get_decimal_opt", || v.get_decimal_opt(i).map(|x| x.is_some()));
            }
            DataType::Interval => {
                rec.run_res("RecordView.get_interval", || v.get_interval(i));
                rec.run_res("RecordView.get_interval_opt", || v.get_interval_opt(i));
            }
            DataType::Int4Range => {
                rec.run_res("RecordView.get_int4_range", || v.get_int4_range(i).map(|_| ()));
                rec.run_res("RecordView.get_int4_range_opt", || v.get_int4_range_opt(i).map(|_| ()));
            }
            DataType::DateRange => {
                rec.run_res("RecordView.get_date_range", || v.get_date_range(i).map(|_| ()));
                rec.run_res("RecordView.get_date_range_opt", || v.get_date_range_opt(i).map(|_| ()));
            }
            DataType::Int8Range => {
                rec.run_res("RecordView.get_int8_range", || v.get_int8_range(i).map(|_| ()));
                rec.run_res("RecordView.get_int8_range_opt", || v.get_int8_range_opt(i).map(|_| ()));
            }
            DataType::TimestampRange => {
                rec.run_res("RecordView.get_timestamp_range", || v.get_timestamp_range(i).map(|_| ()));
                rec.run_res("RecordView.get_timestamp_range_opt", || v.get_timestamp_range_opt(i).map(|_| ()));
            }
            DataType::Enum => {
                rec.run_res("RecordView.get_enum", || v.get_enum(i));
                rec.run_res("RecordView.get_enum_opt", || v.get_enum_opt(i));
            }
            DataType::Point => {
                rec.run_res("RecordView.get_point", || v.get_point(i));
                rec.run_res("RecordView.get_point_opt", || v.get_point_opt(i));
            }
            DataType::Box => {
                rec.run_res("RecordView.get_box", || v.get_box(i));
                rec.run_res("RecordView.get_box_opt", || v.get_box_opt(i));
            }
            DataType::Circle => {
                rec.run_res("RecordView.get_circle", || v.get_circle(i));
                rec.run_res("RecordView.get_circle_opt", || v.get_circle_opt(i));
            }
            DataType::Composite => {
                if let Some(c) = rec.run_res("RecordView.get_composite", || v.get_composite(i, comp_fields)) {
                    composite_ops(rec, c, 0);
                }
                rec.run_res("RecordView.get_composite_opt", || v.get_composite_opt(i, comp_fields).map(|x| x.is_some()));
            }
            DataType::Array => {
                if let Some(a) = rec.run_res("RecordView.get_array", || v.get_array(i)) {
                    array_ops(rec, a);
                }
                rec.run_res("RecordView.get_array_opt", || v.get_array_opt(i).map(|x| x.is_some()));
            }
        }
    }
}

fn build_jsonb_bases(rng: &mut Rng, small: bool) -> Vec<Base> {
    let n = if small { 6 } else { 24 };
    (0..n)
        .map(|i| {
            let (bytes, keys) = gen_jsonb(rng);
            let mut hdr = vec![Field { blob: 0, off: 0, width: 4, ptr_max: 0 }, Field { blob: 0, off: 0, width: 1, ptr_max: 0 }, Field { blob: 0, off: 3, width: 1, ptr_max: 0 }];
            let mut ents = vec![];
            let cnt = if bytes.len() >= 4 { (u32::from_le_bytes(bytes[0..4].try_into().unwrap()) & 0x0FFF_FFFF) as usize } else { 0 };
            let root = if bytes.len() >= 4 { bytes[3] >> 4 } else { 9 };
            if root <= 1 {
                for e in 0..cnt {
                    if 4 + 4 * e + 4 <= bytes.len() {
                        ents.push(Field { blob: 0, off: (4 + 4 * e) as u32, width: 4, ptr_max: 0 });
                        ents.push(Field { blob: 0, off: (4 + 4 * e) as u32, width: 2, ptr_max: 0 });
                        ents.push(Field { blob: 0, off: (4 + 4 * e + 3) as u32, width: 1, ptr_max: 0 });
                    }
                }
            }
            let mut body = vec![];
            let mut o = 4 + 4 * if root <= 1 { cnt } else { 0 };
            while o + 2 <= bytes.len() {
                body.push(Field { blob: 0, off: o as u32, width: 2, ptr_max: 0 });
                o += 2;
            }
            let mut fields = vec![hdr];
            if !ents.is_empty() {
                fields.push(ents);
            }
            if !body.is_empty() {
                fields.push(body);
            }
            Base { name: format!("jsonb#{} ({} bytes)", i, bytes.len()), blobs: vec![Blob { name: "jsonb".into(), data: bytes }], fields, meta: Meta::Jsonb { keys } }
        })
        .collect()
}

fn exec_jsonb(rec: &mut Rec, base: &Base, blobs: &[Blob], seed: u64) {
    let keys: &[String] = match &base.meta {
        Meta::Jsonb { keys } => keys,
        _ => &[],
    };
    let buf = ExactBuf::new(&blobs[0].data, (seed % 2) as usize);
    let data = buf.slice();
    if let Some(v) = rec.run_res("JsonbView.new", || JsonbView::new(data)) {
        jsonb_ops(rec, v, keys, 0);
    }
}

fn build_array_bases(rng: &mut Rng, small: bool) -> Vec<Base> {
    let n = if small { 6 } else { 20 };
    let mut out: Vec<Base> = (0..n)
        .map(|i| {
            let bytes = gen_array(rng);
            let hdr = vec![
                Field { blob: 0, off: 0, width: 4, ptr_max: 0 },
                Field { blob: 0, off: 4, width: 1, ptr_max: 0 },
                Field { blob: 0, off: 5, width: 1, ptr_max: 0 },
                Field { blob: 0, off: 6, width: 2, ptr_max: 0 },
            ];
            let mut body = vec![];
            let mut o = 8;
            while o + 4 <= bytes.len() {
                body.push(Field { blob: 0, off: o as u32, width: 4, ptr_max: 0 });
                o += 1;
            }
            let mut fields = vec![hdr];
            if !body.is_empty() {
                fields.push(body);
            }
            Base { name: format!("array#{} elem_type_byte={} n={}", i, bytes[4], u16::from_le_bytes([bytes[6], bytes[7]])), blobs: vec![Blob { name: "array".into(), data: bytes }], fields, meta: Meta::None }
        })
        .collect();
    // composite values (nested records)
    for i in 0..(if small { 2 } else { 6 }) {
        let (_, bytes) = gen_record(rng, &[DataType::Int4, DataType::Text, DataType::Bool], 1);
        let fields = record_fields(&bytes, 3, 1);
        out.push(Base { name: format!("composite#{} (int4,text,bool)", i), blobs: vec![Blob { name: "composite".into(), data: bytes }], fields, meta: Meta::Composite { fields: 3 } });
    }
    out
}

fn exec_array(rec: &mut Rec, base: &Base, blobs: &[Blob], seed: u64) {
    let buf = ExactBuf::new(&blobs[0].data, (seed % 2) as usize);
    let data = buf.slice();
    if let Meta::Composite { fields } = &base.meta {
        let fc = if seed % 5 == 0 { 64 } else { *fields };
        if let Some(c) = rec.run_res("CompositeView.new", || CompositeView::new(data, fc)) {
            composite_ops(rec, c, 0);
        }
        return;
    }
    if let Some(v) = rec.run_res("ArrayView.new", || ArrayView::new(data)) {
        array_ops(rec, v);
    }
}

// ------------------------------------------------------------------------------------------
// keys / varints
// ------------------------------------------------------------------------------------------
use turdb::encoding::key as ek;

fn gen_key(rng: &mut Rng, depth: u32, out: &mut Vec<u8>) {
    let k = if depth >= 3 { rng.below(16) } else { rng.below(24) };
    match k {
        0 => ek::encode_null(out),
        1 => ek::encode_bool(rng.chance(1, 2), out),
        2 => ek::encode_int(rng.next() as i64 >> rng.below(64), out),
        3 => ek::encode_float(if rng.chance(1, 8) { f64::NAN } else { (rng.f64() - 0.5) * 1e9 }, out),
        4 => ek::encode_text(&rand_text(rng, 16), out),
        5 => {
            let l = rng.usize(0, 16);
            let mut b = rng.bytes(l);
            if l > 2 {
                b[0] = 0;
                b[1] = 0xFF;
            }
            ek::encode_blob(&b, out)
        }
        6 => ek::encode_date(rng.next() as i32, out),
        7 => ek::encode_timestamp(rng.next() as i64, out),
        8 => {
            let u: [u8; 16] = rng.bytes(16).try_into().unwrap();
            ek::encode_uuid(&u, out)
        }
        9 => ek::encode_time(rng.next() as i64, out),
        10 => ek::encode_timestamptz(rng.next() as i64, rng.next() as i16, out),
        11 => ek::encode_interval(rng.next() as i32, rng.next() as i32, rng.next() as i64, out),
        12 => {
            let v6 = rng.chance(1, 2);
            let a = rng.bytes(16);
            ek::encode_inet(v6, &a, rng.below(129) as u8, out)
        }
        13 => {
            let u: [u8; 6] = rng.bytes(6).try_into().unwrap();
            ek::encode_macaddr(&u, out)
        }
        14 => ek::encode_enum(rng.next() as u32, rng.next() as u32, out),
        15 => {
            let n = rng.usize(0, 6);
            let v: Vec<f32> = (0..n).map(|_| (rng.f64() - 0.5) as f32).collect();
            ek::encode_vector(&v, out)
        }
        16 | 17 => {
            let n = rng.usize(0, 4);
            let seeds: Vec<u64> = (0..n).map(|_| rng.next()).collect();
            let f = |s: &u64, b: &mut Vec<u8>| {
                let mut r = Rng::new(*s);
                gen_key(&mut r, depth + 1, b)
            };
            if k == 16 {
                ek::encode_tuple(&seeds, out, f)
            } else {
                ek::encode_array(&seeds, out, f)
            }
        }
        18 => {
            let lo = if rng.chance(1, 3) { None } else { Some(rng.next()) };
            let hi = if rng.chance(1, 3) { None } else { Some(rng.next()) };
            ek::encode_range(lo.as_ref(), hi.as_ref(), rng.chance(1, 2), rng.chance(1, 2), out, |s: &u64, b: &mut Vec<u8>| {
                let mut r = Rng::new(*s);
                gen_key(&mut r, 3, b)
            })
        }
        19 => {
            let n = rng.usize(0, 4);
            let seeds: Vec<u64> = (0..n).map(|_| rng.next()).collect();
            ek::encode_composite(rng.next() as u32, &seeds, out, |s: &u64, b: &mut Vec<u8>| {
                let mut r = Rng::new(*s);
                gen_key(&mut r, depth + 1, b)
            })
        }
        20 => {
            let s = rng.next();
            ek::encode_domain(rng.next() as u32, &s, out, |s: &u64, b: &mut Vec<u8>| {
                let mut r = Rng::new(*s);
                gen_key(&mut r, depth + 1, b)
            })
        }
        _ => {
            let t = rand_text(rng, 6);
            let arr = [ek::JsonValue::Number(rng.f64()), ek::JsonValue::Null, ek::JsonValue::String("s")];
            let obj = [("k", ek::JsonValue::Bool(true)), ("l", ek::JsonValue::Array(&arr))];
            let j = match rng.below(5) {
                0 => ek::JsonValue::Null,
                1 => ek::JsonValue::Number((rng.f64() - 0.5) * 100.0),
                2 => ek::JsonValue::String(&t),
                3 => ek::JsonValue::Array(&arr),
                _ => ek::JsonValue::Object(&obj),
            };
            ek::encode_json(&j, out)
        }
    }
}

fn build_key_bases(rng: &mut Rng, small: bool) -> Vec<Base> {
    let n = if small { 12 } else { 48 };
    (0..n)
        .map(|i| {
            let mut b = vec![];
            gen_key(rng, 0, &mut b);
            // composite index keys are concatenations
            if rng.chance(1, 4) {
                gen_key(rng, 1, &mut b);
            }
            Base { name: format!("key#{} prefix=0x{:02x} len={}", i, b[0], b.len()), blobs: vec![Blob { name: "key".into(), data: b }], fields: vec![], meta: Meta::None }
        })
        .collect()
}

/// crafted deeply nested inputs: the recursive decoder has no depth limit
fn deep_key(kind: u64, depth: usize) -> Vec<u8> {
    let mut v = Vec::new();
    match kind % 4 {
        0 => {
            for _ in 0..depth {
                v.extend_from_slice(&[0x65, 0, 0, 0, 1]); // DOMAIN + type id
            }
            v.push(0x01);
        }
        1 => {
            for _ in 0..depth {
                v.extend_from_slice(&[0x62, 0x02]); // RANGE, upper bound absent, lower present
            }
            v.push(0x01);
        }
        2 => {
            for _ in 0..depth {
                v.push(0x60); // ARRAY of one element
            }
            v.push(0x01);
            for _ in 0..depth {
                v.push(0x00);
            }
        }
        _ => {
            for _ in 0..depth {
                v.push(0x55); // JSON_ARRAY
            }
            v.push(0x50);
            for _ in 0..depth {
                v.push(0x00);
            }
        }
    }
    v
}

fn exec_key(rec: &mut Rec, blobs: &[Blob]) {
    let buf = ExactBuf::new(&blobs[0].data, 0);
    let data = buf.slice();
    let mut off = 0usize;
    // decode a concatenation the way index keys are read
    for _ in 0..4 {
        if off >= data.len() && off > 0 {
            break;
        }
        let d = &data[off.min(data.len())..];
        match rec.run_res("decode_key.decode", || ek::decode_key(d)) {
            Some((k, used)) => {
                if used > d.len() || used == 0 {
                    rec.raise("C23/decode_key/consumed_gt_len".into(), "consumed_le_len", json!({"consumed": used, "len": d.len()}));
                    break;
                }
                rec.run("decode_key.drop", move || drop(k));
                off += used;
            }
            None => break,
        }
    }
}

fn exec_varint(rec: &mut Rec, blobs: &[Blob]) {
    let buf = ExactBuf::new(&blobs[0].data, 0);
    let data = buf.slice();
    if let Some((_, used)) = rec.run_res("decode_varint.decode", || turdb::encoding::varint::decode_varint(data)) {
        if used > data.len() || used == 0 {
            rec.raise("C23/decode_varint/consumed_gt_len".into(), "consumed_le_len", json!({"consumed": used, "len": data.len()}));
        }
    }
}

fn build_varint_bases(rng: &mut Rng) -> Vec<Base> {
    let mut out = vec![];
    for v in [0u64, 240, 241, 2287, 2288, 67823, 67824, 1 << 24, 1 << 32, 1 << 40, 1 << 48, 1 << 56, u64::MAX, rng.next()] {
        let mut b = [0u8; 9];
        let n = turdb::encoding::varint::encode_varint(v, &mut b);
        out.push(Base { name: format!("varint({})", v), blobs: vec![Blob { name: "varint".into(), data: b[..n].to_vec() }], fields: vec![], meta: Meta::None });
    }
    out
}

// ------------------------------------------------------------------------------------------
// catalog
// ------------------------------------------------------------------------------------------
use turdb::schema::persistence::CatalogPersistence;
use turdb::schema::{Catalog, Constraint, IndexDef, IndexType, ReferentialAction, TableDef};

fn gen_catalog(rng: &mut Rng) -> Catalog {
    let mut cat = Catalog::new();
    let root = cat.default_schema().to_string();
    let nt = rng.usize(0, 4);
    for t in 0..nt {
        let nc = rng.usize(1, 6);
        let mut cols = vec![];
        for c in 0..nc {
            let dt = *rng.pick(&ALL_TYPES);
            let mut col = turdb::schema::ColumnDef::new(format!("col{}", c), dt);
            for _ in 0..rng.below(3) {
                col = col.with_constraint(match rng.below(6) {
                    0 => Constraint::NotNull,
                    1 => Constraint::PrimaryKey,
                    2 => Constraint::Unique,
                    3 => Constraint::AutoIncrement,
                    4 => Constraint::Check(format!("col{} > {}", c, rng.below(10))),
                    _ => Constraint::ForeignKey { table: "t0".into(), column: "col0".into(), on_delete: Some(ReferentialAction::Cascade), on_update: if rng.chance(1, 2) { None } else { Some(ReferentialAction::SetNull) } },
                });
            }
            if rng.chance(1, 3) {
                col = col.with_default(format!("{}", rng.below(100)));
            }
            if rng.chance(1, 3) {
                col = col.with_max_length(rng.below(300) as u32);
            }
            cols.push(col);
        }
        let mut td = TableDef::new(t as u64 + 1, format!("t{}", t), cols);
        if rng.chance(1, 2) {
            td = td.with_primary_key(vec!["col0".to_string()]);
        }
        for ix in 0..rng.below(3) {
            td = td.with_index(IndexDef::new(format!("idx{}_{}", t, ix), vec!["col0".to_string()], rng.chance(1, 2), if rng.chance(1, 4) { IndexType::Hnsw } else { IndexType::BTree }));
        }
        if rng.chance(1, 3) {
            td = td.with_toast_id(100 + t as u64);
        }
        cat.get_schema_mut(&root).unwrap().add_table(td);
    }
    cat
}

fn catalog_fields(bytes: &[u8], base_off: usize) -> Vec<Vec<Field>> {
    // every 2- and 4-byte window is a potential length/count field in this format
    let mut w2 = vec![];
    let mut w4 = vec![];
    let mut o = base_off;
    while o + 2 <= bytes.len() {
        w2.push(Field { blob: 0, off: o as u32, width: 2, ptr_max: 0 });
        if o + 4 <= bytes.len() {
            w4.push(Field { blob: 0, off: o as u32, width: 4, ptr_max: 0 });
        }
        o += 1;
    }
    let mut g = vec![];
    if !w2.is_empty() {
        g.push(w2);
    }
    if !w4.is_empty() {
        g.push(w4);
    }
    g
}

fn build_catalog_bases(rng: &mut Rng, small: bool) -> Vec<Base> {
    let n = if small { 3 } else { 10 };
    (0..n)
        .map(|i| {
            let cat = gen_catalog(rng);
            let bytes = CatalogPersistence::serialize(&cat).expect("serialize catalog");
            let fields = catalog_fields(&bytes, 0);
            Base { name: format!("catalog#{} ({} bytes)", i, bytes.len()), blobs: vec![Blob { name: "catalog".into(), data: bytes }], fields, meta: Meta::None }
        })
        .collect()
}

fn exec_catalog(rec: &mut Rec, blobs: &[Blob]) {
    let buf = ExactBuf::new(&blobs[0].data, 0);
    let data = buf.slice();
    let mut cat = Catalog::new();
    let ok = rec.run_res("CatalogPersistence.deserialize", || CatalogPersistence::deserialize(data, &mut cat)).is_some();
    if ok {
        rec.run("CatalogPersistence.walk", || {
            let mut n = 0usize;
            for (_, s) in cat.schemas() {
                for (_, t) in s.tables() {
                    n += t.columns().len() + t.indexes().len() + t.primary_key().map(|p| p.len()).unwrap_or(0);
                }
            }
            n
        });
        rec.run_res("CatalogPersistence.reserialize", || CatalogPersistence::serialize(&cat));
    }
}

// ------------------------------------------------------------------------------------------
// file / page headers, HNSW pages and nodes (in memory)
// ------------------------------------------------------------------------------------------
use turdb::hnsw::storage::{HnswFileHeader, HnswPage, HnswPageRef};
use turdb::hnsw::{DistanceFunction, HnswNode, HnswNodeInline, NodeId, QuantizationType};
use turdb::storage::{validate_page, IndexFileHeader, MetaFileHeader, PageHeader, TableFileHeader};
use zerocopy_bytes::AsBytesCompat;

/// headers are written through the real constructors; `IntoBytes` lives in zerocopy, which the
/// harness does not depend on, so the bytes are obtained through the crate's own `write`-style APIs
mod zerocopy_bytes {
    pub trait AsBytesCompat {
        fn raw_bytes(&self) -> Vec<u8>;
    }
    impl<T: Copy> AsBytesCompat for T {
        fn raw_bytes(&self) -> Vec<u8> {
            // all header structs are repr(C), Unaligned, without padding (size asserted == 128 in turdb)
            let p = self as *const T as *const u8;
            unsafe { std::slice::from_raw_parts(p, std::mem::size_of::<T>()).to_vec() }
        }
    }
}

fn header_fields() -> Vec<Vec<Field>> {
    let mut w1 = vec![];
    let mut w2 = vec![];
    let mut w4 = vec![];
    let mut w8 = vec![];
    for o in 0..128u32 {
        w1.push(Field { blob: 0, off: o, width: 1, ptr_max: 0 });
        if o % 2 == 0 {
            w2.push(Field { blob: 0, off: o, width: 2, ptr_max: 0 });
        }
        if o % 4 == 0 && o >= 16 {
            w4.push(Field { blob: 0, off: o, width: 4, ptr_max: 8 });
        }
        if o % 8 == 0 && o >= 16 {
            w8.push(Field { blob: 0, off: o, width: 8, ptr_max: 0 });
        }
    }
    vec![w1, w2, w4, w8]
}

fn make_hnsw_node(rng: &mut Rng) -> Vec<u8> {
    let ml = rng.below(4) as u8;
    let mut n = HnswNode::new(rng.next(), ml);
    for _ in 0..rng.below(20) {
        n.add_level0_neighbor(NodeId::new(rng.below(8) as u32, rng.below(8) as u16));
    }
    for l in 1..=ml {
        for _ in 0..rng.below(8) {
            n.add_neighbor_at_level(l, NodeId::new(rng.below(8) as u32, rng.below(8) as u16));
        }
    }
    let mut buf = vec![0u8; n.serialized_size()];
    let w = n.write_to(&mut buf);
    buf.truncate(w);
    buf
}

fn make_hnsw_page(rng: &mut Rng) -> Vec<u8> {
    let mut page = vec![0u8; PAGE];
    {
        let mut p = HnswPage::init(&mut page).expect("hnsw page init");
        for _ in 0..rng.usize(0, 12) {
            let node = make_hnsw_node(rng);
            if let Ok(slot) = p.allocate_slot(node.len() as u16 + rng.below(16) as u16) {
                p.write_node_data(slot, &node).expect("write node");
                if rng.chance(1, 6) {
                    let _ = p.mark_deleted(slot);
                }
            }
        }
    }
    page
}

fn hnsw_page_fields(page: &[u8]) -> Vec<Vec<Field>> {
    let mut hdr = vec![];
    for o in [0u32, 1, 2, 4, 6] {
        hdr.push(Field { blob: 0, off: o, width: if o < 2 { 1 } else { 2 }, ptr_max: 0 });
    }
    for o in [16u32, 18, 20, 22, 24, 26] {
        hdr.push(Field { blob: 0, off: o, width: 2, ptr_max: 0 });
    }
    hdr.push(Field { blob: 0, off: 28, width: 4, ptr_max: 8 });
    let cnt = u16::from_le_bytes([page[16], page[17]]) as usize;
    let mut slots = vec![];
    let mut nodes = vec![];
    for s in 0..cnt.min(64) {
        let so = 64 + 4 * s;
        slots.push(Field { blob: 0, off: so as u32, width: 2, ptr_max: 0 });
        slots.push(Field { blob: 0, off: so as u32 + 2, width: 2, ptr_max: 0 });
        let off = (u16::from_le_bytes([page[so], page[so + 1]]) & 0x1FFF) as usize;
        if off + 10 < page.len() {
            nodes.push(Field { blob: 0, off: off as u32 + 8, width: 1, ptr_max: 0 });
            nodes.push(Field { blob: 0, off: off as u32 + 9, width: 1, ptr_max: 0 });
            nodes.push(Field { blob: 0, off: off as u32 + 10, width: 4, ptr_max: 8 });
        }
    }
    let mut g = vec![hdr];
    if !slots.is_empty() {
        g.push(slots);
    }
    if !nodes.is_empty() {
        g.push(nodes);
    }
    g
}

fn build_header_bases(rng: &mut Rng) -> Vec<Base> {
    let mut out = vec![];
    let mut add = |name: &str, kind: &'static str, mut bytes: Vec<u8>, pad: usize| {
        bytes.resize(bytes.len() + pad, 0);
        out.push(Base { name: name.to_string(), blobs: vec![Blob { name: kind.into(), data: bytes }], fields: header_fields(), meta: Meta::Header { kind } });
    };
    add("MetaFileHeader::new()", "meta", MetaFileHeader::new().raw_bytes(), 0);
    add("MetaFileHeader::new() + page", "meta", MetaFileHeader::new().raw_bytes(), PAGE - 128);
    add("TableFileHeader::new(7,300,1,5,0,301)", "table", TableFileHeader::new(7, 300, 1, 5, 0, 301).raw_bytes(), 0);
    add("TableFileHeader::new(1,u64::MAX-1,3,2,9,u64::MAX-1)", "table", TableFileHeader::new(1, u64::MAX - 1, 3, 2, 9, u64::MAX - 1).raw_bytes(), 16);
    add("IndexFileHeader::new(3,7,1,2,true,0)", "index", IndexFileHeader::new(3, 7, 1, 2, true, 0).raw_bytes(), 0);
    add("HnswFileHeader::new(1,2,4,16,100,32,L2,None)", "hnsw", HnswFileHeader::new(1, 2, 4, 16, 100, 32, DistanceFunction::L2, QuantizationType::None).raw_bytes(), 0);
    add("HnswFileHeader::new(9,9,128,8,50,16,Cosine,SQ8)", "hnsw", HnswFileHeader::new(9, 9, 128, 8, 50, 16, DistanceFunction::Cosine, QuantizationType::SQ8).raw_bytes(), PAGE - 128);
    // a page header on a valid leaf page
    let mut page = vec![0u8; PAGE];
    {
        let mut l = turdb::btree::LeafNodeMut::init(&mut page).unwrap();
        l.insert_cell(b"k1", b"v1").unwrap();
    }
    out.push(Base {
        name: "PageHeader of a one-cell leaf page".into(),
        blobs: vec![Blob { name: "page".into(), data: page }],
        fields: vec![(0..16u32).map(|o| Field { blob: 0, off: o, width: 1, ptr_max: 0 }).collect(), (0..8u32).map(|o| Field { blob: 0, off: o * 2, width: 2, ptr_max: 0 }).collect()],
        meta: Meta::Header { kind: "page" },
    });
    out
}

fn exec_header(rec: &mut Rec, base: &Base, blobs: &[Blob]) {
    let kind = match &base.meta {
        Meta::Header { kind } => *kind,
        _ => return,
    };
    let buf = ExactBuf::new(&blobs[0].data, 0);
    let d = buf.slice();
    match kind {
        "meta" => {
            if let Some(h) = rec.run_res("MetaFileHeader.from_bytes", || MetaFileHeader::from_bytes(d)) {
                rec.run("MetaFileHeader.getters", || (h.version(), h.page_size(), h.schema_count(), h.default_schema_id(), h.next_table_id(), h.next_index_id(), h.flags()));
            }
        }
        "table" => {
            if let Some(h) = rec.run_res("TableFileHeader.from_bytes", || TableFileHeader::from_bytes(d)) {
                rec.run("TableFileHeader.getters", || (h.table_id(), h.row_count(), h.root_page(), h.column_count(), h.first_free_page(), h.auto_increment(), h.rightmost_hint()));
            }
            let mut copy = d.to_vec();
            rec.run_res("TableFileHeader.from_bytes_mut", || TableFileHeader::from_bytes_mut(&mut copy).map(|h| h.row_count()));
        }
        "index" => {
            if let Some(h) = rec.run_res("IndexFileHeader.from_bytes", || IndexFileHeader::from_bytes(d)) {
                rec.run("IndexFileHeader.getters", || (h.index_id(), h.table_id(), h.root_page(), h.key_column_count(), h.is_unique(), h.index_type()));
            }
            let mut copy = d.to_vec();
            rec.run_res("IndexFileHeader.from_bytes_mut", || IndexFileHeader::from_bytes_mut(&mut copy).map(|h| h.root_page()));
        }
        "hnsw" => {
            if let Some(h) = rec.run_res("HnswFileHeader.from_bytes", || HnswFileHeader::from_bytes(d)) {
                rec.run("HnswFileHeader.getters", || {
                    (h.index_id(), h.table_id(), h.dimensions(), h.m(), h.m0(), h.ef_construction(), h.ef_search(), h.distance_fn(), h.quantization(), h.entry_point().map(|e| e.page_no()), h.max_level(), h.node_count(), h.vector_count(), h.first_free_page())
                });
                rec.run("HnswIndex.from_header", || {
                    let ix = turdb::hnsw::HnswIndex::from_header(h);
                    (ix.dimensions(), ix.m(), ix.node_count(), ix.max_level())
                });
            }
            let mut copy = d.to_vec();
            rec.run_res("HnswFileHeader.from_bytes_mut", || HnswFileHeader::from_bytes_mut(&mut copy).map(|h| h.node_count()));
        }
        _ => {
            if let Some(h) = rec.run_res("PageHeader.from_bytes", || PageHeader::from_bytes(d)) {
                rec.run("PageHeader.getters", || (h.page_type(), h.flags(), h.cell_count(), h.free_start(), h.free_end(), h.free_space(), h.frag_bytes(), h.right_child(), h.next_leaf()));
            }
            rec.run_res("PageHeader.validate_page", || validate_page(d));
        }
    }
}

fn build_hnsw_bases(rng: &mut Rng, small: bool) -> Vec<Base> {
    let mut out = vec![];
    for i in 0..(if small { 2 } else { 6 }) {
        let page = make_hnsw_page(rng);
        let fields = hnsw_page_fields(&page);
        out.push(Base { name: format!("hnsw_node_page#{} slots={}", i, u16::from_le_bytes([page[16], page[17]])), blobs: vec![Blob { name: "hnsw_page".into(), data: page }], fields, meta: Meta::Hnsw { kind: "page", dims: 0 } });
    }
    for i in 0..(if small { 3 } else { 10 }) {
        let node = make_hnsw_node(rng);
        let mut f = vec![Field { blob: 0, off: 8, width: 1, ptr_max: 0 }, Field { blob: 0, off: 9, width: 1, ptr_max: 0 }];
        for o in 10..node.len() {
            f.push(Field { blob: 0, off: o as u32, width: 1, ptr_max: 0 });
        }
        out.push(Base { name: format!("hnsw_node#{} max_level={} l0={} len={}", i, node[8], node[9], node.len()), blobs: vec![Blob { name: "hnsw_node".into(), data: node }], fields: vec![f], meta: Meta::Hnsw { kind: "node", dims: 0 } });
    }
    out
}

fn hnsw_page_ops(rec: &mut Rec, d: &[u8]) {
    if let Some(p) = rec.run_res("HnswPage.from_bytes", || HnswPageRef::from_bytes(d)) {
        let n = rec.run("HnswPage.slot_count", || p.slot_count()).unwrap_or(0);
        rec.run("HnswPage.free_space", || (p.free_space(), p.can_fit(100)));
        let mut idx: Vec<u16> = (0..n.min(24)).collect();
        idx.extend_from_slice(&[n / 2, n.wrapping_sub(1), n, 4079, 4080, 65534]);
        idx.sort();
        idx.dedup();
        for s in idx {
            rec.run("HnswPage.get_slot", || p.get_slot(s).map(|e| (e.offset, e.size, e.is_active(), e.is_free(), e.is_deleted())));
            if let Some(data) = rec.run_res("HnswPage.read_node_data", || p.read_node_data(s)) {
                rec.run_res("HnswNode.read_from", || HnswNode::read_from(data).map(|n| (n.row_id(), n.max_level(), n.level0_neighbors().len(), (0..=n.max_level()).map(|l| n.neighbors_at_level(l).len()).sum::<usize>())));
                rec.run_res("HnswNodeInline.read_from", || HnswNodeInline::read_from(data).map(|n| (n.row_id(), n.max_level(), n.level0_neighbors().len())));
            }
        }
    }
    // the mutable view has its own accessors
    let mut copy = d.to_vec();
    if let Some(p) = rec.run_res("HnswPage.from_bytes_mut", || HnswPage::from_bytes(&mut copy)) {
        rec.run("HnswPage.mut_getters", || (p.slot_count(), p.free_space(), p.active_nodes(), p.can_fit(64), p.get_slot(0).map(|s| s.size)));
        rec.run_res("HnswPage.mut_read_node_data", || p.read_node_data(0).map(|x| x.len()));
    }
}

fn exec_hnsw(rec: &mut Rec, base: &Base, blobs: &[Blob]) {
    let buf = ExactBuf::new(&blobs[0].data, 0);
    let d = buf.slice();
    match &base.meta {
        Meta::Hnsw { kind: "page", .. } => hnsw_page_ops(rec, d),
        _ => {
            rec.run_res("HnswNode.read_from", || HnswNode::read_from(d).map(|n| (n.row_id(), n.max_level(), n.level0_neighbors().len(), (0..=n.max_level()).map(|l| n.neighbors_at_level(l).len()).sum::<usize>(), n.serialized_size())));
            rec.run_res("HnswNodeInline.read_from", || HnswNodeInline::read_from(d).map(|n| (n.row_id(), n.max_level(), n.level0_neighbors().len(), (0..=n.max_level()).map(|l| n.neighbors_at_level(l).len()).sum::<usize>())));
        }
    }
}

// ------------------------------------------------------------------------------------------
// B-tree pages and page sets
// ------------------------------------------------------------------------------------------
use turdb::btree::{BTree, BTreeReader, InteriorNode, InteriorNodeMut, LeafNode, LeafNodeMut, SlotBatch};

/// structural fields of the 16 KiB pages in `data` (groups: page headers, slots, cells, pointers)
fn page_fields(blob: u16, data: &[u8], first_page_file_header: bool, out: &mut Vec<Vec<Field>>) {
    let np = data.len() / PAGE;
    let mut hdrs = vec![];
    let mut slots = vec![];
    let mut cells = vec![];
    let mut ptrs = vec![];
    let mut fhdr = vec![];
    for p in 0..np {
        let b = p * PAGE;
        let pg = &data[b..b + PAGE];
        if p == 0 && first_page_file_header {
            for o in (16..128).step_by(4) {
                fhdr.push(Field { blob, off: (b + o) as u32, width: 4, ptr_max: np as u32 });
                if o % 8 == 0 {
                    fhdr.push(Field { blob, off: (b + o) as u32, width: 8, ptr_max: 0 });
                }
            }
            for o in 0..16 {
                fhdr.push(Field { blob, off: (b + o) as u32, width: 1, ptr_max: 0 });
            }
            continue;
        }
        let ty = pg[0];
        hdrs.push(Field { blob, off: b as u32, width: 1, ptr_max: 0 });
        for o in [2usize, 4, 6] {
            hdrs.push(Field { blob, off: (b + o) as u32, width: 2, ptr_max: 0 });
        }
        ptrs.push(Field { blob, off: (b + 12) as u32, width: 4, ptr_max: np as u32 });
        let cc = u16::from_le_bytes([pg[2], pg[3]]) as usize;
        if ty == 0x02 {
            let sel: Vec<usize> = if cc <= 12 { (0..cc).collect() } else { vec![0, 1, 2, cc / 3, cc / 2, cc - 3, cc - 2, cc - 1] };
            for i in sel {
                let so = 24 + 8 * i;
                if so + 8 > PAGE {
                    break;
                }
                slots.push(Field { blob, off: (b + so) as u32, width: 4, ptr_max: 0 });
                slots.push(Field { blob, off: (b + so + 4) as u32, width: 2, ptr_max: 0 });
                slots.push(Field { blob, off: (b + so + 6) as u32, width: 2, ptr_max: 0 });
                let co = u16::from_le_bytes([pg[so + 4], pg[so + 5]]) as usize + u16::from_le_bytes([pg[so + 6], pg[so + 7]]) as usize;
                if co + 2 < PAGE {
                    cells.push(Field { blob, off: (b + co) as u32, width: 1, ptr_max: 0 });
                    cells.push(Field { blob, off: (b + co) as u32, width: 2, ptr_max: 0 });
                }
            }
        } else if ty == 0x01 {
            let sel: Vec<usize> = if cc <= 12 { (0..cc).collect() } else { vec![0, 1, cc / 2, cc - 2, cc - 1] };
            for i in sel {
                let so = 16 + 12 * i;
                if so + 12 > PAGE {
                    break;
                }
                slots.push(Field { blob, off: (b + so) as u32, width: 4, ptr_max: 0 });
                ptrs.push(Field { blob, off: (b + so + 4) as u32, width: 4, ptr_max: np as u32 });
                slots.push(Field { blob, off: (b + so + 8) as u32, width: 2, ptr_max: 0 });
                slots.push(Field { blob, off: (b + so + 10) as u32, width: 2, ptr_max: 0 });
            }
        } else if ty == 0x10 {
            for o in [16usize, 18, 20, 22, 24, 26] {
                hdrs.push(Field { blob, off: (b + o) as u32, width: 2, ptr_max: 0 });
            }
            ptrs.push(Field { blob, off: (b + 28) as u32, width: 4, ptr_max: np as u32 });
            let sc = u16::from_le_bytes([pg[16], pg[17]]) as usize;
            for s in 0..sc.min(16) {
                slots.push(Field { blob, off: (b + 64 + 4 * s) as u32, width: 2, ptr_max: 0 });
                slots.push(Field { blob, off: (b + 64 + 4 * s + 2) as u32, width: 2, ptr_max: 0 });
            }
        }
    }
    for g in [fhdr, hdrs, slots, cells, ptrs] {
        if !g.is_empty() {
            out.push(g);
        }
    }
}

fn gen_tree_keys(rng: &mut Rng, n: usize, klen: usize) -> Vec<Vec<u8>> {
    let mut set = std::collections::BTreeSet::new();
    let style = rng.below(3);
    while set.len() < n {
        let mut k = match style {
            0 => (rng.below(100_000) as u32).to_be_bytes().to_vec(),
            1 => {
                let mut k = vec![0x20, b'k', b'e', b'y'];
                k.extend_from_slice(&(rng.below(50_000) as u32).to_be_bytes());
                k
            }
            _ => {
                let l = rng.usize(1, 12);
                rng.bytes(l)
            }
        };
        if klen > k.len() {
            let pad = klen - k.len();
            k.extend(std::iter::repeat(b'p').take(pad));
        }
        set.insert(k);
    }
    set.into_iter().collect()
}

fn probes_from(rng: &mut Rng, keys: &[Vec<u8>]) -> Vec<Vec<u8>> {
    let mut ps: Vec<Vec<u8>> = vec![vec![], vec![0], vec![0xff; 6]];
    for _ in 0..6 {
        if keys.is_empty() {
            break;
        }
        let k = rng.pick(keys).clone();
        let mut k2 = k.clone();
        k2.push(1);
        ps.push(k);
        ps.push(k2);
    }
    ps.push(keys.first().cloned().unwrap_or_default());
    ps.push(keys.last().cloned().unwrap_or_default());
    ps
}

fn build_leaf_bases(rng: &mut Rng, small: bool) -> Vec<Base> {
    let mut out = vec![];
    for i in 0..(if small { 3 } else { 8 }) {
        let n = *rng.pick(&[0usize, 1, 7, 8, 9, 40, 300]);
        let keys = gen_tree_keys(rng, n, if i % 3 == 0 { 30 } else { 0 });
        let mut page = vec![0u8; PAGE];
        {
            let mut l = LeafNodeMut::init(&mut page).unwrap();
            for k in &keys {
                let vl = rng.usize(0, 20);
                let v = rng.bytes(vl);
                if l.insert_cell(k, &v).is_err() {
                    break;
                }
            }
        }
        let mut fields = vec![];
        page_fields(0, &page, false, &mut fields);
        let probes = probes_from(rng, &keys);
        out.push(Base { name: format!("leaf_page#{} cells={}", i, u16::from_le_bytes([page[2], page[3]])), blobs: vec![Blob { name: "leaf_page".into(), data: page }], fields, meta: Meta::Leaf { probes } });
    }
    out
}

fn build_interior_bases(rng: &mut Rng, small: bool) -> Vec<Base> {
    let mut out = vec![];
    for i in 0..(if small { 2 } else { 6 }) {
        let n = *rng.pick(&[0usize, 1, 5, 30, 200]);
        let keys = gen_tree_keys(rng, n, if i % 2 == 0 { 20 } else { 0 });
        let mut page = vec![0u8; PAGE];
        {
            let mut node = InteriorNodeMut::init(&mut page, 99).unwrap();
            for (j, k) in keys.iter().enumerate() {
                if node.insert_separator(k, 2 + j as u32).is_err() {
                    break;
                }
            }
        }
        let mut fields = vec![];
        page_fields(0, &page, false, &mut fields);
        let probes = probes_from(rng, &keys);
        out.push(Base { name: format!("interior_page#{} cells={}", i, u16::from_le_bytes([page[2], page[3]])), blobs: vec![Blob { name: "interior_page".into(), data: page }], fields, meta: Meta::Interior { probes } });
    }
    out
}

fn sample_indices(cc: usize, dense: usize) -> Vec<usize> {
    let mut v: Vec<usize> = (0..cc.min(dense)).collect();
    v.extend_from_slice(&[cc / 2, cc.wrapping_sub(1), cc, cc + 1, 1364, 1365, 2044, 2045, 2046, 65534]);
    v.sort();
    v.dedup();
    v
}

fn exec_leaf(rec: &mut Rec, base: &Base, blobs: &[Blob]) {
    let probes: &[Vec<u8>] = match &base.meta {
        Meta::Leaf { probes } => probes,
        _ => &[],
    };
    let buf = ExactBuf::new(&blobs[0].data, 0);
    let d = buf.slice();
    rec.run_res("PageHeader.validate_page", || validate_page(d));
    if let Some(l) = rec.run_res("LeafNode.from_page", || LeafNode::from_page(d)) {
        let cc = rec.run("LeafNode.cell_count", || l.cell_count()).unwrap_or(0) as usize;
        rec.run("LeafNode.free_space", || (l.free_space(), l.next_leaf()));
        for i in sample_indices(cc, 24) {
            rec.run_res("LeafNode.slot_at", || l.slot_at(i).map(|s| (s.offset(), s.key_len(), s.prefix_as_u32())));
            rec.run_res("LeafNode.key_at", || l.key_at(i).map(|k| k.len()));
            rec.run_res("LeafNode.value_at", || l.value_at(i).map(|k| k.iter().map(|b| *b as u64).sum::<u64>()));
            rec.run_res("LeafNode.value_len_at", || l.value_len_at(i));
        }
        for p in probes {
            rec.run("LeafNode.find_key", || l.find_key(p));
        }
        rec.run("LeafNode.batch_iterator", || {
            let mut n = 0u64;
            for (a, b, c) in l.batch_iterator() {
                n += a as u64 + b as u64 + c as u64;
                if n == u64::MAX {
                    break;
                }
            }
            n
        });
        for k in [1usize, 8, cc / 2, cc, cc + 9] {
            rec.run("LeafNode.batch_iterator_from", || l.batch_iterator_from(k).take(20).count());
        }
        rec.run("LeafNode.SlotBatch", || {
            let _ = SlotBatch::load_from_page(d, 0, cc);
            let _ = SlotBatch::load_from_page(d, cc.saturating_sub(3), cc);
        });
    }
    let mut copy = d.to_vec();
    if let Some(l) = rec.run_res("LeafNodeMut.from_page", || LeafNodeMut::from_page(&mut copy)) {
        let cc = rec.run("LeafNodeMut.cell_count", || l.cell_count()).unwrap_or(0) as usize;
        rec.run("LeafNodeMut.free_space", || l.free_space());
        for i in sample_indices(cc, 4) {
            rec.run_res("LeafNodeMut.key_at", || l.key_at(i).map(|k| k.len()));
            rec.run_res("LeafNodeMut.value_at", || l.value_at(i).map(|k| k.len()));
        }
        if let Some(p) = probes.get(3) {
            rec.run("LeafNodeMut.find_key", || l.find_key(p));
        }
    }
}

fn exec_interior(rec: &mut Rec, base: &Base, blobs: &[Blob]) {
    let probes: &[Vec<u8>] = match &base.meta {
        Meta::Interior { probes } => probes,
        _ => &[],
    };
    let buf = ExactBuf::new(&blobs[0].data, 0);
    let d = buf.slice();
    if let Some(n) = rec.run_res("InteriorNode.from_page", || InteriorNode::from_page(d)) {
        let cc = rec.run("InteriorNode.cell_count", || n.cell_count()).unwrap_or(0) as usize;
        rec.run("InteriorNode.right_child", || n.right_child());
        for i in sample_indices(cc, 16) {
            rec.run_res("InteriorNode.slot_at", || n.slot_at(i).map(|s| (s.child_page(), s.offset(), s.key_len())));
            rec.run_res("InteriorNode.key_at", || n.key_at(i).map(|k| k.len()));
        }
        for p in probes {
            rec.run_res("InteriorNode.find_child", || n.find_child(p));
        }
    }
    let mut copy = d.to_vec();
    if let Some(n) = rec.run_res("InteriorNodeMut.from_page", || InteriorNodeMut::from_page(&mut copy)) {
        let cc = rec.run("InteriorNodeMut.cell_count", || n.cell_count()).unwrap_or(0) as usize;
        rec.run("InteriorNodeMut.free_space", || (n.free_space(), n.right_child()));
        for i in sample_indices(cc, 2) {
            rec.run_res("InteriorNodeMut.key_at", || n.key_at(i).map(|k| k.len()));
        }
        if let Some(p) = probes.get(3) {
            rec.run_res("InteriorNodeMut.find_child", || n.find_child(p));
        }
    }
}

fn store_to_blob(s: &MemStore) -> Vec<u8> {
    let mut v = Vec::with_capacity(s.pages.len() * PAGE);
    for p in &s.pages {
        v.extend_from_slice(&p[..]);
    }
    v
}

fn blob_to_store(d: &[u8]) -> MemStore {
    let np = d.len() / PAGE;
    let mut s = MemStore::new(np as u32);
    for p in 0..np {
        s.pages[p].copy_from_slice(&d[p * PAGE..(p + 1) * PAGE]);
    }
    s
}

fn build_tree_bases(rng: &mut Rng, small: bool, miri: bool) -> Vec<Base> {
    let mut out = vec![];
    let specs: Vec<(usize, usize)> = if miri {
        vec![(24, 2000), (10, 0)]
    } else if small {
        vec![(60, 1500), (400, 0)]
    } else {
        vec![(60, 1500), (400, 0), (3000, 0), (700, 900), (5, 0), (150, 3000)]
    };
    for (i, (n, klen)) in specs.into_iter().enumerate() {
        let keys = gen_tree_keys(rng, n, klen);
        let mut order: Vec<usize> = (0..keys.len()).collect();
        if i % 2 == 0 {
            rng.shuffle(&mut order);
        }
        let mut store = MemStore::new(2);
        {
            let mut t = BTree::create(&mut store, 1).expect("btree create");
            for j in order {
                let vl = rng.usize(0, 24);
                let v = rng.bytes(vl);
                t.insert(&keys[j], &v).expect("btree insert on valid tree");
            }
        }
        let data = store_to_blob(&store);
        let mut fields = vec![];
        page_fields(0, &data, false, &mut fields);
        let probes = probes_from(rng, &keys);
        out.push(Base { name: format!("btree#{} keys={} key_pad={} pages={} root=1", i, n, klen, data.len() / PAGE), blobs: vec![Blob { name: "pages".into(), data }], fields, meta: Meta::Tree { root: 1, probes } });
    }
    out
}

/// forward / backward scans with a harness-side step bound: a cursor over N pages can yield at
/// most N * 2046 cells; more steps without an error means the scan does not make progress
fn scan_forward<S: turdb::storage::Storage>(rec: &mut Rec, dec: &'static str, labels: [&'static str; 3], mut c: turdb::btree::Cursor<'_, S>, bound: u64) {
    let mut steps = 0u64;
    loop {
        if !c.valid() {
            break;
        }
        if rec.run_res(labels[0], || c.key().map(|k| k.len())).is_none() {
            break;
        }
        if rec.run_res(labels[1], || c.value().map(|k| k.len())).is_none() {
            break;
        }
        match rec.run_res(labels[2], || c.advance()) {
            Some(true) => {}
            _ => break,
        }
        steps += 1;
        if steps > bound {
            rec.raise(format!("C23/{}.scan_forward/no_progress", dec), "terminates", json!({"steps": steps, "bound": bound}));
            break;
        }
    }
    rec.count("scan_steps", steps);
}

fn scan_backward<S: turdb::storage::Storage>(rec: &mut Rec, dec: &'static str, labels: [&'static str; 3], mut c: turdb::btree::Cursor<'_, S>, bound: u64) {
    let mut steps = 0u64;
    loop {
        if !c.valid() {
            break;
        }
        if rec.run_res(labels[0], || c.key().map(|k| k.len())).is_none() {
            break;
        }
        match rec.run_res(labels[2], || c.prev()) {
            Some(true) => {}
            _ => break,
        }
        steps += 1;
        if steps > bound {
            rec.raise(format!("C23/{}.scan_backward/no_progress", dec), "terminates", json!({"steps": steps, "bound": bound}));
            break;
        }
    }
    rec.count("scan_steps", steps);
}

fn exec_tree(rec: &mut Rec, base: &Base, blobs: &[Blob], seed: u64) {
    let (root, probes) = match &base.meta {
        Meta::Tree { root, probes } => (*root, probes),
        _ => return,
    };
    let mut store = blob_to_store(&blobs[0].data);
    let np = store.pages.len() as u64;
    let bound = np * 2046 + 64;
    let write = seed % 3 == 0;
    {
        let t = match rec.run_res("BTree.new", || BTree::new(&mut store, root)) {
            Some(t) => t,
            None => return,
        };
        for p in probes.iter().take(8) {
            rec.run_res("BTree.get", || t.get(p).map(|v| v.map(|x| x.len())));
        }
        if let Some(p) = probes.get(4) {
            if let Some(Some(h)) = rec.run_res("BTree.search", || t.search(p)) {
                rec.run_res("BTree.get_key", || t.get_key(&h).map(|k| k.len()));
                rec.run_res("BTree.get_value", || t.get_value(&h).map(|k| k.len()));
            }
        }
        if let Some(c) = rec.run_res("BTree.cursor_first", || t.cursor_first()) {
            scan_forward(rec, "BTree", ["BTree.cursor_key", "BTree.cursor_value", "BTree.cursor_advance"], c, bound);
        }
        if let Some(c) = rec.run_res("BTree.cursor_last", || t.cursor_last()) {
            scan_backward(rec, "BTree", ["BTree.cursor_key", "BTree.cursor_value", "BTree.cursor_prev"], c, bound);
        }
        for p in probes.iter().skip(3).take(3) {
            if let Some(mut c) = rec.run_res("BTree.cursor_seek", || t.cursor_seek(p)) {
                for _ in 0..8 {
                    if !c.valid() || rec.run_res("BTree.cursor_key", || c.key().map(|k| k.len())).is_none() {
                        break;
                    }
                    if rec.run_res("BTree.cursor_advance", || c.advance()) != Some(true) {
                        break;
                    }
                }
            }
        }
    }
    if write {
        // an INSERT / DELETE after opening a corrupted file reaches these paths
        if let Some(mut t) = rec.run_res("BTree.new", || BTree::new(&mut store, root)) {
            let k1 = [b"zzzz-new-".to_vec(), seed.to_be_bytes().to_vec()].concat();
            rec.run_res("BTree.insert", || t.insert(&k1, b"value"));
            let big = vec![0x41u8; 1800];
            rec.run_res("BTree.insert", || t.insert(&[&[0x10u8][..], &seed.to_be_bytes()[..]].concat(), &big));
            if let Some(p) = probes.get(5) {
                rec.run_res("BTree.delete", || t.delete(p));
                rec.run_res("BTree.update", || t.update(p, b"u"));
            }
            if let Some(c) = rec.run_res("BTree.cursor_first", || t.cursor_first()) {
                scan_forward(rec, "BTree", ["BTree.cursor_key", "BTree.cursor_value", "BTree.cursor_advance"], c, (store_pages_hint(np) + 8) * 2046);
            }
        }
    }
}

fn store_pages_hint(np: u64) -> u64 {
    np + 64
}

// ------------------------------------------------------------------------------------------
// file-level units (not under Miri)
// ------------------------------------------------------------------------------------------
use turdb::storage::{MmapStorage, Wal, WalSegment};

fn fresh_dir(p: &Path) {
    let _ = std::fs::remove_dir_all(p);
    std::fs::create_dir_all(p).expect("create work dir");
}

fn write_blobs(dir: &Path, blobs: &[Blob]) {
    for b in blobs {
        let p = dir.join(&b.name);
        if let Some(par) = p.parent() {
            let _ = std::fs::create_dir_all(par);
        }
        std::fs::write(&p, &b.data).expect("write case file");
    }
}

fn read_dir_blobs(dir: &Path) -> Vec<Blob> {
    fn walk(root: &Path, d: &Path, out: &mut Vec<Blob>) {
        let mut ents: Vec<_> = std::fs::read_dir(d).map(|r| r.filter_map(|e| e.ok()).collect()).unwrap_or_default();
        ents.sort_by_key(|e| e.file_name());
        for e in ents {
            let p = e.path();
            if p.is_dir() {
                walk(root, &p, out);
            } else if let Ok(data) = std::fs::read(&p) {
                out.push(Blob { name: p.strip_prefix(root).unwrap().to_string_lossy().to_string(), data });
            }
        }
    }
    let mut out = vec![];
    walk(dir, dir, &mut out);
    out
}

/// CRC-64/ECMA-182 (poly 0x42F0E1EBA9EA3693, init 0, not reflected) -- the frame checksum
fn crc64_ecma(chunks: &[&[u8]]) -> u64 {
    use std::sync::OnceLock;
    static TABLE: OnceLock<[u64; 256]> = OnceLock::new();
    let t = TABLE.get_or_init(|| {
        let mut t = [0u64; 256];
        for i in 0..256u64 {
            let mut c = i << 56;
            for _ in 0..8 {
                c = if c & (1 << 63) != 0 { (c << 1) ^ 0x42F0E1EBA9EA3693 } else { c << 1 };
            }
            t[i as usize] = c;
        }
        t
    });
    let mut crc = 0u64;
    for ch in chunks {
        for b in ch.iter() {
            crc = t[((crc >> 56) as u8 ^ *b) as usize] ^ (crc << 8);
        }
    }
    crc
}

const FRAME: usize = 32 + PAGE;

fn wal_fix_checksums(d: &mut [u8]) {
    let nf = d.len() / FRAME;
    for f in 0..nf {
        let b = f * FRAME;
        let c = crc64_ecma(&[&d[b..b + 24], &d[b + 32..b + FRAME]]);
        d[b + 24..b + 32].copy_from_slice(&c.to_le_bytes());
    }
}

fn build_wal_bases(rng: &mut Rng, work: &Path) -> Vec<Base> {
    let mut out = vec![];
    for i in 0..3 {
        let dir = work.join(format!("walbase{}", i));
        fresh_dir(&dir);
        let nframes = [1usize, 4, 7][i];
        {
            let wal = Wal::create(&dir).expect("wal create");
            wal.set_sync_mode(turdb::storage::SyncMode::Off);
            for f in 0..nframes {
                let mut page = vec![0u8; PAGE];
                {
                    let mut l = LeafNodeMut::init(&mut page).unwrap();
                    let _ = l.insert_cell(format!("k{}", f).as_bytes(), b"v");
                }
                wal.write_frame_with_file_id((f % 3) as u32, 3, &page, 1 + (f % 2) as u64).expect("wal write");
            }
            wal.sync().expect("wal sync");
        }
        let data = std::fs::read(dir.join("wal.000001")).expect("read wal segment");
        // self-check of the harness CRC against the real writer
        let mut copy = data.clone();
        wal_fix_checksums(&mut copy);
        let fixable = copy == data && data.len() == nframes * FRAME;
        let mut hdr = vec![];
        let mut ptr = vec![];
        for f in 0..nframes {
            let b = (f * FRAME) as u32;
            hdr.push(Field { blob: 0, off: b, width: 8, ptr_max: 0 });
            hdr.push(Field { blob: 0, off: b + 7, width: 1, ptr_max: 0 });
            ptr.push(Field { blob: 0, off: b + 8, width: 4, ptr_max: 6 });
            ptr.push(Field { blob: 0, off: b + 12, width: 4, ptr_max: 6 });
            hdr.push(Field { blob: 0, off: b + 16, width: 4, ptr_max: 0 });
            hdr.push(Field { blob: 0, off: b + 20, width: 4, ptr_max: 0 });
            hdr.push(Field { blob: 0, off: b + 24, width: 8, ptr_max: 0 });
        }
        let _ = std::fs::remove_dir_all(&dir);
        out.push(Base { name: format!("wal_segment#{} frames={} (crc self-check {})", i, nframes, fixable), blobs: vec![Blob { name: "wal.000001".into(), data }], fields: vec![hdr, ptr], meta: Meta::Wal { fixable } });
    }
    out
}

fn exec_wal(rec: &mut Rec, base: &Base, blobs: &[Blob], seed: u64, work: &Path) {
    let fixable = matches!(&base.meta, Meta::Wal { fixable: true });
    let dir = work.join("wal");
    fresh_dir(&dir);
    let mut data = blobs[0].data.clone();
    // half of the cases carry consistent checksums, so that the frame *contents* reach recovery
    let refix = fixable && seed % 2 == 0;
    if refix {
        wal_fix_checksums(&mut data);
    }
    rec.count(if refix { "wal_cases_checksum_fixed" } else { "wal_cases_checksum_raw" }, 1);
    std::fs::write(dir.join("wal.000001"), &data).expect("write wal");
    if seed % 7 == 0 {
        // a second, garbage segment
        std::fs::write(dir.join("wal.000002"), &data[..data.len().min(100)]).expect("write wal2");
    }
    let seg_path = dir.join("wal.000001");
    if let Some(mut seg) = rec.run_res("WalSegment.open", || WalSegment::open(&seg_path, 1)) {
        let _ = rec.run_res("WalSegment.reset_position", || seg.reset_position());
        for _ in 0..64 {
            match rec.run_res("WalSegment.read_frame", || seg.read_frame()) {
                Some((h, _)) => {
                    rec.run("WalFrameHeader.getters", || (h.frame_type(), h.actual_file_id(), h.undo_table_id(), h.undo_txn_id(), h.is_undo_frame(), h.is_redo_frame()));
                }
                None => break,
            }
        }
        let _ = rec.run_res("WalSegment.reset_position", || seg.reset_position());
        for _ in 0..64 {
            if rec.run_res("WalSegment.read_header_only", || seg.read_header_only()).is_none() {
                break;
            }
        }
        let mut buf = vec![0u8; FRAME];
        let _ = rec.run_res("WalSegment.reset_position", || seg.reset_position());
        for _ in 0..64 {
            if rec.run_res("WalSegment.read_frame_into", || seg.read_frame_into(&mut buf)).is_none() {
                break;
            }
        }
    }
    let tbd = work.join("wal_target.tbd");
    let _ = std::fs::remove_file(&tbd);
    let mut storage = match MmapStorage::create(&tbd, 3) {
        Ok(s) => s,
        Err(_) => return,
    };
    if let Some(wal) = rec.run_res("Wal.open", || Wal::open(&dir)) {
        rec.run("Wal.counters", || (wal.frame_count(), wal.total_wal_size_bytes(), wal.needs_checkpoint(), wal.current_offset()));
        for fid in [0u64, 1, 2] {
            for p in [0u32, 1, 2, 5] {
                rec.run_res("Wal.read_page", || wal.read_page(fid, p).map(|x| x.map(|v| v.len())));
            }
        }
        rec.run_res("Wal.recover_for_file", || wal.recover_for_file(&mut storage, 1));
        rec.run_res("Wal.recover", || wal.recover(&mut storage));
        rec.run_res("Wal.replay_segments_to_storage", || Wal::replay_segments_to_storage(&[seg_path.clone()], &mut storage, 2));
    }
    drop(storage);
    let _ = std::fs::remove_file(&tbd);
}

fn build_catalog_file_bases(rng: &mut Rng, work: &Path) -> Vec<Base> {
    let mut out = vec![];
    for i in 0..4 {
        let cat = gen_catalog(rng);
        let p = work.join(format!("catbase{}.catalog", i));
        CatalogPersistence::save(&cat, &p).expect("catalog save");
        let data = std::fs::read(&p).expect("read catalog file");
        let _ = std::fs::remove_file(&p);
        let mut fields = header_fields();
        fields.extend(catalog_fields(&data, 128));
        out.push(Base { name: format!("catalog_file#{} ({} bytes)", i, data.len()), blobs: vec![Blob { name: "turdb.catalog".into(), data }], fields, meta: Meta::None });
    }
    out
}

fn exec_catalog_file(rec: &mut Rec, blobs: &[Blob], work: &Path) {
    let p = work.join("case.catalog");
    std::fs::write(&p, &blobs[0].data).expect("write catalog");
    let mut cat = Catalog::new();
    rec.run_res("CatalogPersistence.load", || CatalogPersistence::load(&p, &mut cat));
}

fn build_btree_file_bases(rng: &mut Rng) -> Vec<Base> {
    build_tree_bases(rng, true, false)
}

fn exec_btree_file(rec: &mut Rec, base: &Base, blobs: &[Blob], work: &Path) {
    let (root, probes) = match &base.meta {
        Meta::Tree { root, probes } => (*root, probes),
        _ => return,
    };
    let p = work.join("case.tbd");
    std::fs::write(&p, &blobs[0].data).expect("write tbd");
    let storage = match rec.run_res("MmapStorage.open", || MmapStorage::open(&p)) {
        Some(s) => s,
        None => return,
    };
    let bound = storage.page_count() as u64 * 2046 + 64;
    if let Some(r) = rec.run_res("BTreeReader.new", || BTreeReader::new(&storage, root)) {
        for pr in probes.iter().take(8) {
            rec.run_res("BTreeReader.get", || r.get(pr).map(|v| v.map(|x| x.len())));
        }
        if let Some(c) = rec.run_res("BTreeReader.cursor_first", || r.cursor_first()) {
            scan_forward(rec, "BTreeReader", ["BTreeReader.cursor_key", "BTreeReader.cursor_value", "BTreeReader.cursor_advance"], c, bound);
        }
        if let Some(c) = rec.run_res("BTreeReader.cursor_last", || r.cursor_last()) {
            scan_backward(rec, "BTreeReader", ["BTreeReader.cursor_key", "BTreeReader.cursor_value", "BTreeReader.cursor_prev"], c, bound);
        }
        for pr in probes.iter().skip(3).take(3) {
            if let Some(mut c) = rec.run_res("BTreeReader.cursor_seek", || r.cursor_seek(pr)) {
                for _ in 0..8 {
                    if !c.valid() || rec.run_res("BTreeReader.cursor_key", || c.key().map(|k| k.len())).is_none() {
                        break;
                    }
                    if rec.run_res("BTreeReader.cursor_advance", || c.advance()) != Some(true) {
                        break;
                    }
                }
            }
        }
    }
}

fn hnsw_vec(i: u64, dims: usize) -> Vec<f32> {
    (0..dims).map(|d| (i.wrapping_mul(31).wrapping_add(d as u64 * 7) % 17) as f32 / 4.0).collect()
}

fn build_hnsw_file_bases(rng: &mut Rng, work: &Path) -> Vec<Base> {
    use turdb::hnsw::PersistentHnswIndex;
    let mut out = vec![];
    for (i, n) in [3u64, 40, 150].into_iter().enumerate() {
        let p = work.join(format!("hnswbase{}.hnsw", i));
        let _ = std::fs::remove_file(&p);
        let dims = 4usize;
        {
            // PersistentHnswIndex::insert fails on valid input in this tree (slot offsets above 8191 do
            // not fit the 13-bit slot field), so the graph is laid down node by node through allocate_node
            let mut ix = PersistentHnswIndex::create(&p, 1, 2, dims as u16, 8, 32, 16, DistanceFunction::L2, QuantizationType::None).expect("hnsw create");
            for r in 0..n {
                let ml = (r % 3) as u8;
                let mut node = HnswNode::new(r + 1, ml);
                for k in 0..(r % 6) {
                    node.add_level0_neighbor(NodeId::new(1 + (k as u32 % 2), (k % 5) as u16));
                }
                for l in 1..=ml {
                    node.add_neighbor_at_level(l, NodeId::new(1, (r % 4) as u16));
                }
                ix.allocate_node(&node).expect("hnsw allocate_node");
            }
            ix.sync().expect("hnsw sync");
        }
        let mut data = std::fs::read(&p).expect("read hnsw file");
        let _ = std::fs::remove_file(&p);
        // entry point = first node (page 1, slot 0), as `insert` would have recorded it
        if data.len() >= 2 * PAGE {
            data[44..48].copy_from_slice(&1u32.to_le_bytes());
            data[48..50].copy_from_slice(&0u16.to_le_bytes());
            data[50] = 0;
        }
        let mut fields = vec![];
        page_fields(0, &data, true, &mut fields);
        // node payload bytes: level / count / neighbour ids
        let mut nodes = vec![];
        for pg in 1..data.len() / PAGE {
            let b = pg * PAGE;
            let sc = u16::from_le_bytes([data[b + 16], data[b + 17]]) as usize;
            for s in 0..sc.min(8) {
                let so = b + 64 + 4 * s;
                let off = (u16::from_le_bytes([data[so], data[so + 1]]) & 0x1FFF) as usize;
                if off + 16 < PAGE {
                    nodes.push(Field { blob: 0, off: (b + off + 8) as u32, width: 1, ptr_max: 0 });
                    nodes.push(Field { blob: 0, off: (b + off + 9) as u32, width: 1, ptr_max: 0 });
                    nodes.push(Field { blob: 0, off: (b + off + 10) as u32, width: 4, ptr_max: (data.len() / PAGE) as u32 });
                    nodes.push(Field { blob: 0, off: (b + off + 14) as u32, width: 2, ptr_max: 0 });
                }
            }
        }
        if !nodes.is_empty() {
            fields.push(nodes);
        }
        out.push(Base { name: format!("hnsw_file#{} nodes={} pages={}", i, n, data.len() / PAGE), blobs: vec![Blob { name: "emb_idx.hnsw".into(), data }], fields, meta: Meta::Hnsw { kind: "file", dims } });
    }
    out
}

fn exec_hnsw_file(rec: &mut Rec, base: &Base, blobs: &[Blob], seed: u64, work: &Path) {
    use turdb::hnsw::storage::HnswStorage;
    use turdb::hnsw::PersistentHnswIndex;
    let p = work.join("case.hnsw");
    std::fs::write(&p, &blobs[0].data).expect("write hnsw");
    if let Some(st) = rec.run_res("HnswStorage.open", || HnswStorage::open(&p)) {
        rec.run_res("HnswStorage.header", || st.header().map(|h| (h.node_count(), h.dimensions(), h.entry_point().map(|e| e.slot_index()))));
        let np = st.page_count();
        for pg in 1..np.min(4) {
            if let Some(d) = rec.run_res("HnswStorage.get_page", || st.get_page(pg)) {
                hnsw_page_ops(rec, d);
            }
        }
    }
    let mut ix = match rec.run_res("PersistentHnswIndex.open", || PersistentHnswIndex::open(&p)) {
        Some(ix) => ix,
        None => return,
    };
    let dims = rec.run("PersistentHnswIndex.index", || (ix.index().dimensions(), ix.index().node_count(), ix.index().entry_point().map(|e| e.page_no()), ix.index().max_level())).map(|t| t.0 as usize).unwrap_or(4);
    for r in [1u64, 2, 40, 1000] {
        rec.run("PersistentHnswIndex.find_node_by_row_id", || ix.find_node_by_row_id(r).map(|n| n.page_no()));
    }
    for pg in 0..4u32 {
        for s in [0u16, 1, 7, 300] {
            rec.run_res("PersistentHnswIndex.read_node", || ix.read_node(NodeId::new(pg, s)).map(|n| n.row_id()));
        }
    }
    if dims <= 4096 {
        let q = hnsw_vec(seed % 50, dims);
        // search context sized as the engine does (node_count.max(1000)), capped so that an absurd
        // header value is exercised by `insert` below (which sizes it itself), not by the harness
        let mut sctx = turdb::hnsw::search::HnswSearchContext::new(16, 1000);
        rec.run_res("PersistentHnswIndex.search", || ix.search(&q, 3, &mut sctx, |row| Some(hnsw_vec(row.wrapping_sub(1), dims))).map(|r| r.len()));
        if seed % 2 == 0 {
            rec.run_res("PersistentHnswIndex.insert", || ix.insert_with_callback(9_000_000 + seed % 100, &q, 0.3, |row| Some(hnsw_vec(row.wrapping_sub(1), dims))).map(|n| n.page_no()));
            rec.run_res("PersistentHnswIndex.delete_by_row_id", || ix.delete_by_row_id(2));
            rec.run_res("PersistentHnswIndex.sync", || ix.sync());
        }
    }
}

// ------------------------------------------------------------------------------------------
// database level
// ------------------------------------------------------------------------------------------
use turdb::Database;

const DB_SETUP: &[&str] = &[
    "CREATE TABLE t1 (id BIGINT PRIMARY KEY, name TEXT, score REAL, flag BOOLEAN, data BLOB, n INT, d DOUBLE PRECISION)",
    "CREATE INDEX idx_n ON t1 (n)",
    "CREATE TABLE emb (id BIGINT PRIMARY KEY, label TEXT, vec VECTOR(4))",
    "CREATE INDEX idx_vec ON emb USING HNSW (vec)",
    "CREATE TABLE t2 (k VARCHAR(20) PRIMARY KEY, v SMALLINT, ts TIMESTAMP, j JSONB)",
];

/// create the two base images; returns (dir, description) per image
fn create_db_base(root: &Path, wal: bool) -> Result<PathBuf, String> {
    let live = root.join(if wal { "live-wal" } else { "live-nowal" });
    let img = root.join(if wal { "base-wal" } else { "base-nowal" });
    let _ = std::fs::remove_dir_all(&live);
    let _ = std::fs::remove_dir_all(&img);
    let r = guard(|| -> Result<(), String> {
        let db = Database::create(&live).map_err(|e| format!("create: {e}"))?;
        if wal {
            db.execute("PRAGMA wal = ON").map_err(|e| format!("pragma: {e}"))?;
        }
        for s in DB_SETUP {
            db.execute(s).map_err(|e| format!("{s}: {e}"))?;
        }
        let (n1, n2, n3) = if wal { (60, 8, 10) } else { (300, 20, 40) };
        for i in 0..n1 {
            db.execute(&format!("INSERT INTO t1 VALUES ({}, 'name{}', {}.5, {}, x'0102{:02x}', {}, {}.25)", i, i, i, if i % 2 == 0 { "TRUE" } else { "FALSE" }, i % 256, i % 17, i)).map_err(|e| format!("insert t1: {e}"))?;
        }
        let big = "x".repeat(5000);
        db.execute(&format!("INSERT INTO t1 VALUES (1000, '{}', 1.0, TRUE, x'00', 3, 2.0)", big)).map_err(|e| format!("insert toast: {e}"))?;
        for i in 0..n2 {
            db.execute(&format!("INSERT INTO emb VALUES ({}, 'l{}', '[{}.0,0.5,0.25,{}.0]')", i, i, i, 20 - i)).map_err(|e| format!("insert emb: {e}"))?;
        }
        for i in 0..n3 {
            db.execute(&format!("INSERT INTO t2 VALUES ('key{:03}', {}, '2024-01-{:02} 10:00:00', '{{\"a\": {}, \"b\": [1,2,3]}}')", i, i, 1 + i % 28, i)).map_err(|e| format!("insert t2: {e}"))?;
        }
        if wal {
            // crash image: copy while the database is open, WAL segments still hold frames
            copy_dir(&live, &img).map_err(|e| format!("copy: {e}"))?;
            let _ = db.close();
        } else {
            db.close().map_err(|e| format!("close: {e}"))?;
            drop(db);
            copy_dir(&live, &img).map_err(|e| format!("copy: {e}"))?;
        }
        Ok(())
    });
    let _ = std::fs::remove_dir_all(&live);
    match r {
        Ok(Ok(())) => Ok(img),
        Ok(Err(e)) => Err(e),
        Err((site, msg)) => Err(format!("panic while building the valid database: {} {}", site, msg)),
    }
}

fn copy_dir(from: &Path, to: &Path) -> std::io::Result<()> {
    std::fs::create_dir_all(to)?;
    for e in std::fs::read_dir(from)? {
        let e = e?;
        let p = e.path();
        let t = to.join(e.file_name());
        if p.is_dir() {
            copy_dir(&p, &t)?;
        } else {
            std::fs::copy(&p, &t)?;
        }
    }
    Ok(())
}

fn file_kind(name: &str) -> &'static str {
    if name.starts_with("wal/") {
        "wal"
    } else if name.ends_with(".catalog") {
        "catalog"
    } else if name.ends_with(".meta") {
        "meta"
    } else if name.ends_with(".hnsw") {
        "hnsw"
    } else if name.starts_with("turdb_catalog/") {
        "systbd"
    } else if name.ends_with("_toast.tbd") {
        "toast"
    } else if name.ends_with(".tbd") {
        "tbd"
    } else if name.ends_with(".idx") {
        "idx"
    } else {
        "other"
    }
}

fn build_db_base(dir: &Path, wal: bool) -> Vec<Base> {
    let blobs = read_dir_blobs(dir);
    // one base per file kind focus: the mutator picks fields of that file only, so every kind is covered evenly
    let mut out = vec![];
    for (bi, b) in blobs.iter().enumerate() {
        let mut fields = vec![];
        match file_kind(&b.name) {
            "catalog" => {
                fields = header_fields();
                for g in fields.iter_mut() {
                    for f in g.iter_mut() {
                        f.blob = bi as u16;
                    }
                }
                let mut cf = catalog_fields(&b.data, 128);
                for g in cf.iter_mut() {
                    for f in g.iter_mut() {
                        f.blob = bi as u16;
                    }
                }
                fields.extend(cf);
            }
            "wal" => {
                let nf = b.data.len() / FRAME;
                let mut h = vec![];
                for f in 0..nf.min(64) {
                    let o = (f * FRAME) as u32;
                    for (d, w) in [(0u32, 8u8), (8, 4), (12, 4), (16, 4), (20, 4), (24, 8)] {
                        h.push(Field { blob: bi as u16, off: o + d, width: w, ptr_max: if w == 4 { 8 } else { 0 } });
                    }
                }
                if !h.is_empty() {
                    fields.push(h);
                }
                // page images inside the frames
                for f in 0..nf.min(16) {
                    let o = f * FRAME + 32;
                    let mut sub = vec![];
                    page_fields(bi as u16, &b.data[o..o + PAGE], false, &mut sub);
                    for g in sub.iter_mut() {
                        for fl in g.iter_mut() {
                            fl.off += o as u32;
                        }
                    }
                    fields.extend(sub);
                }
            }
            _ => page_fields(bi as u16, &b.data, true, &mut fields),
        }
        if b.data.is_empty() {
            continue;
        }
        out.push(Base { name: format!("db({}) focus={} [{} bytes]", if wal { "wal crash image" } else { "closed, wal off" }, b.name, b.data.len()), blobs: blobs.clone(), fields, meta: Meta::Db { wal, focus: bi } });
    }
    out
}

fn exec_db(rec: &mut Rec, base: &Base, blobs: &[Blob], seed: u64, work: &Path, edits_blob: Option<usize>) {
    let dir = work.join("db");
    fresh_dir(&dir);
    write_blobs(&dir, blobs);
    if let Some(b) = edits_blob {
        rec.count(&format!("db_cases_{}", file_kind(&blobs[b].name)), 1);
    }
    let db = match rec.run_res("Database.open", || Database::open(&dir)) {
        Some(db) => db,
        None => return,
    };
    let panics0 = rec.panics;
    let q = |rec: &mut Rec, label: &'static str, sql: &str| -> bool {
        rec.run_res(label, || db.query(sql).map(|r| r.len()));
        rec.panics == panics0
    };
    let ok = q(rec, "Database.scan", "SELECT * FROM t1")
        && q(rec, "Database.scan", "SELECT * FROM emb")
        && q(rec, "Database.scan", "SELECT * FROM t2")
        && q(rec, "Database.index_lookup", "SELECT id, name FROM t1 WHERE n = 3")
        && q(rec, "Database.pk_lookup", "SELECT * FROM t1 WHERE id = 42")
        && q(rec, "Database.pk_lookup", "SELECT * FROM t1 WHERE id = 1000")
        && q(rec, "Database.pk_lookup", "SELECT v FROM t2 WHERE k = 'key007'")
        && q(rec, "Database.aggregate", "SELECT COUNT(*), MAX(n) FROM t1 WHERE id > 100")
        && q(rec, "Database.knn", "SELECT id FROM emb ORDER BY vec <-> '[1.0,0.5,0.25,19.0]' LIMIT 3");
    if ok {
        let id = 5000 + seed % 1000;
        rec.run_res("Database.insert", || db.execute(&format!("INSERT INTO t1 VALUES ({}, 'fresh', 0.5, TRUE, x'ff', 3, 1.5)", id)).map(|_| ()));
        if rec.panics == panics0 {
            rec.run_res("Database.insert", || db.execute("INSERT INTO emb VALUES (900, 'n', '[0.5,0.5,0.5,0.5]')").map(|_| ()));
        }
        if rec.panics == panics0 {
            rec.run_res("Database.update", || db.execute("UPDATE t1 SET n = 4 WHERE id = 7").map(|_| ()));
            rec.run_res("Database.delete", || db.execute("DELETE FROM t2 WHERE k = 'key001'").map(|_| ()));
        }
        if rec.panics == panics0 {
            q(rec, "Database.scan_after_write", "SELECT * FROM t1");
        }
    }
    rec.run_res("Database.close", || db.close().map(|_| ()));
    rec.run("Database.drop", move || drop(db));
}

// ------------------------------------------------------------------------------------------
// units
// ------------------------------------------------------------------------------------------
#[derive(Clone, Copy, PartialEq)]
enum Kind {
    Mem,
    File,
    Db,
}

struct UnitSpec {
    name: &'static str,
    kind: Kind,
    quick: u64,
    thorough: u64,
    chunk_quick: u64,
    chunk_thorough: u64,
    hang_q: u64,
    hang_t: u64,
    raw_pct: u64,
    page_blobs: bool,
}

const UNITS: &[UnitSpec] = &[
    UnitSpec { name: "record", kind: Kind::Mem, quick: 24000, thorough: 240000, chunk_quick: 12000, chunk_thorough: 60000, hang_q: 2, hang_t: 4, raw_pct: 12, page_blobs: false },
    UnitSpec { name: "jsonb", kind: Kind::Mem, quick: 48000, thorough: 480000, chunk_quick: 24000, chunk_thorough: 120000, hang_q: 2, hang_t: 4, raw_pct: 20, page_blobs: false },
    UnitSpec { name: "array", kind: Kind::Mem, quick: 40000, thorough: 400000, chunk_quick: 20000, chunk_thorough: 100000, hang_q: 2, hang_t: 4, raw_pct: 20, page_blobs: false },
    UnitSpec { name: "key", kind: Kind::Mem, quick: 120000, thorough: 1200000, chunk_quick: 60000, chunk_thorough: 300000, hang_q: 2, hang_t: 4, raw_pct: 25, page_blobs: false },
    UnitSpec { name: "varint", kind: Kind::Mem, quick: 80000, thorough: 800000, chunk_quick: 80000, chunk_thorough: 400000, hang_q: 2, hang_t: 4, raw_pct: 50, page_blobs: false },
    UnitSpec { name: "catalog", kind: Kind::Mem, quick: 48000, thorough: 480000, chunk_quick: 24000, chunk_thorough: 120000, hang_q: 2, hang_t: 4, raw_pct: 10, page_blobs: false },
    UnitSpec { name: "header", kind: Kind::Mem, quick: 48000, thorough: 480000, chunk_quick: 48000, chunk_thorough: 240000, hang_q: 2, hang_t: 4, raw_pct: 5, page_blobs: false },
    UnitSpec { name: "hnsw", kind: Kind::Mem, quick: 32000, thorough: 320000, chunk_quick: 16000, chunk_thorough: 80000, hang_q: 2, hang_t: 4, raw_pct: 8, page_blobs: true },
    UnitSpec { name: "leaf", kind: Kind::Mem, quick: 16000, thorough: 160000, chunk_quick: 8000, chunk_thorough: 40000, hang_q: 2, hang_t: 4, raw_pct: 8, page_blobs: true },
    UnitSpec { name: "interior", kind: Kind::Mem, quick: 32000, thorough: 320000, chunk_quick: 16000, chunk_thorough: 80000, hang_q: 2, hang_t: 4, raw_pct: 8, page_blobs: true },
    UnitSpec { name: "btree", kind: Kind::Mem, quick: 2000, thorough: 20000, chunk_quick: 500, chunk_thorough: 2500, hang_q: 2, hang_t: 4, raw_pct: 0, page_blobs: true },
    UnitSpec { name: "catalog_file", kind: Kind::File, quick: 1000, thorough: 20000, chunk_quick: 500, chunk_thorough: 5000, hang_q: 2, hang_t: 4, raw_pct: 5, page_blobs: false },
    UnitSpec { name: "wal_file", kind: Kind::File, quick: 300, thorough: 6000, chunk_quick: 100, chunk_thorough: 1000, hang_q: 2, hang_t: 4, raw_pct: 3, page_blobs: false },
    UnitSpec { name: "btree_file", kind: Kind::File, quick: 400, thorough: 8000, chunk_quick: 50, chunk_thorough: 500, hang_q: 2, hang_t: 4, raw_pct: 0, page_blobs: true },
    UnitSpec { name: "hnsw_file", kind: Kind::File, quick: 400, thorough: 8000, chunk_quick: 100, chunk_thorough: 1000, hang_q: 2, hang_t: 4, raw_pct: 0, page_blobs: true },
    UnitSpec { name: "db_nowal", kind: Kind::Db, quick: 400, thorough: 8000, chunk_quick: 50, chunk_thorough: 500, hang_q: 5, hang_t: 10, raw_pct: 0, page_blobs: true },
    UnitSpec { name: "db_wal", kind: Kind::Db, quick: 240, thorough: 4800, chunk_quick: 40, chunk_thorough: 400, hang_q: 5, hang_t: 10, raw_pct: 0, page_blobs: true },
];

fn unit_spec(name: &str) -> Option<&'static UnitSpec> {
    UNITS.iter().find(|u| u.name == name)
}

struct Env {
    work: PathBuf,
    dbroot: PathBuf,
    small: bool,
    base_seed: u64,
    seed: u64,
    tier: String,
}

fn base_seed(seed: u64) -> u64 {
    Rng::derive(seed, 23).next()
}

fn build_bases(u: &UnitSpec, env: &Env) -> Vec<Base> {
    let mut rng = Rng::new(env.base_seed ^ fnv(u.name.as_bytes()) ^ 0xBA5E);
    let small = env.small;
    match u.name {
        "record" => build_record_bases(&mut rng, small),
        "jsonb" => build_jsonb_bases(&mut rng, small),
        "array" => build_array_bases(&mut rng, small),
        "key" => build_key_bases(&mut rng, small),
        "varint" => build_varint_bases(&mut rng),
        "catalog" => build_catalog_bases(&mut rng, small),
        "header" => build_header_bases(&mut rng),
        "hnsw" => build_hnsw_bases(&mut rng, small),
        "leaf" => build_leaf_bases(&mut rng, small),
        "interior" => build_interior_bases(&mut rng, small),
        "btree" => build_tree_bases(&mut rng, small, cfg!(miri)),
        "catalog_file" => build_catalog_file_bases(&mut rng, &env.work),
        "wal_file" => build_wal_bases(&mut rng, &env.work),
        "btree_file" => build_btree_file_bases(&mut rng),
        "hnsw_file" => build_hnsw_file_bases(&mut rng, &env.work),
        "db_nowal" => build_db_base(&env.dbroot.join("base-nowal"), false),
        "db_wal" => build_db_base(&env.dbroot.join("base-wal"), true),
        _ => vec![],
    }
}

fn gen_case(u: &UnitSpec, bases: &[Base], env: &Env, idx: u64) -> Case {
    let mut rng = Rng::new(env.base_seed ^ fnv(u.name.as_bytes()).rotate_left(17) ^ idx.wrapping_mul(0x9E3779B97F4A7C15));
    let base = rng.below(bases.len() as u64) as usize;
    let seed = rng.next();
    if u.name == "key" && !cfg!(miri) && idx % 1000 == 7 && idx < 8000 {
        // second round: as deep as fits the u16 key length of a B-tree slot (<= 65535 bytes)
        let k = idx / 1000;
        let depth = if k < 4 { 3_000 } else if k % 4 == 0 { 13_000 } else { 32_000 };
        return Case { base, raw: Some(deep_key(k, depth)), edits: vec![], seed, tag: "crafted_deep_nesting" };
    }
    if rng.below(100) < u.raw_pct {
        let mut raw = random_bytes_input(&mut rng, u.page_blobs);
        let b0 = &bases[base].blobs[0].data;
        match u.name {
            "leaf" | "interior" | "hnsw" if raw.len() == PAGE => raw[0] = b0.first().copied().unwrap_or(2),
            "key" if !raw.is_empty() && rng.chance(1, 2) => raw[0] = *rng.pick(&[0x12u8, 0x16, 0x20, 0x21, 0x30, 0x33, 0x34, 0x40, 0x41, 0x42, 0x54, 0x55, 0x56, 0x60, 0x61, 0x62, 0x63, 0x64, 0x65, 0x70]),
            "varint" if !raw.is_empty() && rng.chance(3, 4) => raw[0] = 241 + rng.below(15) as u8,
            "header" | "catalog_file" => {
                // keep the magic so the random tail is looked at
                let n = raw.len().min(16).min(b0.len());
                raw[..n].copy_from_slice(&b0[..n]);
            }
            _ => {}
        }
        return Case { base, raw: Some(raw), edits: vec![], seed, tag: "random_bytes" };
    }
    let focus = match &bases[base].meta {
        Meta::Db { focus, .. } => Some(*focus),
        _ => None,
    };
    let edits = mutate(&mut rng, &bases[base], u.page_blobs, focus);
    Case { base, raw: None, edits, seed, tag: "mutated_valid" }
}

fn exec_case(u: &UnitSpec, bases: &[Base], case: &Case, env: &Env, rec: &mut Rec) {
    let base = &bases[case.base];
    let blobs = case.materialize(bases);
    match u.name {
        "record" => exec_record(rec, base, &blobs, case.seed),
        "jsonb" => exec_jsonb(rec, base, &blobs, case.seed),
        "array" => exec_array(rec, base, &blobs, case.seed),
        "key" => exec_key(rec, &blobs),
        "varint" => exec_varint(rec, &blobs),
        "catalog" => exec_catalog(rec, &blobs),
        "header" => exec_header(rec, base, &blobs),
        "hnsw" => exec_hnsw(rec, base, &blobs),
        "leaf" => exec_leaf(rec, base, &blobs),
        "interior" => exec_interior(rec, base, &blobs),
        "btree" => exec_tree(rec, base, &blobs, case.seed),
        "catalog_file" => exec_catalog_file(rec, &blobs, &env.work),
        "wal_file" => exec_wal(rec, base, &blobs, case.seed, &env.work),
        "btree_file" => exec_btree_file(rec, base, &blobs, &env.work),
        "hnsw_file" => exec_hnsw_file(rec, base, &blobs, case.seed, &env.work),
        "db_nowal" | "db_wal" => {
            let focus = match &base.meta {
                Meta::Db { focus, .. } => Some(*focus),
                _ => None,
            };
            exec_db(rec, base, &blobs, case.seed, &env.work, focus)
        }
        _ => {}
    }
}

/// does the case still raise `sig`? (used by the minimiser; counters are restored by the caller)
fn still_raises(u: &UnitSpec, bases: &[Base], case: &Case, env: &Env, rec: &mut Rec, sig: &str) -> bool {
    let saved = std::mem::take(&mut rec.case_sigs);
    exec_case(u, bases, case, env, rec);
    let hit = rec.case_sigs.iter().any(|(s, _, _)| s == sig);
    rec.case_sigs = saved;
    hit
}

fn minimize(u: &UnitSpec, bases: &[Base], case: &Case, env: &Env, rec: &mut Rec, sig: &str) -> Case {
    let snap = (rec.ops, rec.ok, rec.err, rec.panics, rec.case_hash, rec.ctr.clone());
    let mut cur = case.clone();
    let mut budget = if u.kind == Kind::Db { 16 } else { 40 };
    // 1. drop edits
    let mut i = 0;
    while cur.edits.len() > 1 && i < cur.edits.len() && budget > 0 {
        let mut t = cur.clone();
        t.edits.remove(i);
        budget -= 1;
        if still_raises(u, bases, &t, env, rec, sig) {
            cur = t;
        } else {
            i += 1;
        }
    }
    // 2. shorten raw inputs
    if let Some(raw) = cur.raw.clone() {
        let mut len = raw.len();
        while len > 1 && budget > 0 {
            let nl = len / 2;
            let mut t = cur.clone();
            t.raw = Some(raw[..nl].to_vec());
            budget -= 1;
            if still_raises(u, bases, &t, env, rec, sig) {
                cur = t;
                len = nl;
            } else {
                break;
            }
        }
        // trim the tail byte by byte
        while budget > 0 {
            let r = cur.raw.clone().unwrap();
            if r.len() <= 1 {
                break;
            }
            let mut t = cur.clone();
            t.raw = Some(r[..r.len() - 1].to_vec());
            budget -= 1;
            if still_raises(u, bases, &t, env, rec, sig) {
                cur = t;
            } else {
                break;
            }
        }
    }
    // 3. narrow multi-byte Set edits to the single byte that matters
    if cur.edits.len() == 1 && budget > 0 {
        if let Edit::Set { blob, off, bytes } = cur.edits[0].clone() {
            if bytes.len() > 1 {
                for k in 0..bytes.len() {
                    if budget == 0 {
                        break;
                    }
                    let mut t = cur.clone();
                    t.edits = vec![Edit::Set { blob, off: off + k, bytes: vec![bytes[k]] }];
                    budget -= 1;
                    if still_raises(u, bases, &t, env, rec, sig) {
                        cur = t;
                        break;
                    }
                }
            }
        }
    }
    rec.ops = snap.0;
    rec.ok = snap.1;
    rec.err = snap.2;
    rec.panics = snap.3;
    rec.case_hash = snap.4;
    rec.ctr = snap.5;
    cur
}

fn now_ms() -> u64 {
    std::time::SystemTime::now().duration_since(std::time::UNIX_EPOCH).map(|d| d.as_millis() as u64).unwrap_or(0)
}

/// run cases [start, start+count) of one unit; returns the number executed
fn run_cases(u: &UnitSpec, env: &Env, start: u64, count: u64, deadline_ms: u64, rec: &mut Rec) -> u64 {
    if let Some(bb) = &rec.bb {
        bb.op("setup");
    }
    let bases = build_bases(u, env);
    if bases.is_empty() {
        rec.emit(json!({"t": "nobase"}));
        return 0;
    }
    let mut done = 0u64;
    let mut last_flush = std::time::Instant::now();
    for idx in start..start + count {
        if deadline_ms > 0 && idx % 16 == 0 && !cfg!(miri) && now_ms() > deadline_ms {
            break;
        }
        let case = gen_case(u, &bases, env, idx);
        rec.begin_case(idx);
        exec_case(u, &bases, &case, env, rec);
        rec.evals += 1;
        done += 1;
        // structural hash: which mutation classes met which outcome vector
        let mut kh = fnv(case.tag.as_bytes());
        for e in &case.edits {
            kh ^= fnv(e.kind().as_bytes()).rotate_left(3);
        }
        let h = fnv(u.name.as_bytes()) ^ kh.rotate_left(11) ^ rec.case_hash;
        if rec.seen_nt.len() < 200_000 && rec.seen_nt.insert(h) {
            rec.new_nt.push(h);
        }
        let sigs = std::mem::take(&mut rec.case_sigs);
        for (sig, assertion, detail) in sigs {
            *rec.sig_delta.entry(sig.clone()).or_insert(0) += 1;
            let n = rec.sig_examples.entry(sig.clone()).or_insert(0);
            *n += 1;
            if *n <= 2 {
                let first = *n == 1;
                let mut d = case.describe(u.name, idx, &bases, env.seed, &env.tier);
                d["observed"] = detail.clone();
                rec.emit(json!({"t": "v", "sig": sig, "assertion": assertion, "detail": d}));
                if first && !cfg!(miri) {
                    let m = minimize(u, &bases, &case, env, rec, &sig);
                    let mut d = m.describe(u.name, idx, &bases, env.seed, &env.tier);
                    d["observed"] = detail;
                    d["note"] = json!("minimised: edits dropped / input shortened while the same signature is raised (replay command reproduces the unminimised case)");
                    rec.emit(json!({"t": "min", "sig": sig, "detail": d}));
                }
            }
        }
        if let Some(bb) = &rec.bb {
            bb.finished(done);
        }
        if done % 512 == 0 || (done % 4 == 0 && !cfg!(miri) && last_flush.elapsed().as_millis() > 1500) {
            last_flush = std::time::Instant::now();
            rec.flush_progress();
            if let Some(bb) = &rec.bb {
                bb.flushed(done);
            }
        }
    }
    rec.flush_progress();
    rec.emit(json!({"t": "done", "executed": done}));
    done
}

// ------------------------------------------------------------------------------------------
// child process
// ------------------------------------------------------------------------------------------
#[cfg(not(miri))]
fn limit_address_space(bytes: u64) {
    unsafe {
        let lim = libc::rlimit { rlim_cur: bytes as libc::rlim_t, rlim_max: bytes as libc::rlim_t };
        libc::setrlimit(libc::RLIMIT_AS, &lim);
        // no core files for the deaths we provoke
        let z = libc::rlimit { rlim_cur: 0, rlim_max: 0 };
        libc::setrlimit(libc::RLIMIT_CORE, &z);
    }
}
#[cfg(miri)]
fn limit_address_space(_bytes: u64) {}

const CHILD_AS_LIMIT: u64 = 4 << 30;
const CHILD_STACK: usize = 8 << 20;

/// args: child <unit> <start> <count> <jobdir> [<dbroot>] [<deadline_ms>]
fn child_main(a: &Args) -> i32 {
    // eyre captures (and, when an error is Debug-formatted, symbolises) a backtrace per error if
    // these are set: orders of magnitude slower and unrelated to the property
    std::env::set_var("RUST_BACKTRACE", "0");
    std::env::set_var("RUST_LIB_BACKTRACE", "0");
    let r = &a.rest;
    if r.len() < 5 {
        eprintln!("usage: tv C23 child <unit> <start> <count> <jobdir> [<dbroot>] [<deadline_ms>]");
        return 2;
    }
    let u = match unit_spec(&r[1]) {
        Some(u) => u,
        None => {
            eprintln!("unknown unit {}", r[1]);
            return 2;
        }
    };
    let start: u64 = r[2].parse().expect("start");
    let count: u64 = r[3].parse().expect("count");
    let jobdir = PathBuf::from(&r[4]);
    let dbroot = r.get(5).map(PathBuf::from).unwrap_or_else(|| jobdir.clone());
    let deadline: u64 = r.get(6).and_then(|s| s.parse().ok()).unwrap_or(0);
    let _ = std::fs::create_dir_all(jobdir.join("work"));
    let standalone = r.get(5).is_none();
    if standalone && u.kind == Kind::Db {
        // replay outside a parent run: build the base images here
        let _ = create_db_base(&dbroot, false);
        let _ = create_db_base(&dbroot, true);
    }
    limit_address_space(CHILD_AS_LIMIT);
    #[cfg(not(miri))]
    {
        // do not outlive the parent (a hung case would otherwise spin forever if the parent is killed)
        let ppid = unsafe { libc::getppid() };
        std::thread::spawn(move || loop {
            std::thread::sleep(std::time::Duration::from_millis(500));
            if unsafe { libc::getppid() } != ppid {
                std::process::exit(3);
            }
        });
    }
    let bb = BlackBox::open(&jobdir.join("bb"));
    let out = std::fs::OpenOptions::new().create(true).append(true).open(jobdir.join("res.jsonl")).expect("result file");
    let env = Env { work: jobdir.join("work"), dbroot, small: a.tier == "quick", base_seed: base_seed(a.seed), seed: a.seed, tier: a.tier.clone() };
    let unit_name = u.name;
    let h = std::thread::Builder::new()
        .stack_size(CHILD_STACK)
        .name("c23-cases".into())
        .spawn(move || {
            let mut rec = Rec::new(unit_name, bb, Some(out));
            run_cases(u, &env, start, count, deadline, &mut rec)
        })
        .expect("spawn worker");
    let done = h.join().unwrap_or(0);
    if standalone {
        if let Ok(s) = std::fs::read_to_string(jobdir.join("res.jsonl")) {
            for l in s.lines() {
                if l.starts_with("{\"t\":\"v\"") || l.contains("\"t\":\"v\"") || l.contains("\"t\":\"min\"") {
                    println!("{}", l);
                }
            }
        }
        println!("child: unit={} start={} executed={}", unit_name, start, done);
    }
    0
}

// ------------------------------------------------------------------------------------------
// aggregation (parent side and in-process mode)
// ------------------------------------------------------------------------------------------
#[derive(Default)]
struct SigAgg {
    count: u64,
    assertion: String,
    examples: Vec<Value>,
    minimized: Option<Value>,
    units: Vec<String>,
}

#[derive(Default, Clone)]
struct UnitAgg {
    cases: u64,
    ops: u64,
    ok: u64,
    err: u64,
    panics: u64,
    deaths: u64,
    hangs: u64,
    skipped: u64,
    planned: u64,
}

struct Agg {
    sigs: BTreeMap<String, SigAgg>,
    units: BTreeMap<String, UnitAgg>,
}

impl Agg {
    fn new() -> Agg {
        Agg { sigs: BTreeMap::new(), units: BTreeMap::new() }
    }
    fn add_sig(&mut self, unit: &str, sig: &str, assertion: &str, n: u64, example: Option<Value>) {
        let s = self.sigs.entry(sig.to_string()).or_default();
        s.count += n;
        if s.assertion.is_empty() {
            s.assertion = assertion.to_string();
        }
        if !s.units.iter().any(|x| x == unit) {
            s.units.push(unit.to_string());
        }
        if let Some(e) = example {
            if s.examples.len() < 2 {
                s.examples.push(e);
            }
        }
    }
    /// returns true if a "done" line was seen
    fn merge_lines<'a>(&mut self, unit: &str, lines: impl Iterator<Item = &'a str>, ctx: &mut Ctx) -> bool {
        let mut done = false;
        for l in lines {
            let v: Value = match serde_json::from_str(l) {
                Ok(v) => v,
                Err(_) => continue, // torn last line of a dead child
            };
            match v["t"].as_str().unwrap_or("") {
                "p" => {
                    let ua = self.units.entry(unit.to_string()).or_default();
                    let e = v["evals"].as_u64().unwrap_or(0);
                    ua.cases += e;
                    ua.ops += v["ops"].as_u64().unwrap_or(0);
                    ua.ok += v["ok"].as_u64().unwrap_or(0);
                    ua.err += v["err"].as_u64().unwrap_or(0);
                    ua.panics += v["panics"].as_u64().unwrap_or(0);
                    ctx.evals(e);
                    if let Some(a) = v["nt"].as_array() {
                        for h in a {
                            if let Some(h) = h.as_u64() {
                                ctx.nontrivial(h);
                            }
                        }
                    }
                    if let Some(m) = v["sigc"].as_object() {
                        for (sig, n) in m {
                            self.add_sig(unit, sig, "", n.as_u64().unwrap_or(0), None);
                        }
                    }
                    if let Some(m) = v["ctr"].as_object() {
                        for (k, n) in m {
                            ctx.count(k, n.as_u64().unwrap_or(0));
                        }
                    }
                }
                "v" => {
                    let sig = v["sig"].as_str().unwrap_or("").to_string();
                    let asr = v["assertion"].as_str().unwrap_or("").to_string();
                    self.add_sig(unit, &sig, &asr, 0, Some(v["detail"].clone()));
                    if let Some(s) = self.sigs.get_mut(&sig) {
                        if s.assertion.is_empty() {
                            s.assertion = asr;
                        }
                    }
                }
                "min" => {
                    let sig = v["sig"].as_str().unwrap_or("").to_string();
                    let s = self.sigs.entry(sig).or_default();
                    if s.minimized.is_none() {
                        s.minimized = Some(v["detail"].clone());
                    }
                }
                "done" => done = true,
                _ => {}
            }
        }
        done
    }
    fn finish(self, ctx: &mut Ctx) {
        let mut all = vec![];
        let mut sigmap = serde_json::Map::new();
        for (sig, s) in &self.sigs {
            let count = s.count.max(s.examples.len() as u64).max(1);
            if sig.starts_with("C23/harness_bug/") {
                ctx.inconclusive(&format!("the harness itself panicked ({} x{}): {}", sig, count, s.examples.first().map(|e| e["observed"].to_string()).unwrap_or_default()));
                continue;
            }
            sigmap.insert(sig.clone(), json!(count));
            let assertion = if s.assertion.is_empty() { "no_panic".to_string() } else { s.assertion.clone() };
            let detail = json!({"occurrences": count, "units": s.units, "minimized": s.minimized, "examples": s.examples});
            all.push(json!({"sig": sig, "assertion": assertion, "detail": detail.clone()}));
            let known = ctx.is_known(sig).map(|f| f.id.clone());
            let unexplained = ctx.violation(&assertion, sig, detail);
            if !unexplained {
                if let Some(id) = known {
                    *ctx.known_hits.entry(id).or_insert(0) += count - 1;
                }
            }
        }
        ctx.count("distinct_signatures", self.sigs.len() as u64);
        ctx.extra.insert("signatures".into(), Value::Object(sigmap));
        let mut um = serde_json::Map::new();
        for (u, a) in &self.units {
            um.insert(u.clone(), json!({"planned": a.planned, "cases": a.cases, "decoder_calls": a.ops, "ok": a.ok, "err": a.err, "panics": a.panics, "process_deaths": a.deaths, "hangs": a.hangs, "cases_not_run": a.skipped}));
        }
        ctx.extra.insert("per_unit".into(), Value::Object(um));
        if !all.is_empty() {
            let dir = format!("{}/replay/{}", report::VERIF_DIR, ctx.prop);
            let _ = std::fs::create_dir_all(&dir);
            let path = format!("{}/{}-seed{}-all-signatures.json", dir, ctx.tier, ctx.seed);
            let _ = std::fs::write(&path, serde_json::to_string_pretty(&Value::Array(all)).unwrap());
            ctx.extra.insert("all_signatures_file".into(), json!(path));
        }
    }
}

// ------------------------------------------------------------------------------------------
// parent: schedules jobs over child processes, watches black boxes, attributes deaths and hangs
// ------------------------------------------------------------------------------------------
struct Job {
    unit: &'static UnitSpec,
    start: u64,
    end: u64,
    restarts: u32,
}

#[cfg(not(miri))]
struct Running {
    job: Job,
    child: std::process::Child,
    dir: PathBuf,
    last: (u64, u64),
    last_change: std::time::Instant,
    /// CPU seconds the child had consumed when the heartbeat last changed
    cpu_mark: f64,
}

/// user+system CPU seconds of a process (all threads)
#[cfg(not(miri))]
fn proc_cpu_s(pid: u32) -> Option<f64> {
    let st = std::fs::read_to_string(format!("/proc/{}/stat", pid)).ok()?;
    let rest = &st[st.rfind(')')? + 1..];
    let f: Vec<&str> = rest.split_whitespace().collect();
    // after the ")" the fields start at #3 (state); utime = #14, stime = #15
    let ut: f64 = f.get(11)?.parse().ok()?;
    let stime: f64 = f.get(12)?.parse().ok()?;
    Some((ut + stime) / 100.0)
}

fn classify_death(status: &std::process::ExitStatus, stderr: &str) -> String {
    use std::os::unix::process::ExitStatusExt;
    if stderr.contains("memory allocation of") || stderr.contains("capacity overflow") && stderr.contains("abort") {
        return "alloc_abort".into();
    }
    if stderr.contains("has overflowed its stack") || stderr.contains("stack overflow") {
        return "stack_overflow".into();
    }
    if stderr.contains("panic in a function that cannot unwind") || stderr.contains("panicked while processing panic") || stderr.contains("panic in a destructor") {
        return "double_panic_abort".into();
    }
    match status.signal() {
        Some(6) => "abort/SIGABRT".into(),
        Some(11) => "abort/SIGSEGV".into(),
        Some(7) => "abort/SIGBUS".into(),
        Some(4) => "abort/SIGILL".into(),
        Some(9) => "abort/SIGKILL".into(),
        Some(s) => format!("abort/signal{}", s),
        None => format!("exit/{}", status.code().unwrap_or(-1)),
    }
}

#[cfg(not(miri))]
fn parent_main(a: &Args) -> i32 {
    use std::process::{Command, Stdio};
    use std::time::{Duration, Instant};
    let mut ctx = Ctx::new(
        "C23",
        &a.tier,
        a.seed,
        "exploration",
        "per decoder: valid encodings from the real encoders, mutated (structural-field edits with boundary values, bit flips, random bytes, 0x00/0xFF runs, truncation, appends, splices; 1-3 edits) + raw random bytes + crafted deep nesting (keys); database level: every file of a valid database (WAL off, closed; WAL on, crash image) corrupted the same way, then open + scans + index/pk lookups + kNN + insert/update/delete + close. distinct_nontrivial = distinct (unit, mutation classes, per-call outcome vector Ok/Err/panic) hashes",
    );
    std::env::set_var("RUST_BACKTRACE", "0");
    std::env::set_var("RUST_LIB_BACKTRACE", "0");
    let quick = ctx.quick();
    let t0 = Instant::now();
    let budget_s: u64 = std::env::var("TV_C23_BUDGET_S").ok().and_then(|s| s.parse().ok()).unwrap_or(if quick { 50 } else { 600 });
    let deadline = t0 + Duration::from_secs(budget_s);
    let deadline_ms = now_ms() + budget_s * 1000;
    let root = PathBuf::from(format!("{}/scratch/c23-{}", report::VERIF_DIR, std::process::id()));
    fresh_dir(&root);
    let exe = std::env::current_exe().expect("current_exe");
    let only: Option<Vec<String>> = std::env::var("TV_C23_UNITS").ok().map(|s| s.split(',').map(|x| x.to_string()).collect());
    let scale: f64 = std::env::var("TV_C23_SCALE").ok().and_then(|s| s.parse().ok()).unwrap_or(1.0);

    // valid databases
    let mut db_ok = true;
    let tdb = Instant::now();
    for wal in [false, true] {
        match create_db_base(&root, wal) {
            Ok(dir) => {
                // baseline: the uncorrupted image must open and scan
                let work = root.join("baseline");
                fresh_dir(&work);
                let _ = copy_dir(&dir, &work.join("db"));
                let r = guard(|| -> Result<(usize, usize, usize), String> {
                    let db = Database::open(work.join("db")).map_err(|e| format!("open: {e}"))?;
                    let a = db.query("SELECT * FROM t1").map_err(|e| format!("t1: {e}"))?.len();
                    let b = db.query("SELECT * FROM emb").map_err(|e| format!("emb: {e}"))?.len();
                    let c = db.query("SELECT id FROM t1 WHERE n = 3").map_err(|e| format!("idx: {e}"))?.len();
                    let _ = db.close();
                    Ok((a, b, c))
                });
                let files = read_dir_blobs(&dir);
                ctx.extra.insert(
                    format!("db_base_{}", if wal { "wal" } else { "nowal" }),
                    json!({"files": files.iter().map(|b| format!("{} ({} B)", b.name, b.data.len())).collect::<Vec<_>>(), "baseline_rows_t1_emb_idx": format!("{:?}", r)}),
                );
                if !matches!(r, Ok(Ok(_))) {
                    ctx.inconclusive(&format!("baseline database image (wal={}) does not open/scan cleanly: {:?}", wal, r));
                    db_ok = false;
                }
            }
            Err(e) => {
                ctx.inconclusive(&format!("could not build the valid database (wal={}): {}", wal, e));
                db_ok = false;
            }
        }
    }

    ctx.extra.insert("db_base_build_s".into(), json!(tdb.elapsed().as_secs_f64()));
    let mut agg = Agg::new();
    let mut queue: std::collections::VecDeque<Job> = Default::default();
    // interleave units so that every unit gets lanes early
    let mut per_unit: Vec<Vec<Job>> = vec![];
    for u in UNITS {
        if let Some(o) = &only {
            if !o.iter().any(|x| x == u.name) {
                continue;
            }
        }
        if u.kind == Kind::Db && !db_ok {
            continue;
        }
        let total = ((if quick { u.quick } else { u.thorough }) as f64 * scale) as u64;
        let chunk = if quick { u.chunk_quick } else { u.chunk_thorough };
        agg.units.entry(u.name.to_string()).or_default().planned = total;
        let mut v = vec![];
        let mut s = 0;
        while s < total {
            let e = (s + chunk).min(total);
            v.push(Job { unit: u, start: s, end: e, restarts: 0 });
            s = e;
        }
        per_unit.push(v);
    }
    // slow units first
    per_unit.reverse();
    loop {
        let mut any = false;
        for v in per_unit.iter_mut() {
            if !v.is_empty() {
                queue.push_back(v.remove(0));
                any = true;
            }
        }
        if !any {
            break;
        }
    }
    let ncpu = std::thread::available_parallelism().map(|n| n.get()).unwrap_or(4);
    let lanes: usize = std::env::var("TV_C23_LANES").ok().and_then(|s| s.parse().ok()).unwrap_or_else(|| ncpu.saturating_sub(2).clamp(2, 12));
    let max_restarts: u32 = if quick { 12 } else { 60 };
    let hang_of = |u: &UnitSpec| if quick { u.hang_q } else { u.hang_t };
    let mut running: Vec<Running> = vec![];
    let mut jobno = 0u64;
    // lazily built bases for describing cases of dead children
    let penv = Env { work: root.join("parent-work"), dbroot: root.clone(), small: quick, base_seed: base_seed(a.seed), seed: a.seed, tier: a.tier.clone() };
    fresh_dir(&penv.work);
    let mut pbases: HashMap<&'static str, Vec<Base>> = HashMap::new();
    let mut describe = |u: &'static UnitSpec, idx: u64, pbases: &mut HashMap<&'static str, Vec<Base>>| -> Value {
        let r = guard(|| {
            if !pbases.contains_key(u.name) {
                let b = build_bases(u, &penv);
                pbases.insert(u.name, b);
            }
            let bases = &pbases[u.name];
            let c = gen_case(u, bases, &penv, idx);
            c.describe(u.name, idx, bases, penv.seed, &penv.tier)
        });
        r.unwrap_or_else(|e| json!({"unit": u.name, "case": idx, "describe_failed": e.1}))
    };

    loop {
        let now = Instant::now();
        let expired = now >= deadline;
        while !expired && running.len() < lanes {
            let job = match queue.pop_front() {
                Some(j) => j,
                None => break,
            };
            jobno += 1;
            let dir = root.join(format!("job-{}", jobno));
            fresh_dir(&dir);
            let errf = std::fs::File::create(dir.join("stderr.txt")).expect("stderr file");
            let child = Command::new(&exe)
                .arg("C23")
                .arg("--tier")
                .arg(&a.tier)
                .arg("--seed")
                .arg(a.seed.to_string())
                .arg("child")
                .arg(job.unit.name)
                .arg(job.start.to_string())
                .arg((job.end - job.start).to_string())
                .arg(&dir)
                .arg(&root)
                .arg(deadline_ms.to_string())
                .env("RUST_BACKTRACE", "0")
                .env("RUST_LIB_BACKTRACE", "0")
                .stdin(Stdio::null())
                .stdout(Stdio::null())
                .stderr(Stdio::from(errf))
                .spawn()
                .expect("spawn child");
            running.push(Running { job, child, dir, last: (u64::MAX, u64::MAX), last_change: Instant::now(), cpu_mark: 0.0 });
        }
        if running.is_empty() && (queue.is_empty() || expired) {
            break;
        }
        let mut i = 0;
        while i < running.len() {
            let mut finished: Option<(Option<std::process::ExitStatus>, bool)> = None; // (status, killed_for_hang)
            match running[i].child.try_wait() {
                Ok(Some(st)) => finished = Some((Some(st), false)),
                Ok(None) => {
                    let bb = read_blackbox(&running[i].dir.join("bb"));
                    let cur = bb.as_ref().map(|b| (b.0, b.1)).unwrap_or((u64::MAX, 0));
                    if cur != running[i].last {
                        running[i].last = cur;
                        running[i].last_change = Instant::now();
                        running[i].cpu_mark = proc_cpu_s(running[i].child.id()).unwrap_or(0.0);
                    }
                    let lab = bb.as_ref().map(|b| b.3.clone()).unwrap_or_default();
                    // base construction (valid inputs) may legitimately take a while
                    let symbolizing = bb.as_ref().map(|b| b.4).unwrap_or(false);
                    let limit = if lab == "setup" || lab.is_empty() || symbolizing { 90 } else { hang_of(running[i].job.unit) };
                    // a hang = the child burned `limit` CPU seconds inside one call (robust against a loaded
                    // machine, where wall time says nothing), or sat blocked for a very long wall time
                    let stalled = running[i].last_change.elapsed();
                    let burned = if stalled > Duration::from_secs(limit.min(2)) { proc_cpu_s(running[i].child.id()).map(|c| c - running[i].cpu_mark).unwrap_or(f64::MAX) } else { 0.0 };
                    if burned > limit as f64 || stalled > Duration::from_secs(limit * 12) {
                        let _ = running[i].child.kill();
                        let st = running[i].child.wait().ok();
                        finished = Some((st, true));
                    } else if expired && now > deadline + Duration::from_secs(3) {
                        // out of budget: stop the child; what it did so far is merged, the rest counted as not run
                        let _ = running[i].child.kill();
                        let _ = running[i].child.wait();
                        let r = running.swap_remove(i);
                        let txt = std::fs::read_to_string(r.dir.join("res.jsonl")).unwrap_or_default();
                        agg.merge_lines(r.job.unit.name, txt.lines(), &mut ctx);
                        let fin = read_blackbox(&r.dir.join("bb")).map(|b| b.2).unwrap_or(0);
                        agg.units.entry(r.job.unit.name.to_string()).or_default().skipped += (r.job.end - r.job.start).saturating_sub(fin);
                        let _ = std::fs::remove_dir_all(&r.dir);
                        continue;
                    }
                }
                Err(_) => finished = Some((None, false)),
            }
            if let Some((status, hung)) = finished {
                let r = running.swap_remove(i);
                let uname = r.job.unit.name;
                let txt = std::fs::read_to_string(r.dir.join("res.jsonl")).unwrap_or_default();
                let done = agg.merge_lines(uname, txt.lines(), &mut ctx);
                if !done {
                    let bb = read_blackbox(&r.dir.join("bb"));
                    let (idx, _, fin, label, _, flushed) = bb.unwrap_or((r.job.start, 0, 0, "setup".into(), false, 0));
                    let stderr = std::fs::read_to_string(r.dir.join("stderr.txt")).unwrap_or_default();
                    let ua = agg.units.entry(uname.to_string()).or_default();
                    if label == "setup" || label.is_empty() {
                        ua.skipped += r.job.end - r.job.start;
                        ctx.inconclusive(&format!("unit {} child died/hung during setup (valid-input construction): {}", uname, stderr.lines().last().unwrap_or("")));
                    } else {
                        // cases before idx in this job were executed but the tail of their counters may be lost (flushed every 512)
                        let class = if hung { "hang".to_string() } else { status.as_ref().map(|s| classify_death(s, &stderr)).unwrap_or_else(|| "abort/unknown".into()) };
                        if hung {
                            ua.hangs += 1;
                        } else {
                            ua.deaths += 1;
                        }
                        let lost = fin.saturating_sub(flushed);
                        ua.cases += lost + 1;
                        ctx.evals(lost + 1);
                        let sig = format!("C23/{}/{}", label, class);
                        let mut d = describe(r.job.unit, idx, &mut pbases);
                        d["observed"] = json!({"op": label, "outcome": class, "hang_limit_s": if hung { json!(hang_of(r.job.unit)) } else { Value::Null }, "stderr_tail": stderr.lines().rev().take(4).collect::<Vec<_>>(), "child_stack_bytes": CHILD_STACK, "child_rlimit_as": CHILD_AS_LIMIT});
                        let assertion = if hung { "terminates" } else { "no_abort" };
                        agg.add_sig(uname, &sig, assertion, 1, Some(d));
                        ctx.nontrivial(fnv(sig.as_bytes()) ^ idx);
                        let next = idx + 1;
                        if next < r.job.end {
                            if r.job.restarts < max_restarts {
                                queue.push_front(Job { unit: r.job.unit, start: next, end: r.job.end, restarts: r.job.restarts + 1 });
                            } else {
                                agg.units.entry(uname.to_string()).or_default().skipped += r.job.end - next;
                                ctx.count("jobs_abandoned_after_repeated_deaths", 1);
                            }
                        }
                    }
                } else {
                    // executed fewer than planned because of the deadline?
                    let fin = read_blackbox(&r.dir.join("bb")).map(|b| b.2).unwrap_or(0);
                    let planned = r.job.end - r.job.start;
                    if fin < planned {
                        agg.units.entry(uname.to_string()).or_default().skipped += planned - fin;
                    }
                }
                let _ = std::fs::remove_dir_all(&r.dir);
                continue;
            }
            i += 1;
        }
        std::thread::sleep(Duration::from_millis(15));
    }
    for j in queue.iter() {
        agg.units.entry(j.unit.name.to_string()).or_default().skipped += j.end - j.start;
    }
    let not_run: u64 = agg.units.values().map(|u| u.skipped).sum();
    ctx.count("cases_planned_but_not_run", not_run);
    ctx.count("child_processes", jobno);
    ctx.extra.insert("lanes".into(), json!(lanes));
    ctx.extra.insert("budget_s".into(), json!(budget_s));
    for (u, ua) in agg.units.iter() {
        if ua.planned > 0 && ua.cases == 0 {
            ctx.inconclusive(&format!("unit {} executed no case", u));
        }
    }
    ctx.assumptions.push("children run cases on a thread with an 8 MiB stack under RLIMIT_AS = 4 GiB; a stack overflow or allocation failure under these limits is reported as a violation".into());
    ctx.assumptions.push("a hang is declared when a child consumed that many CPU seconds (wall-time fallback: 12x) without its (case, op) heartbeat changing: 2/2/5 CPU-s (quick: in-memory / file / database level) or 4/4/10 CPU-s (thorough)".into());
    ctx.assumptions.push("overflow-checks are on in this build profile: arithmetic overflow on decoded fields panics here and would wrap in a release build".into());
    ctx.exhaustive = Some(false);
    ctx.sample(json!({"unit": "record", "example_case": describe(unit_spec("record").unwrap(), 1, &mut pbases)}));
    ctx.sample(json!({"unit": "btree", "example_case": describe(unit_spec("btree").unwrap(), 1, &mut pbases)}));
    if db_ok {
        ctx.sample(json!({"unit": "db_nowal", "example_case": describe(unit_spec("db_nowal").unwrap(), 1, &mut pbases)}));
    }
    agg.finish(&mut ctx);
    let _ = std::fs::remove_dir_all(&root);
    ctx.finish()
}

// ------------------------------------------------------------------------------------------
// in-process mode (Miri): in-memory units only, small volume, no files, no processes
// ------------------------------------------------------------------------------------------
fn inproc_main(a: &Args) -> i32 {
    let mut ctx = Ctx::new(
        "C23",
        &a.tier,
        a.seed,
        "exploration",
        "in-process (Miri) mode: in-memory decoders only, ~100 mutated/random inputs each; the interpreter is the monitor for out-of-bounds/unaligned reads in unsafe paths (RecordView::get_vector, simd_scan)",
    );
    let n: u64 = std::env::var("TV_C23_MIRI_CASES").ok().and_then(|s| s.parse().ok()).unwrap_or(100);
    let env = Env { work: PathBuf::from("/nonexistent"), dbroot: PathBuf::from("/nonexistent"), small: true, base_seed: base_seed(a.seed), seed: a.seed, tier: a.tier.clone() };
    let mut agg = Agg::new();
    for u in UNITS.iter().filter(|u| u.kind == Kind::Mem) {
        let mut rec = Rec::new(u.name, None, None);
        let cnt = if u.name == "btree" { n / 4 + 1 } else { n };
        agg.units.entry(u.name.to_string()).or_default().planned = cnt;
        run_cases(u, &env, 0, cnt, 0, &mut rec);
        let lines = std::mem::take(&mut rec.lines);
        agg.merge_lines(u.name, lines.iter().map(|s| s.as_str()), &mut ctx);
    }
    ctx.exhaustive = Some(false);
    ctx.sample(json!({"mode": "in-process", "cases_per_unit": n}));
    agg.finish(&mut ctx);
    ctx.finish()
}

pub fn run(a: &Args) -> i32 {
    if a.rest.first().map(|s| s.as_str()) == Some("child") {
        return child_main(a);
    }
    #[cfg(miri)]
    {
        return inproc_main(a);
    }
    #[cfg(not(miri))]
    {
        if std::env::var("TV_C23_INPROC").is_ok() {
            return inproc_main(a);
        }
        parent_main(a)
    }
}

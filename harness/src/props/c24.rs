//! C24: vector distance ordering is exact.
//!
//! (a) kernel level: every public distance kernel in `turdb::hnsw::distance` (scalar, AVX2 when the
//!     CPU has avx2+fma, NEON on aarch64, and the dispatchers) against an f64 reference, for every
//!     length 0..=70, 127..=130, 255..=257 and 13 input classes, with a rounding bound derived from
//!     length x f32 epsilon x sum of |terms|.
//! (b) SQL level: generated VECTOR(d) tables, `ORDER BY v <-> q` / `v <=> q` with and without LIMIT,
//!     on tables without and with an HNSW index; sub-assertions row_count, row_identity,
//!     non_decreasing, k_smallest, distance_value, vector_roundtrip.
use crate::report::{catch, panic_site, Ctx};
use crate::rng::{fnv, Rng};
use crate::Args;
use serde_json::{json, Value};
use std::collections::{HashMap, HashSet};
use turdb::hnsw::distance as dist;
use turdb::hnsw::DistanceFunction;
use turdb::{Database, OwnedValue};

const EPS: f64 = f32::EPSILON as f64; // 2^-23
const F32_MAX: f64 = f32::MAX as f64;
const SUBNORMAL_STEP: f64 = 1.5e-45; // > 2^-149

thread_local! {
    static SIG_COUNTS: std::cell::RefCell<std::collections::BTreeMap<String, u64>> = std::cell::RefCell::new(Default::default());
}

/// `ctx.violation` + a per-signature histogram (goes to the evidence as `violation_signature_counts`)
fn viol(ctx: &mut Ctx, assertion: &str, sig: &str, detail: Value) -> bool {
    SIG_COUNTS.with(|m| *m.borrow_mut().entry(sig.to_string()).or_insert(0) += 1);
    ctx.violation(assertion, sig, detail)
}

/// stable cause string for a caught panic: the std sort's "not a total order" panic is named, any
/// other panic is keyed by file:line with the toolchain hash removed
fn panic_cause(p: &str) -> String {
    if p.contains("does not correctly implement a total order") {
        return "sort_comparator_not_total_order".to_string();
    }
    let site = panic_site(p);
    if let Some(rest) = site.strip_prefix("/rustc/") {
        if let Some(i) = rest.find('/') {
            return format!("std:{}", &rest[i + 1..]);
        }
    }
    site
}

// ---------------------------------------------------------------------------------------------
// (a) kernels
// ---------------------------------------------------------------------------------------------

#[derive(Clone, Copy, PartialEq, Debug)]
enum Kind {
    L2Sq,
    L2,
    Dot,
    NegDot,
    Cos,
}

struct Kernel {
    name: &'static str,
    kind: Kind,
    vectorised: bool,
    f: Box<dyn Fn(&[f32], &[f32]) -> f32>,
}

fn k(name: &'static str, kind: Kind, vectorised: bool, f: impl Fn(&[f32], &[f32]) -> f32 + 'static) -> Kernel {
    Kernel { name, kind, vectorised, f: Box::new(f) }
}

fn cpu_avx2_fma() -> bool {
    #[cfg(target_arch = "x86_64")]
    {
        is_x86_feature_detected!("avx2") && is_x86_feature_detected!("fma")
    }
    #[cfg(not(target_arch = "x86_64"))]
    {
        false
    }
}

fn kernels() -> Vec<Kernel> {
    let simd_dispatch = cpu_avx2_fma() || cfg!(target_arch = "aarch64");
    let mut v = vec![
        k("euclidean_squared_scalar", Kind::L2Sq, false, dist::euclidean_squared_scalar),
        k("euclidean_scalar", Kind::L2, false, dist::euclidean_scalar),
        k("dot_product_scalar", Kind::Dot, false, dist::dot_product_scalar),
        k("inner_product_scalar", Kind::NegDot, false, dist::inner_product_scalar),
        k("cosine_scalar", Kind::Cos, false, dist::cosine_scalar),
    ];
    #[cfg(target_arch = "x86_64")]
    {
        if cpu_avx2_fma() {
            // SAFETY: avx2 and fma were detected on this CPU; the slices passed have equal length.
            v.push(k("euclidean_squared_avx2", Kind::L2Sq, true, |a, b| unsafe { dist::euclidean_squared_avx2(a, b) }));
            v.push(k("euclidean_avx2", Kind::L2, true, |a, b| unsafe { dist::euclidean_avx2(a, b) }));
            v.push(k("dot_product_avx2", Kind::Dot, true, |a, b| unsafe { dist::dot_product_avx2(a, b) }));
            v.push(k("inner_product_avx2", Kind::NegDot, true, |a, b| unsafe { dist::inner_product_avx2(a, b) }));
            v.push(k("cosine_avx2", Kind::Cos, true, |a, b| unsafe { dist::cosine_avx2(a, b) }));
        }
    }
    #[cfg(target_arch = "aarch64")]
    {
        // SAFETY: NEON is always present on aarch64; the slices passed have equal length.
        v.push(k("euclidean_squared_neon", Kind::L2Sq, true, |a, b| unsafe { dist::euclidean_squared_neon(a, b) }));
        v.push(k("euclidean_neon", Kind::L2, true, |a, b| unsafe { dist::euclidean_neon(a, b) }));
        v.push(k("dot_product_neon", Kind::Dot, true, |a, b| unsafe { dist::dot_product_neon(a, b) }));
        v.push(k("inner_product_neon", Kind::NegDot, true, |a, b| unsafe { dist::inner_product_neon(a, b) }));
        v.push(k("cosine_neon", Kind::Cos, true, |a, b| unsafe { dist::cosine_neon(a, b) }));
    }
    let f = dist::select_distance_fn(DistanceFunction::L2);
    v.push(k("select_distance_fn(L2)", Kind::L2, simd_dispatch, move |a, b| f(a, b)));
    let f = dist::select_distance_fn(DistanceFunction::Cosine);
    v.push(k("select_distance_fn(Cosine)", Kind::Cos, simd_dispatch, move |a, b| f(a, b)));
    let f = dist::select_distance_fn(DistanceFunction::InnerProduct);
    v.push(k("select_distance_fn(InnerProduct)", Kind::NegDot, simd_dispatch, move |a, b| f(a, b)));
    let f = dist::select_squared_distance_fn(DistanceFunction::L2);
    v.push(k("select_squared_distance_fn(L2)", Kind::L2Sq, simd_dispatch, move |a, b| f(a, b)));
    let f = dist::select_squared_distance_fn(DistanceFunction::Cosine);
    v.push(k("select_squared_distance_fn(Cosine)", Kind::Cos, simd_dispatch, move |a, b| f(a, b)));
    let f = dist::select_squared_distance_fn(DistanceFunction::InnerProduct);
    v.push(k("select_squared_distance_fn(InnerProduct)", Kind::NegDot, simd_dispatch, move |a, b| f(a, b)));
    v.push(k("euclidean_squared", Kind::L2Sq, simd_dispatch, dist::euclidean_squared));
    v
}

/// exact-enough reference: everything in f64 (inputs are f32, so products are exact in f64 and the
/// accumulated error is ~n*2^-53 relative to the sum of |terms|, i.e. 2^-29 of the f32 bound)
struct Reference {
    l2sq: f64,
    dot: f64,
    dot_abs: f64,
    na: f64,
    nb: f64,
}

fn reference(a: &[f32], b: &[f32]) -> Reference {
    let mut r = Reference { l2sq: 0.0, dot: 0.0, dot_abs: 0.0, na: 0.0, nb: 0.0 };
    for (x, y) in a.iter().zip(b.iter()) {
        let (x, y) = (*x as f64, *y as f64);
        let d = x - y;
        r.l2sq += d * d;
        r.dot += x * y;
        r.dot_abs += (x * y).abs();
        r.na += x * x;
        r.nb += y * y;
    }
    r
}

enum Expect {
    /// reference value and tolerance
    Within(f64, f64),
    /// cosine with an (exactly) zero vector: undocumented, no-panic only
    ZeroVector,
    /// an f32 intermediate may overflow / lose everything to underflow: no-panic only
    OutOfDomain,
}

fn expect(kind: Kind, r: &Reference, n: usize) -> Expect {
    let nn = n as f64;
    let abs = (nn + 2.0) * SUBNORMAL_STEP; // underflow of individual products
    match kind {
        Kind::L2Sq | Kind::L2 => {
            if !(r.l2sq <= F32_MAX / 4.0) {
                return Expect::OutOfDomain;
            }
            if kind == Kind::L2Sq {
                Expect::Within(r.l2sq, 4.0 * (nn + 2.0) * EPS * r.l2sq + abs)
            } else {
                let s = r.l2sq.sqrt();
                Expect::Within(s, 4.0 * (nn + 2.0) * EPS * s + abs.sqrt())
            }
        }
        Kind::Dot | Kind::NegDot => {
            if !(r.dot_abs <= F32_MAX / 4.0) {
                return Expect::OutOfDomain;
            }
            let v = if kind == Kind::Dot { r.dot } else { -r.dot };
            Expect::Within(v, 4.0 * (nn + 2.0) * EPS * r.dot_abs + abs)
        }
        Kind::Cos => {
            if r.na == 0.0 || r.nb == 0.0 {
                return Expect::ZeroVector;
            }
            let p = r.na * r.nb;
            let ok = |x: f64| x >= 1e-25 && x <= 1e36;
            if !(ok(r.na) && ok(r.nb) && p >= 1e-30 && p <= 1e36) {
                return Expect::OutOfDomain;
            }
            // |err(dot)| <= g_n*sum|a_i b_i| <= g_n*|a||b|; norms carry relative error g_(n+1) each,
            // so the quotient is off by <= (2n+6)u = (n+3)*EPS absolute; 4*(n+4)*EPS is > 4x that.
            Expect::Within(1.0 - r.dot / p.sqrt(), 4.0 * (nn + 4.0) * EPS)
        }
    }
}

const NCLASS: u64 = 13;
const CLASS_NAMES: [&str; 13] = [
    "zeros", "b_zero", "identical", "small_ints", "uniform", "large", "mixed_magnitude", "subnormal", "adjacent_floats", "one_huge", "cancelling_dot",
    "all_negative", "tiny_normals",
];

fn uni(rng: &mut Rng, lo: f64, hi: f64) -> f32 {
    (lo + (hi - lo) * rng.f64()) as f32
}
fn mag(rng: &mut Rng, e_lo: f64, e_hi: f64) -> f32 {
    let e = e_lo + (e_hi - e_lo) * rng.f64();
    let s = if rng.chance(1, 2) { -1.0 } else { 1.0 };
    (s * 10f64.powf(e)) as f32
}
fn subn(rng: &mut Rng) -> f32 {
    let bits = rng.below(0x0080_0000) as u32 | if rng.chance(1, 2) { 0x8000_0000 } else { 0 };
    f32::from_bits(bits)
}

fn gen_pair(rng: &mut Rng, n: usize, class: u64) -> (Vec<f32>, Vec<f32>) {
    let mut a = vec![0f32; n];
    let mut b = vec![0f32; n];
    match class {
        0 => {}
        1 => {
            for x in a.iter_mut() {
                *x = uni(rng, -10.0, 10.0);
            }
        }
        2 => {
            for i in 0..n {
                a[i] = mag(rng, -6.0, 6.0);
                b[i] = a[i];
            }
        }
        3 => {
            for i in 0..n {
                a[i] = rng.range(-8, 8) as f32;
                b[i] = rng.range(-8, 8) as f32;
            }
        }
        4 => {
            for i in 0..n {
                a[i] = uni(rng, -1.0, 1.0);
                b[i] = uni(rng, -1.0, 1.0);
            }
        }
        5 => {
            for i in 0..n {
                a[i] = mag(rng, 15.0, 17.0);
                b[i] = mag(rng, 15.0, 17.0);
            }
        }
        6 => {
            for i in 0..n {
                a[i] = mag(rng, -12.0, 12.0);
                b[i] = mag(rng, -12.0, 12.0);
            }
        }
        7 => {
            let bz = rng.chance(1, 3);
            for i in 0..n {
                a[i] = subn(rng);
                b[i] = if bz { 0.0 } else { subn(rng) };
            }
        }
        8 => {
            for i in 0..n {
                a[i] = uni(rng, -1000.0, 1000.0);
                let bits = a[i].to_bits();
                b[i] = match rng.below(3) {
                    0 => a[i],
                    1 => f32::from_bits(bits.wrapping_add(1)),
                    _ => f32::from_bits(bits.wrapping_sub(1)),
                };
                if !b[i].is_finite() {
                    b[i] = a[i];
                }
            }
        }
        9 => {
            for i in 0..n {
                a[i] = uni(rng, -1e-3, 1e-3);
                b[i] = uni(rng, -1e-3, 1e-3);
            }
            if n > 0 {
                let i = rng.usize(0, n - 1);
                a[i] = mag(rng, 16.0, 17.0);
                if rng.chance(1, 2) {
                    let j = rng.usize(0, n - 1);
                    b[j] = mag(rng, 16.0, 17.0);
                }
            }
        }
        10 => {
            for i in 0..n {
                a[i] = uni(rng, 1.0, 2.0);
                b[i] = if i % 2 == 0 { a[i] } else { -a[i] };
            }
        }
        11 => {
            for i in 0..n {
                a[i] = uni(rng, -100.0, -1.0);
                b[i] = uni(rng, -100.0, -1.0);
            }
        }
        _ => {
            for i in 0..n {
                a[i] = mag(rng, -30.0, -20.0);
                b[i] = mag(rng, -30.0, -20.0);
            }
        }
    }
    (a, b)
}

fn bits_hash(tag: u64, a: &[f32], b: &[f32]) -> u64 {
    let mut bytes = Vec::with_capacity(8 + 4 * (a.len() + b.len()));
    bytes.extend_from_slice(&tag.to_le_bytes());
    for x in a.iter().chain(b.iter()) {
        bytes.extend_from_slice(&x.to_bits().to_le_bytes());
    }
    fnv(&bytes)
}

fn kernel_lengths() -> Vec<usize> {
    let mut v: Vec<usize> = (0..=70).collect();
    v.extend(127..=130);
    v.extend(255..=257);
    v
}

fn run_kernels(ctx: &mut Ctx, rng: &mut Rng) {
    let miri = cfg!(miri);
    let ks = kernels();
    ctx.extra.insert("kernels_checked".into(), json!(ks.iter().map(|k| k.name).collect::<Vec<_>>()));
    ctx.extra.insert("cpu_avx2_fma".into(), json!(cpu_avx2_fma()));
    let reps = if miri { 1 } else if ctx.quick() { 12 } else { 600 };
    let lengths = kernel_lengths();
    let any_vectorised = ks.iter().any(|k| k.vectorised);
    let mut worst: HashMap<&'static str, f64> = HashMap::new(); // max |got-ref|/tol per kernel
    let mut sampled = 0;
    for &n in &lengths {
        for class in 0..NCLASS {
            if miri && !(class == (n as u64) % NCLASS || class == (n as u64 * 7 + 3) % NCLASS) {
                continue;
            }
            for rep in 0..reps {
                let (a0, b0) = gen_pair(rng, n, class);
                // place the data at a random offset in a larger buffer: the vector loads must not
                // depend on alignment
                let (oa, ob) = (rng.usize(0, 7), rng.usize(0, 7));
                let mut bufa = vec![f32::NAN; n + 16];
                let mut bufb = vec![f32::NAN; n + 16];
                bufa[oa..oa + n].copy_from_slice(&a0);
                bufb[ob..ob + n].copy_from_slice(&b0);
                let a = &bufa[oa..oa + n];
                let b = &bufb[ob..ob + n];
                let r = reference(a, b);
                let h = bits_hash(class, a, b);
                let mut pair_exercised = false;
                for kern in &ks {
                    ctx.eval();
                    let got = match catch(|| (kern.f)(a, b)) {
                        Ok(g) => g,
                        Err(p) => {
                            viol(
                ctx,
                "kernel_no_panic",
                                &format!("C24/kernel_no_panic/{}/{}", kern.name, panic_cause(&p)),
                                json!({"kernel": kern.name, "n": n, "class": CLASS_NAMES[class as usize], "panic": p, "a": a, "b": b}),
                            );
                            continue;
                        }
                    };
                    match expect(kern.kind, &r, n) {
                        Expect::Within(want, tol) => {
                            let err = (got as f64 - want).abs();
                            if !(err <= tol) {
                                viol(
                ctx,
                "kernel_within_rounding",
                                    &format!("C24/kernel_within_rounding/{}", kern.name),
                                    json!({"kernel": kern.name, "n": n, "class": CLASS_NAMES[class as usize], "got": format!("{:e}", got), "reference_f64": format!("{:e}", want),
                                           "abs_err": format!("{:e}", err), "tolerance": format!("{:e}", tol), "a": fmt_vec(a), "b": fmt_vec(b), "offsets": [oa, ob]}),
                                );
                            } else {
                                let ratio = if tol > 0.0 { err / tol } else { 0.0 };
                                let w = worst.entry(kern.name).or_insert(0.0);
                                if ratio > *w {
                                    *w = ratio;
                                }
                                // the vector loop runs only for n >= 8 (avx2) / 4 (neon); where no SIMD kernel
                                // exists on this CPU (e.g. Miri default) the scalar kernels are the mechanism
                                if (kern.vectorised || !any_vectorised) && n >= 8 {
                                    pair_exercised = true;
                                }
                            }
                            ctx.count("kernel_compared", 1);
                        }
                        Expect::ZeroVector => {
                            ctx.count("kernel_cosine_zero_vector_nopanic_only", 1);
                            if got == 1.0 {
                                ctx.count("kernel_cosine_zero_vector_returned_1.0", 1);
                            }
                        }
                        Expect::OutOfDomain => ctx.count("kernel_out_of_f32_domain_nopanic_only", 1),
                    }
                }
                if pair_exercised {
                    ctx.nontrivial(h);
                }
                if rep == 0 && class == 4 && (n == 13 || n == 64) && sampled < 2 {
                    sampled += 1;
                    let outs: Vec<Value> = ks.iter().map(|kk| json!({"kernel": kk.name, "got": (kk.f)(a, b)})).collect();
                    ctx.sample(json!({"level": "kernel", "n": n, "class": CLASS_NAMES[class as usize], "a": fmt_vec(a), "b": fmt_vec(b),
                        "reference": {"l2sq": r.l2sq, "dot": r.dot, "cos": 1.0 - r.dot / (r.na * r.nb).sqrt()}, "outputs": outs}));
                }
            }
        }
    }
    let mut w: Vec<(String, f64)> = worst.into_iter().map(|(k, v)| (k.to_string(), (v * 1e4).round() / 1e4)).collect();
    w.sort_by(|a, b| a.0.cmp(&b.0));
    ctx.extra.insert("kernel_worst_error_over_tolerance".into(), json!(w));
    oracle_selftest(ctx, rng);
}

/// The tolerance must not be vacuous: deliberately wrong kernels (own code, not turdb) have to be
/// rejected by `expect` on ordinary inputs. A mutant that is never rejected makes the run inconclusive.
fn oracle_selftest(ctx: &mut Ctx, rng: &mut Rng) {
    let mutants: Vec<(&str, Kind, Box<dyn Fn(&[f32], &[f32]) -> f32>)> = vec![
        (
            "l2sq_drops_tail_after_last_full_8_block",
            Kind::L2Sq,
            Box::new(|a, b| {
                let m = a.len() / 8 * 8;
                dist::euclidean_squared_scalar(&a[..m], &b[..m])
            }),
        ),
        (
            "dot_counts_first_element_twice",
            Kind::Dot,
            Box::new(|a, b| dist::dot_product_scalar(a, b) + if a.is_empty() { 0.0 } else { a[0] * b[0] }),
        ),
        ("l2sq_off_by_one_part_in_1000", Kind::L2Sq, Box::new(|a, b| dist::euclidean_squared_scalar(a, b) * 1.001)),
        ("l2_without_sqrt", Kind::L2, Box::new(|a, b| dist::euclidean_squared_scalar(a, b))),
        ("cosine_similarity_instead_of_distance", Kind::Cos, Box::new(|a, b| 1.0 - dist::cosine_scalar(a, b))),
        (
            "cosine_norm_of_a_misses_last_element",
            Kind::Cos,
            Box::new(|a, b| {
                let n = a.len();
                let dot = dist::dot_product_scalar(a, b);
                let na = if n > 0 { dist::dot_product_scalar(&a[..n - 1], &a[..n - 1]) } else { 0.0 };
                let nb = dist::dot_product_scalar(b, b);
                1.0 - dot / (na * nb).sqrt()
            }),
        ),
    ];
    let mut report = vec![];
    for (name, kind, f) in &mutants {
        let (mut tried, mut rejected) = (0u64, 0u64);
        for n in [3usize, 9, 13, 31, 70, 129, 257] {
            for _ in 0..(if cfg!(miri) { 1 } else { 6 }) {
                let (a, b) = gen_pair(rng, n, 4);
                let r = reference(&a, &b);
                if let Expect::Within(want, tol) = expect(*kind, &r, n) {
                    tried += 1;
                    if !((f(&a, &b) as f64 - want).abs() <= tol) {
                        rejected += 1;
                    }
                }
            }
        }
        if rejected == 0 {
            ctx.inconclusive(&format!("oracle self-test: wrong kernel '{}' was accepted on all {} inputs", name, tried));
        }
        report.push(json!({"mutant": name, "inputs": tried, "rejected": rejected}));
    }
    ctx.extra.insert("oracle_selftest_wrong_kernels".into(), json!(report));
}

fn fmt_vec(v: &[f32]) -> Vec<String> {
    v.iter().map(|x| format!("{:e}", x)).collect()
}

// ---------------------------------------------------------------------------------------------
// (b) SQL
// ---------------------------------------------------------------------------------------------

#[derive(Clone, Copy, PartialEq, Debug)]
enum Metric {
    L2,
    Cos,
}
impl Metric {
    fn op(self) -> &'static str {
        match self {
            Metric::L2 => "<->",
            Metric::Cos => "<=>",
        }
    }
    fn name(self) -> &'static str {
        match self {
            Metric::L2 => "l2",
            Metric::Cos => "cosine",
        }
    }
}

const STYLE_NAMES: [&str; 7] = ["int_grid", "uniform", "clustered_duplicates", "large", "mixed_magnitude", "all_negative", "huge_f32_overflow"];
const STYLE_HUGE: u64 = 6;

fn gen_component(rng: &mut Rng, style: u64, metric: Metric) -> f32 {
    match style {
        0 => rng.range(-3, 3) as f32,
        1 | 2 => uni(rng, -1.0, 1.0),
        3 => match metric {
            Metric::L2 => mag(rng, 10.0, 15.0),
            Metric::Cos => mag(rng, 5.0, 7.4),
        },
        4 => match metric {
            Metric::L2 => mag(rng, -6.0, 6.0),
            Metric::Cos => mag(rng, -3.0, 3.0),
        },
        5 => uni(rng, -50.0, -0.5),
        _ => match metric {
            // squares overflow f32 but the exact distance is a finite f64 (informational class)
            Metric::L2 => mag(rng, 20.0, 30.0),
            Metric::Cos => mag(rng, 12.0, 18.0),
        },
    }
}

fn gen_vector(rng: &mut Rng, d: usize, style: u64, metric: Metric) -> Vec<f32> {
    (0..d).map(|_| gen_component(rng, style, metric)).collect()
}

struct Table {
    name: String,
    d: usize,
    style: u64,
    metric: Metric,
    hnsw: Option<&'static str>, // None | "index_before_insert" | "index_after_insert"
    rows: Vec<(i64, Vec<f32>)>, // insertion order
}

fn gen_table(rng: &mut Rng, idx: usize, metric: Metric, hnsw: Option<&'static str>, maxdim: usize, maxrows: usize) -> Table {
    // every dimension 1..=maxdim once, in a scattered order (37 is coprime to 70) so that a run cut short by
    // the time budget still spans the whole range
    let d = if idx < maxdim { (idx * 37) % maxdim + 1 } else { rng.usize(1, maxdim) };
    let nrows = rng.usize(1, maxrows);
    let style = if rng.chance(1, 12) { STYLE_HUGE } else { rng.below(6) };
    let mut vecs: Vec<Vec<f32>> = Vec::with_capacity(nrows);
    let centers: Vec<Vec<f32>> = (0..3).map(|_| gen_vector(rng, d, style, metric)).collect();
    for _ in 0..nrows {
        let v = if style == 2 {
            let mut c = rng.pick(&centers).clone();
            if rng.chance(1, 2) {
                let i = rng.usize(0, d - 1);
                c[i] += uni(rng, -0.01, 0.01);
            }
            c
        } else if !vecs.is_empty() && rng.chance(1, 6) {
            rng.pick(&vecs).clone() // exact duplicate -> tie
        } else if rng.chance(1, 15) {
            vec![0.0; d]
        } else if !vecs.is_empty() && rng.chance(1, 10) {
            // a permutation / sign flip of an existing vector: often an exact tie w.r.t. symmetric queries
            let mut c = rng.pick(&vecs).clone();
            if rng.chance(1, 2) {
                rng.shuffle(&mut c);
            } else {
                for x in c.iter_mut() {
                    *x = -*x;
                }
            }
            c
        } else {
            gen_vector(rng, d, style, metric)
        };
        vecs.push(v);
    }
    let mut ids: Vec<i64> = Vec::new();
    let mut seen = HashSet::new();
    while ids.len() < nrows {
        let id = rng.range(1, 5000);
        if seen.insert(id) {
            ids.push(id);
        }
    }
    Table { name: format!("t{}", idx), d, style, metric, hnsw, rows: ids.into_iter().zip(vecs).collect() }
}

fn gen_query(rng: &mut Rng, t: &Table) -> Vec<f32> {
    match rng.below(10) {
        0 | 1 => rng.pick(&t.rows).1.clone(),
        2 => match t.metric {
            Metric::L2 => vec![0.0; t.d],
            Metric::Cos => {
                if rng.chance(1, 4) {
                    vec![0.0; t.d]
                } else {
                    vec![1.0; t.d]
                }
            }
        },
        3 => vec![if t.style == 0 { 0.5 } else { 0.0 }; t.d], // symmetric query: many exact ties on the int grid
        _ => gen_vector(rng, t.d, t.style, t.metric),
    }
}

fn lit(v: &[f32]) -> String {
    let mut s = String::from("[");
    for (i, x) in v.iter().enumerate() {
        if i > 0 {
            s.push(',');
        }
        s.push_str(&format!("{}", x));
    }
    s.push(']');
    s
}

/// exact distance (f64 over the f32 components); None where SQL yields NULL / is undefined (cosine with a zero vector)
fn exact(metric: Metric, a: &[f32], q: &[f32]) -> Option<f64> {
    let r = reference(a, q);
    match metric {
        Metric::L2 => Some(r.l2sq.sqrt()),
        Metric::Cos => {
            if r.na == 0.0 || r.nb == 0.0 {
                None
            } else {
                Some(1.0 - r.dot / (r.na.sqrt() * r.nb.sqrt()))
            }
        }
    }
}

/// rounding slack when comparing two exact distances x, y that an f32 implementation may have
/// computed with the usual (d+2)*eps forward error each
fn slack(metric: Metric, d: usize, x: f64, y: f64) -> f64 {
    match metric {
        Metric::L2 => 4.0 * (d as f64 + 2.0) * EPS * x.abs().max(y.abs()) + 1e-30,
        Metric::Cos => 4.0 * (d as f64 + 4.0) * EPS,
    }
}

struct SqlEnv {
    root: String,
    db: Option<Database>,
    db_no: usize,
    tables_in_db: usize,
}

impl SqlEnv {
    fn db(&mut self) -> Result<&Database, String> {
        if self.db.is_none() || self.tables_in_db >= 40 {
            self.db = None;
            if self.db_no > 0 {
                let _ = std::fs::remove_dir_all(format!("{}/db{}", self.root, self.db_no - 1));
            }
            let path = format!("{}/db{}", self.root, self.db_no);
            self.db_no += 1;
            self.tables_in_db = 0;
            let db = catch(|| Database::create(&path)).map_err(|p| format!("panic {}", p))?.map_err(|e| format!("{}", first_line(&e)))?;
            self.db = Some(db);
        }
        Ok(self.db.as_ref().unwrap())
    }
    fn poison(&mut self) {
        // after a panic inside turdb do not trust this handle any more
        if let Some(db) = self.db.take() {
            let _ = catch(move || drop(db));
        }
    }
}

fn first_line(e: &eyre::Report) -> String {
    let mut s = String::new();
    for (i, c) in e.chain().enumerate() {
        if i > 0 {
            s.push_str(": ");
        }
        s.push_str(&c.to_string());
    }
    s
}

fn exec(db: &Database, sql: &str) -> Result<turdb::ExecuteResult, String> {
    match catch(|| db.execute(sql)) {
        Ok(Ok(r)) => Ok(r),
        Ok(Err(e)) => Err(first_line(&e)),
        Err(p) => Err(format!("PANIC {}", p)),
    }
}

fn fam(t: &Table) -> &'static str {
    if t.hnsw.is_some() {
        "sql_hnsw"
    } else {
        "sql"
    }
}

/// build the table; returns false if the case cannot be run (setup failure is reported)
fn setup_table(ctx: &mut Ctx, env: &mut SqlEnv, t: &Table) -> bool {
    let f = fam(t);
    let db = match env.db() {
        Ok(d) => d,
        Err(e) => {
            viol(ctx, "setup", &format!("C24/{}/setup/database_create", f), json!({"err": e}));
            return false;
        }
    };
    let mut stmts: Vec<String> = vec![format!("CREATE TABLE {} (id BIGINT PRIMARY KEY, v VECTOR({}))", t.name, t.d)];
    let create_index = format!("CREATE INDEX ix_{} ON {} USING HNSW (v)", t.name, t.name);
    if t.hnsw == Some("index_before_insert") {
        stmts.push(create_index.clone());
    }
    for (id, v) in &t.rows {
        stmts.push(format!("INSERT INTO {} (id, v) VALUES ({}, '{}')", t.name, id, lit(v)));
    }
    if t.hnsw == Some("index_after_insert") {
        stmts.push(create_index);
    }
    let mut failed: Option<(String, String)> = None;
    for s in &stmts {
        if let Err(e) = exec(db, s) {
            failed = Some((s.clone(), e));
            break;
        }
    }
    env.tables_in_db += 1;
    if let Some((s, e)) = failed {
        let kind = if s.starts_with("CREATE INDEX") {
            "create_hnsw_index"
        } else if s.starts_with("CREATE TABLE") {
            "create_table"
        } else {
            "insert"
        };
        let panicked = e.starts_with("PANIC");
        let sig = if panicked {
            format!("C24/{}/setup/{}/panic/{}", f, kind, panic_cause(&e))
        } else {
            format!("C24/{}/setup/{}/error/{}", f, kind, if t.style == STYLE_HUGE { "huge" } else { "regular" })
        };
        viol(ctx, "setup", &sig, json!({"statement": truncate(&s, 600), "err": truncate(&e, 600), "d": t.d, "rows": t.rows.len(), "style": STYLE_NAMES[t.style as usize], "hnsw": t.hnsw}));
        if panicked {
            env.poison();
        }
        return false;
    }
    true
}

fn truncate(s: &str, n: usize) -> String {
    if s.len() <= n {
        s.to_string()
    } else {
        let mut e = n;
        while !s.is_char_boundary(e) {
            e -= 1;
        }
        format!("{}...", &s[..e])
    }
}

struct QuerySpec {
    q: Vec<f32>,
    limit: Option<usize>,
    cols: u64, // 0: id; 1: id, v; 2: id, v <op> q
}

fn table_json(t: &Table) -> Value {
    json!({"table": t.name, "d": t.d, "style": STYLE_NAMES[t.style as usize], "metric": t.metric.name(), "hnsw": t.hnsw,
           "rows_in_insert_order": t.rows.iter().map(|(id, v)| json!({"id": id, "v": lit(v)})).collect::<Vec<_>>()})
}

/// run one query and evaluate all sub-assertions; returns true if turdb panicked
fn check_query(ctx: &mut Ctx, env: &mut SqlEnv, t: &Table, qs: &QuerySpec) -> bool {
    let f = fam(t);
    let m = t.metric;
    let lk = if qs.limit.is_some() { "limit" } else { "nolimit" };
    let qlit = lit(&qs.q);
    let cols = match qs.cols {
        0 => "id".to_string(),
        1 => "id, v".to_string(),
        _ => format!("id, v {} '{}'", m.op(), qlit),
    };
    let sql = format!(
        "SELECT {} FROM {} ORDER BY v {} '{}'{}",
        cols,
        t.name,
        m.op(),
        qlit,
        match qs.limit {
            Some(k) => format!(" LIMIT {}", k),
            None => String::new(),
        }
    );
    let db = match env.db.as_ref() {
        Some(d) => d,
        None => return true,
    };
    ctx.eval();
    let huge = t.style == STYLE_HUGE;
    let rows = match catch(|| db.query(&sql)) {
        Ok(Ok(r)) => r,
        Ok(Err(e)) => {
            viol(
                ctx,
                "query_ok",
                &format!("C24/{}/query_ok/{}/{}/error{}", f, m.name(), lk, if huge { "/huge" } else { "" }),
                json!({"sql": truncate(&sql, 1500), "err": truncate(&first_line(&e), 500), "case": table_json(t)}),
            );
            return false;
        }
        Err(p) => {
            viol(
                ctx,
                "query_ok",
                &format!(
                    "C24/{}/query_ok/{}/{}/panic/{}/{}",
                    f,
                    m.name(),
                    lk,
                    panic_cause(&p),
                    if t.rows.iter().any(|(_, v)| exact(m, v, &qs.q).is_none()) { "with_null_keys" } else { "no_null_keys" }
                ),
                json!({"sql": truncate(&sql, 1500), "panic": p, "rows_with_undefined_cosine_distance": t.rows.iter().filter(|(_, v)| exact(m, v, &qs.q).is_none()).count(), "case": table_json(t)}),
            );
            env.poison();
            return true;
        }
    };
    let model: HashMap<i64, &Vec<f32>> = t.rows.iter().map(|(id, v)| (*id, v)).collect();
    let n = t.rows.len();
    let detail = |extra: Value, got: &[(i64, Option<f64>)]| -> Value {
        let mut all: Vec<(i64, Option<f64>)> = t.rows.iter().map(|(id, v)| (*id, exact(m, v, &qs.q))).collect();
        all.sort_by(|a, b| a.1.partial_cmp(&b.1).unwrap_or(std::cmp::Ordering::Equal));
        json!({"sql": truncate(&sql, 3000), "what": extra,
               "returned_ids_with_exact_distance": got.iter().map(|(id, d)| json!([id, d])).collect::<Vec<_>>(),
               "all_ids_sorted_by_exact_distance": all.iter().map(|(id, d)| json!([id, d])).collect::<Vec<_>>(),
               "case": table_json(t)})
    };

    // --- row_identity: ids known and distinct
    let mut got: Vec<(i64, Option<f64>)> = Vec::with_capacity(rows.len());
    let mut seen = HashSet::new();
    let mut identity_ok = true;
    for r in &rows {
        let id = match r.values.first() {
            Some(OwnedValue::Int(i)) => *i,
            other => {
                viol(ctx, "row_identity", &format!("C24/{}/row_identity/{}/{}/id_not_int", f, m.name(), lk), detail(json!({"value": format!("{:?}", other)}), &got));
                identity_ok = false;
                break;
            }
        };
        match model.get(&id) {
            Some(v) if seen.insert(id) => got.push((id, exact(m, v, &qs.q))),
            Some(_) => {
                viol(ctx, "row_identity", &format!("C24/{}/row_identity/{}/{}/duplicate_row", f, m.name(), lk), detail(json!({"id": id}), &got));
                identity_ok = false;
                break;
            }
            None => {
                viol(ctx, "row_identity", &format!("C24/{}/row_identity/{}/{}/unknown_row", f, m.name(), lk), detail(json!({"id": id}), &got));
                identity_ok = false;
                break;
            }
        }
    }
    if !identity_ok {
        return false;
    }

    // --- row_count
    let want_rows = qs.limit.map(|k| k.min(n)).unwrap_or(n);
    if rows.len() != want_rows {
        viol(
                ctx,
                "row_count",
            &format!("C24/{}/row_count/{}/{}/{}", f, m.name(), lk, if rows.len() < want_rows { "too_few" } else { "too_many" }),
            detail(json!({"returned": rows.len(), "expected": want_rows, "table_rows": n, "limit": qs.limit}), &got),
        );
    }

    // --- vector_roundtrip / distance_value on the extra column
    for (r, (id, ex)) in rows.iter().zip(got.iter()) {
        match qs.cols {
            1 => {
                let want = model[id];
                let ok = matches!(r.values.get(1), Some(OwnedValue::Vector(v)) if v.len() == want.len() && v.iter().zip(want.iter()).all(|(x, y)| x.to_bits() == y.to_bits() || (*x == 0.0 && *y == 0.0)));
                if !ok {
                    viol(
                ctx,
                "vector_roundtrip",
                        &format!("C24/{}/vector_roundtrip/{}", f, if huge { "huge" } else { "regular" }),
                        detail(json!({"id": id, "stored": lit(want), "returned": format!("{:?}", r.values.get(1))}), &got),
                    );
                    break;
                }
            }
            2 => {
                if huge {
                    continue;
                }
                match (r.values.get(1), ex) {
                    (Some(OwnedValue::Float(x)), Some(e)) => {
                        let tol = slack(m, t.d, *e, *e);
                        if !((x - e).abs() <= tol) {
                            viol(
                ctx,
                "distance_value",
                                &format!("C24/{}/distance_value/{}/{}/outside_rounding_bound", f, m.name(), lk),
                                detail(json!({"id": id, "returned": x, "exact": e, "tolerance": tol}), &got),
                            );
                            break;
                        }
                    }
                    (Some(OwnedValue::Null), None) => {}
                    (_, None) => {} // cosine with a zero vector: undocumented, anything goes
                    (other, Some(e)) => {
                        viol(
                ctx,
                "distance_value",
                            &format!("C24/{}/distance_value/{}/{}/{}", f, m.name(), lk, if other.is_none() { "select_list_expression_column_missing" } else { "not_a_float" }),
                            detail(json!({"id": id, "returned": format!("{:?}", other), "exact": e, "columns": r.values.len()}), &got),
                        );
                        break;
                    }
                }
            }
            _ => {}
        }
    }

    let nulls_in_table = t.rows.iter().filter(|(_, v)| exact(m, v, &qs.q).is_none()).count();
    if nulls_in_table > 0 {
        ctx.count(&format!("{}_queries_with_undefined_cosine_rows", f), 1);
    }
    if huge {
        // informational only: f32 squares overflow; behaviour undocumented. Count, never report.
        let ds: Vec<f64> = got.iter().filter_map(|x| x.1).collect();
        let mis = nulls_in_table == 0 && ds.windows(2).any(|w| w[0] > w[1] + slack(m, t.d, w[0], w[1]));
        ctx.count(&format!("{}_huge_queries", f), 1);
        if mis {
            if !ctx.extra.contains_key("huge_misordered_example_informational") {
                ctx.extra.insert("huge_misordered_example_informational".into(), json!({"detail": detail(json!("f32 squares overflow for these components; informational, not a violation"), &got)}));
            }
            ctx.count(&format!("{}_huge_queries_misordered_informational", f), 1);
        }
        return false;
    }

    // --- non_decreasing (over rows with a defined distance; position of NULL keys is undocumented)
    let ds: Vec<(i64, f64)> = got.iter().filter_map(|(id, d)| d.map(|d| (*id, d))).collect();
    let mut maxd = f64::NEG_INFINITY;
    let mut maxid = 0i64;
    let mut distinct_d = 0;
    let mut ordered = true;
    for (i, (id, d)) in ds.iter().enumerate() {
        if i > 0 && maxd > *d + slack(m, t.d, maxd, *d) {
            viol(
                ctx,
                "non_decreasing",
                &format!("C24/{}/non_decreasing/{}/{}/{}", f, m.name(), lk, if got.iter().any(|g| g.1.is_none()) { "result_has_null_keys" } else { "no_null_keys" }),
                detail(json!({"position": i, "id": id, "exact_distance": d, "earlier_id": maxid, "earlier_exact_distance": maxd, "slack": slack(m, t.d, maxd, *d)}), &got),
            );
            ordered = false;
            break;
        }
        if *d > maxd {
            if i > 0 && *d > maxd + slack(m, t.d, maxd, *d) {
                distinct_d += 1;
            }
            maxd = *d;
            maxid = *id;
        }
    }

    // --- k_smallest: sorted returned distances vs the k smallest exact distances, rank by rank
    let mut ksm = true;
    if let Some(kq) = qs.limit {
        if nulls_in_table == 0 && rows.len() == want_rows {
            let mut all: Vec<f64> = t.rows.iter().filter_map(|(_, v)| exact(m, v, &qs.q)).collect();
            all.sort_by(|a, b| a.partial_cmp(b).unwrap());
            let mut r: Vec<(f64, i64)> = ds.iter().map(|(id, d)| (*d, *id)).collect();
            r.sort_by(|a, b| a.0.partial_cmp(&b.0).unwrap());
            for j in 0..r.len() {
                if r[j].0 > all[j] + slack(m, t.d, r[j].0, all[j]) {
                    viol(
                ctx,
                "k_smallest",
                        &format!("C24/{}/k_smallest/{}", f, m.name()),
                        detail(json!({"k": kq, "rank": j, "returned_id": r[j].1, "returned_exact_distance": r[j].0, "rank_th_smallest_exact_distance": all[j], "slack": slack(m, t.d, r[j].0, all[j])}), &got),
                    );
                    ksm = false;
                    break;
                }
            }
            ctx.count(&format!("{}_k_smallest_checked", f), 1);
        } else if nulls_in_table > 0 {
            ctx.count(&format!("{}_k_smallest_skipped_undefined_cosine", f), 1);
        }
    }
    if ordered && ksm && (distinct_d >= 1 || (qs.limit.is_some() && want_rows < n)) {
        // the sort / top-k really had to order or select something
        let mut bytes = Vec::new();
        bytes.extend_from_slice(f.as_bytes());
        bytes.extend_from_slice(m.name().as_bytes());
        bytes.extend_from_slice(&(qs.limit.map(|k| k as u64 + 1).unwrap_or(0)).to_le_bytes());
        for (id, v) in &t.rows {
            bytes.extend_from_slice(&id.to_le_bytes());
            for x in v {
                bytes.extend_from_slice(&x.to_bits().to_le_bytes());
            }
        }
        for x in &qs.q {
            bytes.extend_from_slice(&x.to_bits().to_le_bytes());
        }
        ctx.nontrivial(fnv(&bytes));
    }
    ctx.count(&format!("{}_queries_{}_{}", f, m.name(), lk), 1);
    false
}

fn run_sql(ctx: &mut Ctx, rng: &mut Rng, budget_s: f64) {
    let quick = ctx.quick();
    let root = format!("/verif/scratch/c24-{}", std::process::id());
    let _ = std::fs::remove_dir_all(&root);
    if let Err(e) = std::fs::create_dir_all(&root) {
        ctx.inconclusive(&format!("cannot create scratch dir {}: {}", root, e));
        return;
    }
    let mut env = SqlEnv { root: root.clone(), db: None, db_no: 0, tables_in_db: 0 };
    let ntables = if quick { 280 } else { 4000 };
    let nqueries = if quick { 6 } else { 10 };
    let t0 = ctx.elapsed();
    let mut explains: Vec<Value> = vec![];
    let mut tables_done = 0u64;
    let mut sampled = [false; 2];
    for idx in 0..ntables {
        if ctx.elapsed() - t0 > budget_s {
            ctx.count("sql_stopped_by_time_budget", 1);
            break;
        }
        let metric = if rng.chance(1, 2) { Metric::L2 } else { Metric::Cos };
        let hnsw = match idx % 4 {
            0 | 1 => None,
            2 => Some("index_before_insert"),
            _ => Some("index_after_insert"),
        };
        // dimension sweep 1..=70 first (idx/4 so both families see every dimension), then random
        let mut t = gen_table(rng, idx / 4, metric, hnsw, 70, 60);
        t.name = format!("t{}", idx);
        if !setup_table(ctx, &mut env, &t) {
            continue;
        }
        tables_done += 1;
        ctx.count(&format!("{}_tables", fam(&t)), 1);
        for qi in 0..nqueries {
            let q = gen_query(rng, &t);
            let n = t.rows.len();
            let limit = match qi % 3 {
                0 => None,
                1 => Some(rng.usize(1, n.max(1))),
                _ => {
                    let r = rng.usize(1, 10);
                    Some(*rng.pick(&[1usize, 2, n.saturating_sub(1).max(1), n, n + 3, r]))
                }
            };
            let qs = QuerySpec { q, limit, cols: rng.below(3) };
            // record the plan for the first tables of each family
            if qi < 2 && explains.len() < 8 && (idx < 4 || (idx >= 280 && idx < 284)) {
                if let Some(db) = env.db.as_ref() {
                    let sql = format!(
                        "EXPLAIN VERBOSE SELECT id FROM {} ORDER BY v {} '{}'{}",
                        t.name,
                        t.metric.op(),
                        lit(&qs.q),
                        qs.limit.map(|k| format!(" LIMIT {}", k)).unwrap_or_default()
                    );
                    let plan = match exec(db, &sql) {
                        Ok(turdb::ExecuteResult::Explain { plan }) => plan,
                        Ok(_) => "(not an Explain result)".to_string(),
                        Err(e) => format!("EXPLAIN failed: {}", truncate(&e, 300)),
                    };
                    let lower = plan.to_lowercase();
                    let plan_part = lower.split("table info").next().unwrap_or("").to_string();
                    if t.hnsw.is_some() {
                        ctx.count("sql_hnsw_explained", 1);
                        if plan_part.contains("hnsw") || plan_part.contains("indexscan") || plan_part.contains("index scan") {
                            ctx.count("sql_hnsw_explained_plan_uses_index", 1);
                        }
                    }
                    explains.push(json!({"family": fam(&t), "hnsw": t.hnsw, "sql": truncate(&sql, 200), "plan": plan}));
                }
            }
            let panicked = check_query(ctx, &mut env, &t, &qs);
            if panicked {
                break;
            }
            let si = if t.hnsw.is_some() { 1 } else { 0 };
            if !sampled[si] && qi == 1 && idx >= 8 && t.rows.len() <= 6 && t.d <= 6 {
                sampled[si] = true;
                ctx.sample(json!({"level": fam(&t), "limit": qs.limit, "q": lit(&qs.q), "case": table_json(&t)}));
            }
        }
        // dropping keeps the directory small; failure to drop is not this property's business
        if let Some(db) = env.db.as_ref() {
            let _ = exec(db, &format!("DROP TABLE {}", t.name));
        }
    }
    ctx.count("sql_tables_total", tables_done);
    ctx.extra.insert("explain_samples".into(), json!(explains));
    env.db = None;
    let _ = std::fs::remove_dir_all(&root);
}

/// `tv C24 sqlprobe "<stmt>" ...`: run statements on a fresh scratch database and print the results
/// (used to minimise reproductions); `tv C24 --replay <violation.json>` rebuilds the table of a
/// recorded SQL violation and re-runs its query.
fn sql_probe(stmts: &[String]) -> i32 {
    let root = format!("/verif/scratch/c24-{}", std::process::id());
    let _ = std::fs::remove_dir_all(&root);
    let _ = std::fs::create_dir_all("/verif/scratch");
    let db = match Database::create(&root) {
        Ok(d) => d,
        Err(e) => {
            println!("create failed: {}", first_line(&e));
            return 2;
        }
    };
    for s in stmts {
        println!("-- {}", truncate(s, 400));
        let up = s.trim_start().to_uppercase();
        if up.starts_with("SELECT") {
            match catch(|| db.query(s)) {
                Ok(Ok(rows)) => {
                    for r in rows {
                        println!("   {:?}", r.values);
                    }
                }
                Ok(Err(e)) => println!("   ERR {}", first_line(&e)),
                Err(p) => println!("   PANIC {}", p),
            }
        } else {
            match exec(&db, s) {
                Ok(turdb::ExecuteResult::Explain { plan }) => println!("{}", plan),
                Ok(_) => println!("   ok"),
                Err(e) => println!("   ERR {}", e),
            }
        }
    }
    drop(db);
    let _ = std::fs::remove_dir_all(&root);
    0
}

fn replay(path: &str) -> i32 {
    let txt = match std::fs::read_to_string(path) {
        Ok(t) => t,
        Err(e) => {
            println!("cannot read {}: {}", path, e);
            return 2;
        }
    };
    let v: Value = match serde_json::from_str(&txt) {
        Ok(v) => v,
        Err(e) => {
            println!("bad json: {}", e);
            return 2;
        }
    };
    let case = &v["detail"]["case"];
    let (table, d) = match (case["table"].as_str(), case["d"].as_u64()) {
        (Some(t), Some(d)) => (t.to_string(), d),
        _ => {
            println!("replay file has no SQL case (kernel violations carry their inputs in detail.a / detail.b)");
            return 2;
        }
    };
    let mut stmts = vec![format!("CREATE TABLE {} (id BIGINT PRIMARY KEY, v VECTOR({}))", table, d)];
    let ix = format!("CREATE INDEX ix_{} ON {} USING HNSW (v)", table, table);
    if case["hnsw"].as_str() == Some("index_before_insert") {
        stmts.push(ix.clone());
    }
    for r in case["rows_in_insert_order"].as_array().cloned().unwrap_or_default() {
        stmts.push(format!("INSERT INTO {} (id, v) VALUES ({}, '{}')", table, r["id"], r["v"].as_str().unwrap_or("")));
    }
    if case["hnsw"].as_str() == Some("index_after_insert") {
        stmts.push(ix);
    }
    stmts.push(v["detail"]["sql"].as_str().unwrap_or("").trim_end_matches("...").to_string());
    println!("replaying {} ({})", path, v["sig"].as_str().unwrap_or(""));
    sql_probe(&stmts)
}

pub fn run(a: &Args) -> i32 {
    let miri = cfg!(miri);
    if !miri {
        if a.rest.first().map(|s| s.as_str()) == Some("sqlprobe") {
            return sql_probe(&a.rest[1..]);
        }
        if let Some(p) = &a.replay {
            return replay(p);
        }
    }
    let mut ctx = Ctx::new(
        "C24",
        &a.tier,
        a.seed,
        "exploration",
        "kernel level: every pub kernel of hnsw::distance (scalar, AVX2 when avx2+fma detected, dispatchers, euclidean_squared) on vector pairs of every length 0..=70,127..=130,255..=257 x 13 input classes (zeros, one zero, identical, small ints, uniform, large 1e15..1e17, mixed magnitude, subnormals, adjacent floats, one huge component, cancelling dot, all negative, tiny normals), at random slice alignments, compared with an f64 reference within 4*(n+2)*eps_f32*sum|terms| (+ underflow term); cosine with a zero vector and f32-overflowing inputs: no-panic only. A kernel case = (pair, kernel). SQL level: VECTOR(d) tables d=1..70 (swept), 1..60 rows, 7 value styles incl. zero vectors, exact duplicates, permuted/sign-flipped copies; ORDER BY v <-> q / v <=> q with no LIMIT / LIMIT k (k from 1 to n+3), three projections; families sql (no index) and sql_hnsw (HNSW index created before or after the inserts). A SQL case = one query. distinct_nontrivial = distinct vector pairs of length >= 8 (so the 8-lane loop ran) on which a SIMD kernel/dispatcher was compared within tolerance + SQL queries (hash of table, query, limit) in which at least two distinct exact distances had to be ordered or LIMIT had to cut rows",
    );
    let mut rng = Rng::derive(a.seed, 24);
    run_kernels(&mut ctx, &mut rng);
    if !miri {
        let budget = if ctx.quick() { 36.0 } else { 400.0 };
        run_sql(&mut ctx, &mut rng, budget);
    } else {
        ctx.assumptions.push("under Miri only the kernel level runs (no files/mmap)".into());
    }
    ctx.assumptions.push("cosine distance with an exactly zero vector is undocumented (kernels return 1.0, SQL yields NULL): only no-panic/row_count are checked, the position of such rows in the ordering is not constrained, and k_smallest is skipped for queries whose table contains such a row".into());
    ctx.assumptions.push("inputs whose f32 intermediates overflow (sum of squares > f32::MAX/4; cosine norms outside [1e-25,1e36]) are exercised for no-panic only; SQL style huge_f32_overflow is counted as information, never reported".into());
    ctx.assumptions.push("ordering slack: two rows may appear in either order if their exact distances differ by less than 4*(d+2)*eps_f32*max(dist) (L2) or 4*(d+4)*eps_f32 (cosine), i.e. what a correct sort over f32-computed keys can produce".into());
    let counts = SIG_COUNTS.with(|m| m.borrow().clone());
    ctx.extra.insert("violation_signature_counts".into(), json!(counts));
    ctx.assumptions.push("'regardless of CPU': native runs call scalar kernels, AVX2 kernels and the AVX2 dispatch; Miri default runs the scalar dispatch; Miri with +avx2,+fma runs the AVX2 kernels under the interpreter".into());
    ctx.finish()
}

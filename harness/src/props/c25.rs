//! C25: not implemented yet.
use crate::Args;

pub fn run(_a: &Args) -> i32 {
    println!("INCONCLUSIVE property=C25 reason=check not implemented yet");
    2
}

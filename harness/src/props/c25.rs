//! C25: HNSW search returns live, correctly ranked neighbours.
//!
//! Real `PersistentHnswIndex` files are driven through the public API with generated op histories
//! (insert / delete_by_row_id / vacuum_batch / sync+reopen / search); the oracle is a brute-force
//! map row_id -> vector of the live rows. The SQ8 codec is checked separately (also under Miri).
use crate::report::{catch, Ctx};
use crate::rng::{fnv, Rng};
use crate::Args;
use serde_json::{json, Value};
use std::collections::{BTreeMap, BTreeSet, HashMap, HashSet};
use std::path::{Path, PathBuf};
use turdb::hnsw::quantization::{SQ8Vector, SQ8VectorRef};
use turdb::hnsw::search::HnswSearchContext;
use turdb::hnsw::{DistanceFunction, NodeId, PersistentHnswIndex, QuantizationType, SearchResult};

// ------------------------------------------------------------------------------------------------
// history representation
// ------------------------------------------------------------------------------------------------

#[derive(Clone, Debug)]
pub struct Probe {
    q: Vec<f32>,
    k: usize,
    ef: usize,
}

#[derive(Clone, Debug)]
pub enum Op {
    Insert { row: u64, v: Vec<f32>, rnd: f64 },
    Delete { row: u64 },
    Vacuum { max: usize },
    Reopen { probes: Vec<Probe> },
    Search(Probe),
}

#[derive(Clone, Debug)]
pub struct Params {
    dim: usize,
    m: u16,
    efc: u16,
    efs: u16,
    /// 0 = L2, 1 = Cosine, 2 = InnerProduct
    dist: u8,
    /// 0 = None, 1 = SQ8 (only recorded in the header; the index stores no vectors)
    quant: u8,
    /// true: insert_with_callback with the table lookup; false: plain insert (what the DML path calls)
    callback: bool,
}

pub struct Viol {
    assertion: &'static str,
    sig: String,
    detail: Value,
    op_index: usize,
}

#[derive(Default)]
pub struct Outcome {
    viols: Vec<Viol>,
    searches: u64,
    searches_with_live: u64,
    searches_after_delete: u64,
    searches_entry_deleted: u64,
    complete_checked: u64,
    complete_checked_within_capacity: u64,
    reopens: u64,
    reopen_probes: u64,
    inserts_ok: u64,
    inserts_err: u64,
    deletes: u64,
    vacuums: u64,
    vacuumed_nodes: u64,
    skipped_ops: u64,
    truncated_by_insert_error: bool,
    max_level_seen: u8,
    max_nodes: usize,
    multi_page: bool,
    layout_overflowed: bool,
    layout_model_mismatch: bool,
}

fn fmt_f(v: &[f32]) -> Value {
    json!(v.iter().map(|x| *x as f64).collect::<Vec<f64>>())
}

fn op_json(op: &Op) -> Value {
    match op {
        Op::Insert { row, v, rnd } => json!({"insert": row, "v": fmt_f(v), "rnd": rnd}),
        Op::Delete { row } => json!({"delete_by_row_id": row}),
        Op::Vacuum { max } => json!({"vacuum_batch": max}),
        Op::Reopen { probes } => json!({"sync_reopen_probes": probes.iter().map(|p| json!({"q": fmt_f(&p.q), "k": p.k, "ef": p.ef})).collect::<Vec<_>>()}),
        Op::Search(p) => json!({"search": fmt_f(&p.q), "k": p.k, "ef": p.ef}),
    }
}

fn params_json(p: &Params) -> Value {
    let d = ["L2", "Cosine", "InnerProduct"][p.dist as usize];
    let q = ["None", "SQ8"][p.quant as usize];
    let api = if p.callback { "insert_with_callback(table lookup)" } else { "insert" };
    json!({"dim": p.dim, "m": p.m, "ef_construction": p.efc, "ef_search_header": p.efs, "distance_fn": d, "quantization": q, "insert_api": api})
}

fn hist_json(p: &Params, ops: &[Op]) -> Value {
    json!({"params": params_json(p), "ops": ops.iter().map(op_json).collect::<Vec<_>>()})
}

fn parse_f(v: &Value) -> Vec<f32> {
    v.as_array().map(|a| a.iter().map(|x| x.as_f64().unwrap_or(0.0) as f32).collect()).unwrap_or_default()
}

fn parse_probe(o: &Value, qkey: &str) -> Probe {
    Probe { q: parse_f(&o[qkey]), k: o["k"].as_u64().unwrap_or(1) as usize, ef: o["ef"].as_u64().unwrap_or(1) as usize }
}

/// inverse of `hist_json` (for --replay)
fn parse_history(h: &Value) -> Option<(Params, Vec<Op>)> {
    let pj = h.get("params")?;
    let p = Params {
        dim: pj["dim"].as_u64()? as usize,
        m: pj["m"].as_u64()? as u16,
        efc: pj["ef_construction"].as_u64()? as u16,
        efs: pj["ef_search_header"].as_u64()? as u16,
        dist: match pj["distance_fn"].as_str()? {
            "Cosine" => 1,
            "InnerProduct" => 2,
            _ => 0,
        },
        quant: (pj["quantization"].as_str()? == "SQ8") as u8,
        callback: pj["insert_api"].as_str()?.starts_with("insert_with_callback"),
    };
    let mut ops = vec![];
    for o in h.get("ops")?.as_array()? {
        if let Some(r) = o.get("insert") {
            ops.push(Op::Insert { row: r.as_u64()?, v: parse_f(&o["v"]), rnd: o["rnd"].as_f64()? });
        } else if let Some(r) = o.get("delete_by_row_id") {
            ops.push(Op::Delete { row: r.as_u64()? });
        } else if let Some(m) = o.get("vacuum_batch") {
            ops.push(Op::Vacuum { max: m.as_u64()? as usize });
        } else if let Some(ps) = o.get("sync_reopen_probes") {
            ops.push(Op::Reopen { probes: ps.as_array()?.iter().map(|x| parse_probe(x, "q")).collect() });
        } else if o.get("search").is_some() {
            ops.push(Op::Search(parse_probe(o, "search")));
        }
    }
    Some((p, ops))
}

/// find the first embedded history object in a replay / witnesses file
fn find_history(v: &Value) -> Option<&Value> {
    match v {
        Value::Object(m) => {
            if m.contains_key("params") && m.contains_key("ops") {
                return Some(v);
            }
            for k in ["history", "history_up_to_fatal_op", "minimised_witness", "detail"] {
                if let Some(x) = m.get(k).and_then(find_history) {
                    return Some(x);
                }
            }
            m.values().find_map(find_history)
        }
        Value::Array(a) => a.iter().find_map(find_history),
        _ => None,
    }
}

fn hist_hash(p: &Params, ops: &[Op]) -> u64 {
    let mut b: Vec<u8> = vec![p.dim as u8, p.m as u8, p.efc as u8, p.dist, p.quant, p.callback as u8];
    for op in ops {
        match op {
            Op::Insert { row, v, rnd } => {
                b.push(1);
                b.extend_from_slice(&row.to_le_bytes());
                for x in v {
                    b.extend_from_slice(&x.to_bits().to_le_bytes());
                }
                b.extend_from_slice(&rnd.to_bits().to_le_bytes());
            }
            Op::Delete { row } => {
                b.push(2);
                b.extend_from_slice(&row.to_le_bytes());
            }
            Op::Vacuum { max } => {
                b.push(3);
                b.extend_from_slice(&(*max as u64).to_le_bytes());
            }
            Op::Reopen { probes } => {
                b.push(4);
                b.push(probes.len() as u8);
            }
            Op::Search(pr) => {
                b.push(5);
                for x in &pr.q {
                    b.extend_from_slice(&x.to_bits().to_le_bytes());
                }
                b.extend_from_slice(&(pr.k as u32).to_le_bytes());
                b.extend_from_slice(&(pr.ef as u32).to_le_bytes());
            }
        }
    }
    fnv(&b)
}

// ------------------------------------------------------------------------------------------------
// exact distances (independent definitions, f64)
// ------------------------------------------------------------------------------------------------

fn l2sq(a: &[f32], b: &[f32]) -> f64 {
    a.iter().zip(b).map(|(x, y)| (*x as f64 - *y as f64) * (*x as f64 - *y as f64)).sum()
}

fn dot(a: &[f32], b: &[f32]) -> f64 {
    a.iter().zip(b).map(|(x, y)| *x as f64 * *y as f64).sum()
}

/// the distance the index was configured with (module doc: L2, 1 - cos, -dot)
fn metric(dist: u8, a: &[f32], b: &[f32]) -> f64 {
    match dist {
        0 => l2sq(a, b),
        1 => {
            let n = (dot(a, a) * dot(b, b)).sqrt();
            if n == 0.0 {
                1.0
            } else {
                1.0 - dot(a, b) / n
            }
        }
        _ => -dot(a, b),
    }
}

/// rounding allowance for an f32 evaluation of a sum of `dim` squares (any association, FMA or not)
/// rounding bound for an f32 evaluation of the configured metric on (q, v): relative to the magnitude of
/// the summed terms (not of the result, which can be small by cancellation)
fn metric_tol(dist: u8, q: &[f32], v: &[f32]) -> f64 {
    let dim = q.len().min(v.len());
    let mag: f64 = q.iter().zip(v).map(|(a, b)| (*a as f64 * *b as f64).abs()).sum();
    let eps = f32::EPSILON as f64;
    if dist == 2 {
        8.0 * (dim as f64 + 4.0) * eps * mag + 1e-30
    } else {
        let nq: f64 = q.iter().map(|a| (*a as f64) * (*a as f64)).sum::<f64>().sqrt();
        let nv: f64 = v.iter().map(|a| (*a as f64) * (*a as f64)).sum::<f64>().sqrt();
        let rel = if nq > 0.0 && nv > 0.0 { mag / (nq * nv) } else { 1.0 };
        16.0 * (dim as f64 + 4.0) * eps * (rel + 1.0) + 1e-6
    }
}

fn l2_tol(dim: usize, d: f64) -> f64 {
    4.0 * (dim as f64 + 4.0) * (f32::EPSILON as f64) * d + 1e-37
}

// ------------------------------------------------------------------------------------------------
// executor
// ------------------------------------------------------------------------------------------------

struct NodeRec {
    id: NodeId,
    row: u64,
    deleted: bool,
}

fn nkey(n: NodeId) -> u64 {
    ((n.page_no() as u64) << 16) | n.slot_index() as u64
}

fn res_json(rs: &[SearchResult]) -> Value {
    json!(rs
        .iter()
        .map(|r| json!({"row_id": r.row_id, "distance": if r.distance.is_finite() { json!(r.distance) } else { json!(format!("{}", r.distance)) }, "node": [r.node_id.page_no(), r.node_id.slot_index()]}))
        .collect::<Vec<_>>())
}

fn dist_fn(d: u8) -> DistanceFunction {
    match d {
        1 => DistanceFunction::Cosine,
        2 => DistanceFunction::InnerProduct,
        _ => DistanceFunction::L2,
    }
}

struct Exec<'a> {
    p: &'a Params,
    path: &'a Path,
    idx: Option<PersistentHnswIndex>,
    live: BTreeMap<u64, Vec<f32>>,
    ever_deleted_rows: BTreeSet<u64>,
    nodes: Vec<NodeRec>,
    node_by_key: HashMap<u64, usize>,
    any_delete: bool,
    out: Outcome,
    cur_op: usize,
    /// slot sizes per node page, in allocation order (the page layout is a function of these)
    pages: HashMap<u32, Vec<usize>>,
    /// set once a node page holds more data than its 13-bit slot offsets can address
    layout_overflow: Option<Value>,
    layout_model_off: bool,
    predicted: Option<(u32, u16)>,
}

/// A slot directory entry keeps the data offset in 13 bits (storage.rs SlotEntry::encode) while the
/// page is 16384 bytes. Returns a description of the first stored extent that lands on the slot
/// directory/header or on another node, computed from the allocation sizes alone.
fn page_overflow(sizes: &[usize]) -> Option<Value> {
    const PAGE: usize = 16384;
    let n = sizes.len();
    let dir_end = 64 + 4 * n;
    let mut ext: Vec<(usize, usize)> = vec![];
    let mut cum = 0usize;
    for s in sizes {
        cum += s;
        if cum > PAGE {
            return None;
        }
        let t = PAGE - cum;
        let st = t & 0x1FFF;
        ext.push((st, st + s));
    }
    for (j, e) in ext.iter().enumerate() {
        if e.0 < dir_end {
            return Some(json!({"slot": j, "true_offset": PAGE - sizes[..=j].iter().sum::<usize>(), "stored_offset": e.0, "overlaps": "page header / slot directory", "slots_in_page": n}));
        }
        for (i, f) in ext.iter().enumerate().take(j) {
            if e.0 < f.1 && f.0 < e.1 {
                return Some(json!({"slot": j, "true_offset": PAGE - sizes[..=j].iter().sum::<usize>(), "stored_offset": e.0, "overlaps": format!("node data of slot {}", i), "slots_in_page": n}));
            }
        }
    }
    None
}

/// does `SlotEntry` lose the high bit of an offset in the upper half of the page?
fn slot_offset_truncates() -> bool {
    use turdb::hnsw::storage::{SlotEntry, SlotStatus};
    let e = SlotEntry::new(12_000, 202, SlotStatus::Active);
    let d = SlotEntry::decode(&e.encode());
    d.offset != 12_000
}

pub const OVERFLOW_CAUSE: &str = "node_page_slot_offset_truncated_to_13_bits";

impl<'a> Exec<'a> {
    fn viol(&mut self, assertion: &'static str, sig: String, detail: Value) {
        let op_index = self.cur_op;
        let (sig, detail) = match &self.layout_overflow {
            // everything observed on an index whose node pages overwrite themselves has this one cause
            Some(l) => (format!("C25/{}/{}", assertion, OVERFLOW_CAUSE), json!({"page_layout": l, "would_be_sig": sig, "observed": detail})),
            None => (sig, detail),
        };
        self.out.viols.push(Viol { assertion, sig, detail, op_index });
    }

    /// Where `allocate_node` will put the next node (mod.rs:883-904, storage.rs can_fit): the current
    /// (= last) page if its free space holds size + slot + 64 reserve, else a fresh page. The model is
    /// updated BEFORE the insert runs so that a failure inside that very insert is attributed too.
    fn predict_allocation(&mut self, rnd: f64) {
        const PAGE: usize = 16384;
        let level = turdb::hnsw::operations::select_level(rnd, turdb::hnsw::operations::calculate_ml(self.p.m));
        let size = turdb::hnsw::HnswNode::max_serialized_size(level);
        let last = self.pages.keys().max().copied().unwrap_or(0);
        let fits = match self.pages.get(&last) {
            Some(v) => {
                let cum: usize = v.iter().sum();
                let free = (PAGE - cum).saturating_sub(64 + 4 * v.len());
                free >= size + 4 + 64
            }
            None => false,
        };
        let page = if fits { last } else { last + 1 };
        let v = self.pages.entry(page).or_default();
        v.push(size);
        self.predicted = Some((page, (v.len() - 1) as u16));
        if std::env::var("C25_DEBUG").is_ok() {
            eprintln!("alloc level={} size={} page={} slot={} cum={}", level, size, page, v.len() - 1, v.iter().sum::<usize>());
        }
        if self.layout_overflow.is_none() && !self.layout_model_off {
            if let Some(mut l) = page_overflow(v) {
                l["page"] = json!(page);
                l["nodes_allocated_in_index_before"] = json!(self.nodes.len());
                self.layout_overflow = Some(l);
                self.out.layout_overflowed = true;
            }
        }
    }

    fn confirm_allocation(&mut self, nid: NodeId) {
        if self.layout_overflow.is_none() && self.predicted != Some((nid.page_no(), nid.slot_index())) {
            // allocation not as modelled on an undamaged page: make no layout claim in this history
            // (after an established overflow the page header itself is overwritten, so deviations
            // from the model are a consequence, not a refutation)
            self.layout_model_off = true;
            self.out.layout_model_mismatch = true;
        }
    }

    fn entry_deleted(&self) -> bool {
        let idx = self.idx.as_ref().unwrap();
        match idx.index().entry_point() {
            Some(ep) => self.node_by_key.get(&nkey(ep)).map(|i| self.nodes[*i].deleted).unwrap_or(false),
            None => false,
        }
    }

    fn deleted_node_count(&self) -> usize {
        self.nodes.iter().filter(|n| n.deleted).count()
    }

    /// link capacity below which every insert can link bidirectionally to everything it finds
    fn within_capacity(&self) -> bool {
        let cap = (self.p.m as usize * 2).min(turdb::hnsw::MAX_L0_NEIGHBORS);
        self.nodes.len() <= cap + 1 && self.nodes.len() <= self.p.efc as usize
    }

    fn raw_search(&self, pr: &Probe) -> Result<Result<Vec<SearchResult>, String>, String> {
        let idx = self.idx.as_ref().unwrap();
        let live = &self.live;
        catch(|| {
            let mut sctx = HnswSearchContext::new(pr.ef, 1024);
            idx.search(&pr.q, pr.k, &mut sctx, |rid| live.get(&rid).cloned()).map_err(|e| format!("{:#}", e))
        })
    }

    /// level-0 reachability of `target` from `start` through nodes that `read_node` can read, the
    /// number of readable nodes linking to it, how many of its own neighbours have a full list, and
    /// whether any readable node has a full level-0 list at all
    fn reach_info(&self, target: NodeId, start: Option<NodeId>) -> (bool, usize, usize, bool) {
        let idx = self.idx.as_ref().unwrap();
        let mut inbound = 0usize;
        let mut any_full = false;
        for n in &self.nodes {
            if let Ok(node) = idx.read_node(n.id) {
                if node.neighbors_at_level(0).iter().any(|x| *x == target) {
                    inbound += 1;
                }
                if node.level0_neighbor_count() as usize >= turdb::hnsw::MAX_L0_NEIGHBORS {
                    any_full = true;
                }
            }
        }
        let mut out_full = 0usize;
        if let Ok(t) = idx.read_node(target) {
            for nb in t.neighbors_at_level(0) {
                if let Ok(n) = idx.read_node(*nb) {
                    if n.level0_neighbor_count() as usize >= turdb::hnsw::MAX_L0_NEIGHBORS {
                        out_full += 1;
                    }
                }
            }
        }
        let mut reachable = false;
        if let Some(ep) = start.or(idx.index().entry_point()) {
            let mut seen: HashSet<u64> = HashSet::new();
            let mut stack = vec![ep];
            seen.insert(nkey(ep));
            while let Some(c) = stack.pop() {
                if c == target {
                    reachable = true;
                    break;
                }
                if let Ok(node) = idx.read_node(c) {
                    for nb in node.neighbors_at_level(0) {
                        if seen.insert(nkey(*nb)) {
                            stack.push(*nb);
                        }
                    }
                }
            }
        }
        (reachable, inbound, out_full, any_full)
    }

    fn check_search(&mut self, pr: &Probe) {
        self.out.searches += 1;
        if std::env::var("C25_DEBUG").is_ok() {
            let idx = self.idx.as_ref().unwrap();
            eprintln!("graph before search: entry={:?} max_level={}", idx.index().entry_point().map(|e| (e.page_no(), e.slot_index())), idx.index().max_level());
            for n in &self.nodes {
                match idx.read_node(n.id) {
                    Ok(node) => eprintln!(
                        "  node ({},{}) row={} deleted={} level={} l0={:?}",
                        n.id.page_no(), n.id.slot_index(), node.row_id(), n.deleted, node.max_level(),
                        node.neighbors_at_level(0).iter().map(|x| (x.page_no(), x.slot_index())).collect::<Vec<_>>()
                    ),
                    Err(e) => eprintln!("  node ({},{}) row={} deleted={} unreadable: {}", n.id.page_no(), n.id.slot_index(), n.row, n.deleted, e),
                }
            }
        }
        let entry_deleted = self.entry_deleted();
        if !self.live.is_empty() {
            self.out.searches_with_live += 1;
        }
        if self.any_delete {
            self.out.searches_after_delete += 1;
        }
        if entry_deleted {
            self.out.searches_entry_deleted += 1;
        }
        let ctxj = json!({"k": pr.k, "ef_search": pr.ef, "query": fmt_f(&pr.q), "live_rows": self.live.len(), "nodes_allocated": self.nodes.len(),
                          "soft_deleted_nodes": self.deleted_node_count(), "entry_point_deleted": entry_deleted});
        let rs = match self.raw_search(pr) {
            Err(p) => {
                let site = crate::report::panic_site(&p);
                self.viol("no_panic", format!("C25/no_panic/search@{}", site), json!({"panic": p, "search": ctxj}));
                return;
            }
            Ok(Err(e)) => {
                self.viol("search_ok", "C25/search_ok/search_returned_err".to_string(), json!({"err": e, "search": ctxj}));
                return;
            }
            Ok(Ok(rs)) => rs,
        };
        let resj = res_json(&rs);
        // at_most_k
        if rs.len() > pr.k {
            self.viol("at_most_k", "C25/at_most_k/more_than_k_results".into(), json!({"search": ctxj, "results": resj}));
        }
        // distinct
        let mut seen = HashSet::new();
        let mut dup_live = false;
        let mut dup_placeholder = false;
        for r in &rs {
            if !seen.insert(r.row_id) {
                let node_deleted = self.node_by_key.get(&nkey(r.node_id)).map(|i| self.nodes[*i].deleted).unwrap_or(false);
                if r.row_id == 0 && node_deleted {
                    dup_placeholder = true;
                } else {
                    dup_live = true;
                }
            }
        }
        if dup_live {
            self.viol("distinct", "C25/distinct/duplicate_row_id".into(), json!({"search": ctxj, "results": resj}));
        } else if dup_placeholder {
            self.viol("distinct", "C25/distinct/row_id_0_placeholder_repeated_for_soft_deleted_nodes".into(), json!({"search": ctxj, "results": resj}));
        }
        // live_only
        let mut bad_placeholder = 0;
        let mut bad_deleted = 0;
        let mut bad_other = 0;
        for r in &rs {
            if !self.live.contains_key(&r.row_id) {
                let node_deleted = self.node_by_key.get(&nkey(r.node_id)).map(|i| self.nodes[*i].deleted).unwrap_or(false);
                if r.row_id == 0 && node_deleted {
                    bad_placeholder += 1;
                } else if self.ever_deleted_rows.contains(&r.row_id) {
                    bad_deleted += 1;
                } else {
                    bad_other += 1;
                }
            }
        }
        if bad_placeholder > 0 {
            self.viol(
                "live_only",
                "C25/live_only/row_id_0_placeholder_for_soft_deleted_node".into(),
                json!({"search": ctxj, "results": resj, "note": "a soft-deleted node is returned as a result with row_id 0 and distance inf"}),
            );
        }
        if bad_deleted > 0 {
            self.viol("live_only", "C25/live_only/deleted_row_id_returned".into(), json!({"search": ctxj, "results": resj}));
        }
        if bad_other > 0 {
            self.viol("live_only", "C25/live_only/unknown_row_id_returned".into(), json!({"search": ctxj, "results": resj}));
        }
        // ranked_by_true_distance (over the live entries, in returned order)
        let live_rs: Vec<&SearchResult> = rs.iter().filter(|r| self.live.contains_key(&r.row_id)).collect();
        let dim = self.p.dim;
        let exact_l2: Vec<f64> = live_rs.iter().map(|r| l2sq(&pr.q, &self.live[&r.row_id])).collect();
        let exact_m: Vec<f64> = live_rs.iter().map(|r| metric(self.p.dist, &pr.q, &self.live[&r.row_id])).collect();
        let tol_m: Vec<f64> = live_rs.iter().map(|r| metric_tol(self.p.dist, &pr.q, &self.live[&r.row_id])).collect();
        let ordered = |ds: &[f64], l2like: bool| -> bool {
            ds.windows(2).enumerate().all(|(i, w)| {
                let tol = if l2like { l2_tol(dim, w[0].max(w[1])) } else { (tol_m[i] + tol_m[i + 1]).max(1e-5 * (1.0 + w[0].abs().max(w[1].abs()))) };
                w[0] <= w[1] + tol
            })
        };
        let l2_ok = ordered(&exact_l2, true);
        let dist_ok = live_rs.iter().zip(&exact_l2).all(|(r, d)| ((r.distance as f64) - d).abs() <= l2_tol(dim, *d));
        if self.p.dist == 0 {
            if !l2_ok {
                self.viol("ranked_by_true_distance", "C25/ranked_by_true_distance/order_not_nondecreasing_l2".into(), json!({"search": ctxj, "results": resj, "exact_l2_squared": exact_l2}));
            } else if !dist_ok {
                self.viol("ranked_by_true_distance", "C25/ranked_by_true_distance/returned_distance_not_exact_l2_squared".into(), json!({"search": ctxj, "results": resj, "exact_l2_squared": exact_l2}));
            }
        } else {
            let name = ["L2", "Cosine", "InnerProduct"][self.p.dist as usize];
            let m_ok = ordered(&exact_m, false);
            let mdist_ok = live_rs.iter().zip(&exact_m).zip(&tol_m).all(|((r, d), t)| ((r.distance as f64) - d).abs() <= t.max(1e-4 * (1.0 + d.abs())));
            if !m_ok || !mdist_ok {
                if l2_ok && dist_ok {
                    self.viol(
                        "ranked_by_true_distance",
                        format!("C25/ranked_by_true_distance/distance_fn_{}_ignored_search_uses_l2_squared", name),
                        json!({"search": ctxj, "results": resj, "exact_metric": exact_m, "exact_l2_squared": exact_l2, "order_under_metric_ok": m_ok, "distances_equal_metric": mdist_ok}),
                    );
                } else {
                    self.viol("ranked_by_true_distance", format!("C25/ranked_by_true_distance/order_or_distance_wrong_{}", name), json!({"search": ctxj, "results": resj, "exact_metric": exact_m}));
                }
            }
        }
        // nonempty_if_live_exists
        if !self.live.is_empty() && pr.k >= 1 && pr.ef >= 1 && live_rs.is_empty() {
            let cause = if entry_deleted {
                "after_entry_point_delete"
            } else if self.any_delete {
                "after_delete_entry_point_live"
            } else {
                "no_delete"
            };
            self.viol("nonempty_if_live_exists", format!("C25/nonempty_if_live_exists/{}", cause), json!({"search": ctxj, "results": resj}));
        }
        // complete_when_small
        if !self.live.is_empty() && self.live.len() <= pr.ef && pr.k >= self.live.len() {
            self.out.complete_checked += 1;
            let within = self.within_capacity();
            if within {
                self.out.complete_checked_within_capacity += 1;
            }
            let got: HashSet<u64> = live_rs.iter().map(|r| r.row_id).collect();
            let missing: Vec<u64> = self.live.keys().filter(|r| !got.contains(r)).cloned().collect();
            if !missing.is_empty() {
                let graph_covered = self.nodes.len() <= pr.ef;
                let mut cause;
                let mut info = json!(null);
                if entry_deleted {
                    cause = "after_entry_point_delete";
                } else {
                    // look at the first missing row; the level-0 beam certainly visited every node it
                    // returned, so reachability is judged from a returned live node (else the entry point)
                    let idx = self.idx.as_ref().unwrap();
                    let start = live_rs.first().map(|r| r.node_id);
                    if let Some(nid) = idx.find_node_by_row_id(missing[0]) {
                        let (reachable, inbound, out_full, any_full) = catch(|| self.reach_info(nid, start)).unwrap_or((false, 0, 0, false));
                        info = json!({"row": missing[0], "node": [nid.page_no(), nid.slot_index()], "reachable_at_level0_from_a_returned_node_via_readable_nodes": reachable,
                                      "inbound_level0_links_from_readable_nodes": inbound, "own_neighbours_with_full_lists": out_full, "some_level0_list_is_full": any_full});
                        cause = match (self.any_delete, reachable, any_full) {
                            (_, true, _) => "reachable_but_missed",
                            (true, false, false) => "soft_deleted_node_blocks_traversal",
                            (true, false, true) => "unreachable_after_delete_and_full_neighbor_lists",
                            (false, false, true) => "backlink_dropped_neighbor_list_full",
                            (false, false, false) => "unreachable_no_delete_no_full_list",
                        };
                    } else {
                        cause = "live_row_not_in_row_id_map";
                    }
                }
                if !self.any_delete && !graph_covered {
                    // live <= ef < nodes is impossible without deletes
                    cause = "unexplained";
                }
                let tier = if within { "within_link_capacity" } else { "beyond_link_capacity" };
                let explained = ["after_entry_point_delete", "soft_deleted_node_blocks_traversal", "backlink_dropped_neighbor_list_full", "unreachable_after_delete_and_full_neighbor_lists"];
                let sig = if explained.contains(&cause) { format!("C25/complete_when_small/{}", cause) } else { format!("C25/complete_when_small/{}/{}", cause, tier) };
                self.viol(
                    "complete_when_small",
                    sig,
                    json!({"search": ctxj, "results": resj, "missing_live_rows": missing.iter().take(20).collect::<Vec<_>>(), "missing_count": missing.len(),
                           "first_missing": info, "nodes_le_ef_search": graph_covered, "link_capacity": tier}),
                );
            }
        }
    }

    /// same results up to the order of ties: equal distance sequences, and equal (distance, id) sets
    /// among the entries strictly closer than the last one (a tie at the cut may resolve either way)
    fn same_results(x: &[SearchResult], y: &[SearchResult]) -> bool {
        let norm = |rs: &[SearchResult]| {
            let mut v: Vec<(u32, u64)> = rs.iter().map(|r| (r.distance.to_bits(), r.row_id)).collect();
            v.sort();
            v
        };
        let (a, b) = (norm(x), norm(y));
        if a.len() != b.len() || a.iter().zip(&b).any(|(p, q)| p.0 != q.0) {
            return false;
        }
        let last = a.last().map(|p| p.0);
        a.iter().filter(|p| Some(p.0) != last).eq(b.iter().filter(|p| Some(p.0) != last))
    }

    fn reopen(&mut self, probes: &[Probe]) {
        self.out.reopens += 1;
        let mut before = vec![];
        for pr in probes {
            before.push(self.raw_search(pr));
        }
        let (ep_b, ml_b, nc_b) = {
            let i = self.idx.as_ref().unwrap().index();
            (i.entry_point().map(|e| (e.page_no(), e.slot_index())), i.max_level(), i.node_count())
        };
        let r = {
            let idx = self.idx.as_mut().unwrap();
            catch(|| idx.sync().map_err(|e| format!("{:#}", e)))
        };
        match r {
            Ok(Ok(())) => {}
            Ok(Err(e)) => {
                self.viol("reopen_invariant", "C25/reopen_invariant/sync_failed".into(), json!({"err": e}));
                return;
            }
            Err(p) => {
                self.viol("no_panic", format!("C25/no_panic/sync@{}", crate::report::panic_site(&p)), json!({"panic": p}));
                return;
            }
        }
        self.idx = None; // drop the mapping before opening again
        let path = self.path.to_path_buf();
        match catch(|| PersistentHnswIndex::open(&path).map_err(|e| format!("{:#}", e))) {
            Ok(Ok(i)) => self.idx = Some(i),
            Ok(Err(e)) => {
                self.viol("reopen_invariant", "C25/reopen_invariant/open_failed".into(), json!({"err": e}));
                return;
            }
            Err(p) => {
                self.viol("no_panic", format!("C25/no_panic/open@{}", crate::report::panic_site(&p)), json!({"panic": p}));
                return;
            }
        }
        let (ep_a, ml_a, nc_a) = {
            let i = self.idx.as_ref().unwrap().index();
            (i.entry_point().map(|e| (e.page_no(), e.slot_index())), i.max_level(), i.node_count())
        };
        for (pr, b) in probes.iter().zip(before) {
            self.out.reopen_probes += 1;
            let a = self.raw_search(pr);
            let same = match (&b, &a) {
                (Ok(Ok(x)), Ok(Ok(y))) => Self::same_results(x, y),
                (Ok(Err(_)), Ok(Err(_))) => true,
                (Err(_), Err(_)) => true,
                _ => false,
            };
            if !same {
                let show = |r: &Result<Result<Vec<SearchResult>, String>, String>| match r {
                    Ok(Ok(x)) => res_json(x),
                    Ok(Err(e)) => json!({"err": e}),
                    Err(p) => json!({"panic": p}),
                };
                let cause = if ep_a != ep_b {
                    "entry_point_differs_after_reopen"
                } else if ml_a != ml_b {
                    "max_level_differs_after_reopen"
                } else {
                    "same_header_different_results"
                };
                self.viol(
                    "reopen_invariant",
                    format!("C25/reopen_invariant/{}", cause),
                    json!({"probe": {"q": fmt_f(&pr.q), "k": pr.k, "ef": pr.ef}, "before": show(&b), "after": show(&a),
                           "header_before": {"entry": ep_b, "max_level": ml_b, "node_count": nc_b}, "header_after": {"entry": ep_a, "max_level": ml_a, "node_count": nc_a}}),
                );
                break;
            }
        }
        // the row-id map is rebuilt from the pages: every live row must still be addressable
        let idx = self.idx.as_ref().unwrap();
        let lost: Vec<u64> = self.live.keys().filter(|r| idx.find_node_by_row_id(**r).is_none()).cloned().collect();
        if !lost.is_empty() {
            self.viol("reopen_invariant", "C25/reopen_invariant/live_row_missing_from_rebuilt_row_id_map".into(), json!({"rows": lost.iter().take(10).collect::<Vec<_>>()}));
        }
    }

    fn insert(&mut self, row: u64, v: &[f32], rnd: f64) -> bool {
        if self.live.contains_key(&row) || v.len() != self.p.dim {
            self.out.skipped_ops += 1;
            return true;
        }
        let entry_deleted_before = self.entry_deleted();
        let callback = self.p.callback;
        let r = {
            let idx = self.idx.as_mut().unwrap();
            let live = &self.live;
            catch(|| {
                if callback {
                    idx.insert_with_callback(row, v, rnd, |rid| live.get(&rid).cloned()).map_err(|e| format!("{:#}", e))
                } else {
                    idx.insert(row, v, rnd).map_err(|e| format!("{:#}", e))
                }
            })
        };
        match r {
            Ok(Ok(nid)) => {
                self.out.inserts_ok += 1;
                self.live.insert(row, v.to_vec());
                self.node_by_key.insert(nkey(nid), self.nodes.len());
                self.nodes.push(NodeRec { id: nid, row, deleted: false });
                self.confirm_allocation(nid);
                if nid.page_no() > 1 {
                    self.out.multi_page = true;
                }
                self.out.max_nodes = self.out.max_nodes.max(self.nodes.len());
                let ml = self.idx.as_ref().unwrap().index().max_level();
                self.out.max_level_seen = self.out.max_level_seen.max(ml);
                true
            }
            Ok(Err(e)) => {
                self.out.inserts_err += 1;
                let cause = if e.contains("slot is not active") {
                    if entry_deleted_before {
                        "after_entry_point_delete_entry_node_unreadable"
                    } else if self.any_delete {
                        "soft_deleted_node_selected_as_neighbor_unreadable"
                    } else {
                        "slot_not_active_without_delete"
                    }
                } else {
                    "other_error"
                };
                self.viol(
                    "insert_ok",
                    format!("C25/insert_ok/{}", cause),
                    json!({"row": row, "v": fmt_f(v), "rnd": rnd, "err": e, "live_rows": self.live.len(), "nodes_allocated": self.nodes.len(),
                           "soft_deleted_nodes": self.deleted_node_count(), "entry_point_deleted": entry_deleted_before}),
                );
                self.out.truncated_by_insert_error = true;
                false
            }
            Err(p) => {
                self.viol("no_panic", format!("C25/no_panic/insert@{}", crate::report::panic_site(&p)), json!({"panic": p, "row": row, "v": fmt_f(v), "rnd": rnd}));
                self.out.truncated_by_insert_error = true;
                false
            }
        }
    }

    fn delete(&mut self, row: u64) -> bool {
        let nid = self.idx.as_ref().unwrap().find_node_by_row_id(row);
        let r = {
            let idx = self.idx.as_mut().unwrap();
            catch(|| idx.delete_by_row_id(row).map_err(|e| format!("{:#}", e)))
        };
        match r {
            Ok(Ok(())) => {
                if self.live.remove(&row).is_some() {
                    self.out.deletes += 1;
                    self.any_delete = true;
                    self.ever_deleted_rows.insert(row);
                    if let Some(n) = nid {
                        if let Some(i) = self.node_by_key.get(&nkey(n)) {
                            self.nodes[*i].deleted = true;
                        }
                    }
                }
                true
            }
            Ok(Err(e)) => {
                self.viol("delete_ok", "C25/delete_ok/delete_by_row_id_err".into(), json!({"row": row, "err": e, "was_live": self.live.contains_key(&row)}));
                false
            }
            Err(p) => {
                self.viol("no_panic", format!("C25/no_panic/delete@{}", crate::report::panic_site(&p)), json!({"panic": p, "row": row}));
                false
            }
        }
    }

    fn vacuum(&mut self, max: usize) -> bool {
        let r = {
            let idx = self.idx.as_mut().unwrap();
            catch(|| idx.vacuum_batch(max).map_err(|e| format!("{:#}", e)))
        };
        match r {
            Ok(Ok(n)) => {
                self.out.vacuums += 1;
                self.out.vacuumed_nodes += n as u64;
                true
            }
            Ok(Err(e)) => {
                self.viol("vacuum_ok", "C25/vacuum_ok/vacuum_batch_err".into(), json!({"max": max, "err": e}));
                false
            }
            Err(p) => {
                self.viol("no_panic", format!("C25/no_panic/vacuum@{}", crate::report::panic_site(&p)), json!({"panic": p, "max": max}));
                false
            }
        }
    }
}

static TRACE: std::sync::atomic::AtomicBool = std::sync::atomic::AtomicBool::new(false);

/// run one history on a fresh index file; deterministic in (params, ops)
pub fn exec(p: &Params, ops: &[Op], path: &Path) -> Outcome {
    let _ = std::fs::remove_file(path);
    let quant = if p.quant == 1 { QuantizationType::SQ8 } else { QuantizationType::None };
    let created = catch(|| PersistentHnswIndex::create(path, 7, 9, p.dim as u16, p.m, p.efc, p.efs, dist_fn(p.dist), quant).map_err(|e| format!("{:#}", e)));
    let idx = match created {
        Ok(Ok(i)) => i,
        other => {
            let mut out = Outcome::default();
            let e = match other {
                Ok(Err(e)) => e,
                Err(p) => p,
                _ => String::new(),
            };
            out.viols.push(Viol { assertion: "create_ok", sig: "C25/create_ok/create_failed".into(), detail: json!({"err": e, "params": params_json(p)}), op_index: 0 });
            return out;
        }
    };
    let mut ex = Exec {
        p,
        path,
        idx: Some(idx),
        live: BTreeMap::new(),
        ever_deleted_rows: BTreeSet::new(),
        nodes: vec![],
        node_by_key: HashMap::new(),
        any_delete: false,
        out: Outcome::default(),
        cur_op: 0,
        pages: HashMap::new(),
        layout_overflow: None,
        // the overflow model is an emulation of one specific defect: switch it on only if the code
        // under test really truncates slot offsets (a repaired tree must not be excused by it)
        layout_model_off: !slot_offset_truncates(),
        predicted: None,
    };
    for (i, op) in ops.iter().enumerate() {
        ex.cur_op = i;
        if let Op::Insert { row, v, rnd } = op {
            if !ex.live.contains_key(row) && v.len() == p.dim {
                ex.predict_allocation(*rnd);
            }
        }
        if TRACE.load(std::sync::atomic::Ordering::Relaxed) {
            use std::io::Write;
            println!("O {} {} {}", i, ex.layout_overflow.is_some() as u8, ex.any_delete as u8);
            let _ = std::io::stdout().flush();
        }
        let go_on = match op {
            Op::Insert { row, v, rnd } => ex.insert(*row, v, *rnd),
            Op::Delete { row } => ex.delete(*row),
            Op::Vacuum { max } => ex.vacuum(*max),
            Op::Reopen { probes } => {
                ex.reopen(probes);
                ex.idx.is_some()
            }
            Op::Search(pr) => {
                if pr.q.len() == p.dim {
                    ex.check_search(pr);
                }
                true
            }
        };
        if !go_on {
            // state after a failed mutation is not defined by the statement: stop this history here
            break;
        }
    }
    ex.idx = None;
    let _ = std::fs::remove_file(path);
    ex.out
}

// ------------------------------------------------------------------------------------------------
// generation
// ------------------------------------------------------------------------------------------------

fn gen_vec(rng: &mut Rng, dim: usize, style: u64, centers: &[Vec<f32>]) -> Vec<f32> {
    if rng.chance(1, 25) {
        return vec![0.0; dim];
    }
    match style {
        // tiny integer grid: many duplicates, many ties, zero vectors
        0 => (0..dim).map(|_| rng.range(-1, 1) as f32).collect(),
        1 => (0..dim).map(|_| rng.range(-3, 3) as f32 * 0.5).collect(),
        // unit cube floats
        2 => (0..dim).map(|_| (rng.f64() * 2.0 - 1.0) as f32).collect(),
        // clusters with small noise
        3 => {
            let c = rng.pick(centers).clone();
            c.iter().map(|x| x + ((rng.f64() - 0.5) * 1e-3) as f32).collect()
        }
        // large magnitudes
        4 => (0..dim).map(|_| ((rng.f64() * 2.0 - 1.0) * 1.0e4) as f32).collect(),
        // points on a line (everything collinear)
        _ => {
            let t = rng.range(-50, 50) as f32;
            (0..dim).map(|i| t * (i as f32 + 1.0) * 0.25).collect()
        }
    }
}

fn normalize(v: &mut Vec<f32>) {
    let n = dot(v, v).sqrt();
    if n > 0.0 {
        for x in v.iter_mut() {
            *x = (*x as f64 / n) as f32;
        }
    } else if !v.is_empty() {
        v[0] = 1.0;
    }
}

fn gen_level_rnd(rng: &mut Rng) -> f64 {
    // (0, 1]; a quarter of the draws are pushed towards 0 so that upper levels exist
    let u = 1.0 - rng.f64();
    match rng.below(8) {
        0 => u.powi(6),
        1 => u.powi(12),
        _ => u,
    }
}

struct Gen<'r> {
    rng: &'r mut Rng,
    p: Params,
    style: u64,
    centers: Vec<Vec<f32>>,
    live: Vec<u64>,
    vecs: HashMap<u64, Vec<f32>>,
    dead: Vec<u64>,
    next_row: u64,
    inserted_total: usize,
    ops: Vec<Op>,
}

impl<'r> Gen<'r> {
    fn vec(&mut self) -> Vec<f32> {
        let mut v = if !self.live.is_empty() && self.rng.chance(1, 8) {
            // exact duplicate of a stored vector
            let r = *self.rng.pick(&self.live);
            self.vecs[&r].clone()
        } else {
            gen_vec(self.rng, self.p.dim, self.style, &self.centers)
        };
        if self.p.dist == 1 {
            normalize(&mut v); // the module doc requires normalized vectors for Cosine
        }
        v
    }
    fn probe(&mut self) -> Probe {
        let n = self.live.len();
        let q = match self.rng.below(6) {
            0 if n > 0 => {
                let r = *self.rng.pick(&self.live);
                self.vecs[&r].clone()
            }
            1 => {
                let mut z = vec![0.0; self.p.dim];
                if self.p.dist == 1 {
                    normalize(&mut z);
                }
                z
            }
            2 => {
                let mut v: Vec<f32> = (0..self.p.dim).map(|_| ((self.rng.f64() - 0.5) * 100.0) as f32).collect();
                if self.p.dist == 1 {
                    normalize(&mut v);
                }
                v
            }
            _ => self.vec(),
        };
        let total = self.inserted_total;
        let k = match self.rng.below(10) {
            0 => 1,
            1 => self.rng.usize(1, 5),
            2 => n.max(1),
            3 => n + 1,
            4 => 1000,
            5 => 0,
            6 => self.rng.usize(1, n.max(1)),
            _ => total.max(1) + self.rng.usize(0, 3),
        };
        let ef = match self.rng.below(10) {
            0 => 1,
            1 => self.rng.usize(1, 8),
            2 => n.max(1),
            3 => k.max(1),
            4 => self.rng.usize(1, n.max(1)),
            5 => 500,
            _ => total.max(1) + self.rng.usize(0, 40),
        };
        Probe { q, k, ef }
    }
    fn insert(&mut self) {
        let row = if !self.dead.is_empty() && self.rng.chance(1, 4) {
            // UPDATE path: the same row id comes back with a new vector
            let i = self.rng.below(self.dead.len() as u64) as usize;
            self.dead.swap_remove(i)
        } else {
            self.next_row += 1 + if self.rng.chance(1, 10) { self.rng.below(1 << 40) } else { 0 };
            self.next_row
        };
        let v = self.vec();
        let rnd = gen_level_rnd(self.rng);
        self.vecs.insert(row, v.clone());
        self.live.push(row);
        self.inserted_total += 1;
        self.ops.push(Op::Insert { row, v, rnd });
    }
    fn delete(&mut self, prefer_first: bool) {
        if self.live.is_empty() {
            return;
        }
        let i = if prefer_first { 0 } else { self.rng.below(self.live.len() as u64) as usize };
        let row = self.live.remove(i);
        self.dead.push(row);
        self.ops.push(Op::Delete { row });
    }
    fn searches(&mut self, n: usize) {
        for _ in 0..n {
            let pr = self.probe();
            self.ops.push(Op::Search(pr));
        }
    }
    fn reopen(&mut self) {
        let np = self.rng.usize(1, 3);
        let probes = (0..np).map(|_| self.probe()).collect();
        self.ops.push(Op::Reopen { probes });
    }
}

/// one generated history; each history draws a small subset of features
pub fn gen_history(rng: &mut Rng, miri_small: bool) -> (Params, Vec<Op>, Vec<&'static str>) {
    let dim = rng.usize(1, 8);
    let m = *rng.pick(&[2u16, 2, 3, 4, 4, 6, 8, 12, 16, 16, 16, 16]);
    let efc = *rng.pick(&[1u16, 2, 4, 8, 16, 40, 100, 100, 100, 200, 200]);
    let efs = *rng.pick(&[1u16, 8, 32, 32, 100]);
    let dist = if rng.chance(1, 12) { 1 + rng.below(2) as u8 } else { 0 };
    let quant = rng.below(2) as u8;
    let callback = rng.chance(1, 2);
    let p = Params { dim, m, efc, efs, dist, quant, callback };
    let style = rng.below(6);
    let centers: Vec<Vec<f32>> = (0..rng.usize(1, 4)).map(|_| (0..dim).map(|_| (rng.f64() * 4.0 - 2.0) as f32).collect()).collect();
    // features
    let f_delete = rng.chance(1, 2);
    let f_insert_after_delete = f_delete && rng.chance(1, 3);
    let f_vacuum = f_delete && rng.chance(1, 2);
    let f_reopen = rng.chance(1, 3);
    let f_interleave = rng.chance(1, 3);
    let cap = (m as usize * 2).min(32) + 1;
    let n_target = if miri_small {
        rng.usize(1, 12)
    } else {
        match rng.below(10) {
            0 => rng.usize(1, 3),
            1 | 2 | 3 => rng.usize(2, cap.min(efc as usize).max(2)),
            // around the point where level-0 neighbour lists are full
            4 | 5 => rng.usize(cap.saturating_sub(2).max(1), cap + 6),
            6 | 7 => rng.usize(10, 39),
            // 40 level-0 nodes fill more than half of a 16 KiB node page
            8 => rng.usize(36, 70),
            _ => rng.usize(40, 200),
        }
    };
    let mut feats = vec![];
    if f_delete {
        feats.push("delete");
    }
    if f_insert_after_delete {
        feats.push("insert_after_delete");
    }
    if f_vacuum {
        feats.push("vacuum");
    }
    if f_reopen {
        feats.push("reopen");
    }
    if f_interleave {
        feats.push("interleave");
    }
    let mut g = Gen { rng, p: p.clone(), style, centers, live: vec![], vecs: HashMap::new(), dead: vec![], next_row: 0, inserted_total: 0, ops: vec![] };
    if f_interleave {
        // searches (and the other enabled ops) between the inserts
        while g.inserted_total < n_target {
            match g.rng.below(12) {
                0 | 1 => g.searches(1),
                2 if f_delete && f_insert_after_delete => g.delete(false),
                3 if f_reopen && g.rng.chance(1, 4) => g.reopen(),
                4 if f_vacuum && g.rng.chance(1, 3) => {
                    let max = *g.rng.pick(&[0usize, 1, 2, 1000]);
                    g.ops.push(Op::Vacuum { max });
                }
                _ => g.insert(),
            }
        }
    } else {
        for _ in 0..n_target {
            g.insert();
        }
    }
    let ns = g.rng.usize(2, 6);
    g.searches(ns);
    if f_reopen {
        g.reopen();
        g.searches(2);
    }
    if f_delete {
        let rounds = g.rng.usize(1, 3);
        for round in 0..rounds {
            let nd = match g.rng.below(4) {
                0 => 1,
                1 => g.live.len(),
                _ => g.rng.usize(1, (g.live.len() / 2).max(1)),
            };
            for j in 0..nd {
                // the first inserted row is the initial entry point: aim at it in a third of the histories
                let first = round == 0 && j == 0 && g.rng.chance(1, 3);
                g.delete(first);
            }
            if g.rng.chance(1, 6) {
                // deleting an unknown / already deleted row id is a no-op
                let row = if !g.dead.is_empty() && g.rng.chance(1, 2) { *g.rng.pick(&g.dead) } else { 1 << 50 };
                g.ops.push(Op::Delete { row });
            }
            let ns = g.rng.usize(1, 4);
            g.searches(ns);
            if f_vacuum {
                let max = *g.rng.pick(&[0usize, 1, 2, 1000, 1000]);
                g.ops.push(Op::Vacuum { max });
                g.searches(2);
            }
            if f_reopen && g.rng.chance(1, 2) {
                g.reopen();
                g.searches(1);
            }
            if f_insert_after_delete {
                let ni = g.rng.usize(1, 5);
                for _ in 0..ni {
                    g.insert();
                }
                g.searches(2);
            }
        }
    }
    (p, g.ops, feats)
}

/// small scripted histories that aim at each mechanism directly (vectors still drawn from the seed)
fn directed(rng: &mut Rng) -> Vec<(&'static str, Params, Vec<Op>)> {
    let mut out = vec![];
    for &callback in &[true, false] {
        let dim = rng.usize(1, 8);
        let base = Params { dim, m: 16, efc: 100, efs: 32, dist: 0, quant: 0, callback };
        let mk = |rng: &mut Rng| -> Vec<f32> { (0..dim).map(|_| (rng.f64() * 2.0 - 1.0) as f32).collect() };
        let all = |rng: &mut Rng| Op::Search(Probe { q: mk(rng), k: 300, ef: 300 });
        // entry point deleted, then search
        let mut ops = vec![];
        for r in 1..=3u64 {
            ops.push(Op::Insert { row: r, v: mk(rng), rnd: 0.9 });
        }
        ops.push(all(rng));
        ops.push(Op::Delete { row: 1 });
        ops.push(all(rng));
        ops.push(Op::Vacuum { max: 1000 });
        ops.push(all(rng));
        out.push(("delete_entry_point_then_search", base.clone(), ops));
        // non-entry node deleted
        let mut ops = vec![];
        for r in 1..=5u64 {
            ops.push(Op::Insert { row: r, v: mk(rng), rnd: 0.9 });
        }
        ops.push(Op::Delete { row: 3 });
        ops.push(all(rng));
        ops.push(Op::Vacuum { max: 1000 });
        ops.push(all(rng));
        out.push(("delete_other_then_search", base.clone(), ops));
        // insert after delete
        let mut ops = vec![];
        for r in 1..=4u64 {
            ops.push(Op::Insert { row: r, v: mk(rng), rnd: 0.9 });
        }
        ops.push(Op::Delete { row: 2 });
        ops.push(Op::Insert { row: 9, v: mk(rng), rnd: 0.9 });
        ops.push(all(rng));
        out.push(("insert_after_delete", base.clone(), ops));
        // more nodes than one level-0 neighbour list can hold (M=16: 32), still less than half a page
        let mut ops = vec![];
        for r in 1..=38u64 {
            ops.push(Op::Insert { row: r, v: mk(rng), rnd: 0.9 });
        }
        ops.push(all(rng));
        ops.push(all(rng));
        out.push(("thirty_eight_nodes_full_width_search", base.clone(), ops));
        // 40 level-0 nodes: more than half of a 16 KiB node page
        let mut ops = vec![];
        for r in 1..=44u64 {
            ops.push(Op::Insert { row: r, v: mk(rng), rnd: 0.9 });
        }
        ops.push(all(rng));
        out.push(("forty_four_nodes_one_page", base.clone(), ops));
        // levels + reopen
        let mut ops = vec![];
        for r in 1..=12u64 {
            ops.push(Op::Insert { row: r, v: mk(rng), rnd: if r % 4 == 0 { 0.0005 } else { 0.8 } });
        }
        let probes = (0..3).map(|_| Probe { q: mk(rng), k: 5, ef: 50 }).collect();
        ops.push(Op::Reopen { probes });
        ops.push(all(rng));
        ops.push(Op::Insert { row: 13, v: mk(rng), rnd: 0.7 });
        ops.push(all(rng));
        out.push(("levels_reopen_insert", Params { m: 4, ..base.clone() }, ops));
    }
    out
}

// ------------------------------------------------------------------------------------------------
// shrinking (ddmin over the op list; every candidate runs on a fresh file)
// ------------------------------------------------------------------------------------------------

fn has_sig(p: &Params, ops: &[Op], path: &Path, sig: &str, budget: &mut usize) -> Option<Viol> {
    if *budget == 0 {
        return None;
    }
    *budget -= 1;
    TRACE.store(false, std::sync::atomic::Ordering::Relaxed);
    let out = exec(p, ops, path);
    out.viols.into_iter().find(|v| v.sig == sig)
}

fn shrink(p: &Params, ops: &[Op], path: &Path, sig: &str, upto: usize) -> (Vec<Op>, Option<Viol>, usize) {
    let mut budget = 160usize;
    let mut cur: Vec<Op> = ops[..=upto.min(ops.len() - 1)].to_vec();
    let mut best = has_sig(p, &cur, path, sig, &mut budget);
    if best.is_none() {
        return (cur, None, 160 - budget);
    }
    let mut n = 2usize;
    while cur.len() >= 2 && budget > 0 {
        let chunk = (cur.len() + n - 1) / n;
        let mut reduced = false;
        let mut start = 0;
        while start < cur.len() {
            let end = (start + chunk).min(cur.len());
            let cand: Vec<Op> = cur[..start].iter().chain(cur[end..].iter()).cloned().collect();
            if !cand.is_empty() {
                if let Some(v) = has_sig(p, &cand, path, sig, &mut budget) {
                    cur = cand;
                    best = Some(v);
                    n = (n - 1).max(2);
                    reduced = true;
                    break;
                }
            }
            start = end;
        }
        if !reduced {
            if n >= cur.len() {
                break;
            }
            n = (n * 2).min(cur.len());
        }
    }
    (cur, best, 160 - budget)
}

// ------------------------------------------------------------------------------------------------
// SQ8
// ------------------------------------------------------------------------------------------------

fn ulp(x: f32) -> f64 {
    let a = x.abs().max(f32::MIN_POSITIVE);
    (f32::from_bits(a.to_bits() + 1) - a) as f64
}

fn gen_sq8_vec(rng: &mut Rng) -> Vec<f32> {
    let dim = if rng.chance(1, 6) { rng.usize(9, 40) } else { rng.usize(1, 8) };
    match rng.below(9) {
        0 => vec![(rng.f64() * 10.0 - 5.0) as f32; dim],
        1 => (0..dim).map(|_| if rng.chance(1, 2) { -1.0 } else { 1.0 }).collect(),
        2 => (0..dim).map(|_| (rng.f64() * 2.0 - 1.0) as f32).collect(),
        3 => (0..dim).map(|_| rng.range(-128, 127) as f32).collect(),
        4 => {
            // large offset, small range: the step is below the spacing of f32 at that magnitude
            let off = (rng.f64() * 2.0 - 1.0) * 10f64.powi(rng.range(0, 7) as i32);
            let span = 10f64.powi(rng.range(-6, 2) as i32);
            (0..dim).map(|_| (off + rng.f64() * span) as f32).collect()
        }
        5 => {
            let s = 10f64.powi(rng.range(-20, 18) as i32);
            (0..dim).map(|_| ((rng.f64() * 2.0 - 1.0) * s) as f32).collect()
        }
        6 => (0..dim).map(|_| *rng.pick(&[0.0f32, -0.0, 1.0, 255.0, 0.5, 127.5, 254.5, 1e-3])).collect(),
        7 => {
            // values sitting on half steps of a [0, 255*s] range
            let s = (0.25 + rng.f64()) as f32;
            let mut v: Vec<f32> = (0..dim).map(|_| (rng.below(511) as f32) * 0.5 * s).collect();
            v.push(0.0);
            v.push(255.0 * s);
            v
        }
        _ => (0..dim).map(|_| (rng.f64() * 1.0e-3) as f32 + 1.0).collect(),
    }
}

/// returns true if the vector had a non-degenerate range
fn check_sq8(ctx: &mut Ctx, v: &[f32]) -> bool {
    ctx.eval();
    let vv = v.to_vec();
    let r = catch(|| {
        let sq = SQ8Vector::from_f32(&vv);
        let dec = sq.decode();
        let mut dec2 = vec![f32::NAN; vv.len()];
        sq.decode_into(&mut dec2);
        let mut buf = vec![0u8; sq.serialized_size()];
        let n = sq.write_to(&mut buf);
        let back = SQ8Vector::read_from(&buf, vv.len()).map(|b| b.decode()).map_err(|e| e.to_string());
        let mut dec3 = vec![f32::NAN; vv.len()];
        let viaref = SQ8VectorRef::from_bytes(&buf).map(|r| {
            r.decode_into(&mut dec3);
            r.dimension()
        });
        (sq.min(), sq.scale(), sq.data().to_vec(), dec, dec2, n, back, dec3, viaref.map_err(|e| e.to_string()))
    });
    let (min, scale, data, dec, dec2, n, back, dec3, viaref) = match r {
        Ok(t) => t,
        Err(p) => {
            ctx.violation("no_panic", &format!("C25/no_panic/sq8@{}", crate::report::panic_site(&p)), json!({"v": fmt_f(v), "panic": p}));
            return false;
        }
    };
    let lo = v.iter().cloned().fold(f32::INFINITY, f32::min);
    let hi = v.iter().cloned().fold(f32::NEG_INFINITY, f32::max);
    let degenerate = !(hi > lo);
    let step = if degenerate { 0.0 } else { scale as f64 };
    let slack = 2.0 * ulp(lo.abs().max(hi.abs()));
    if dec.len() != v.len() || data.len() != v.len() {
        ctx.violation("decode_within_one_step", "C25/decode_within_one_step/decoded_length_differs", json!({"v": fmt_f(v), "decoded_len": dec.len()}));
        return !degenerate;
    }
    for i in 0..v.len() {
        let err = (dec[i] as f64 - v[i] as f64).abs();
        if !(err <= step * 1.001 + slack) {
            ctx.violation(
                "decode_within_one_step",
                "C25/decode_within_one_step/SQ8Vector::decode_error_exceeds_step",
                json!({"v": fmt_f(v), "i": i, "decoded": dec[i] as f64, "original": v[i] as f64, "abs_err": err, "step": step, "min": min as f64, "code": data[i]}),
            );
            break;
        }
    }
    let same = |a: &[f32], b: &[f32]| a.len() == b.len() && a.iter().zip(b).all(|(x, y)| x.to_bits() == y.to_bits());
    let back_ok = matches!(&back, Ok(b) if same(b, &dec));
    let ref_ok = matches!(&viaref, Ok(d) if *d == v.len()) && same(&dec3, &dec);
    if !same(&dec2, &dec) || n != 8 + v.len() || !back_ok || !ref_ok {
        ctx.violation(
            "decode_within_one_step",
            "C25/decode_within_one_step/sq8_serialized_form_decodes_differently",
            json!({"v": fmt_f(v), "decode": fmt_f(&dec), "decode_into": fmt_f(&dec2), "written": n, "read_from": format!("{:?}", back), "ref_decode_into": fmt_f(&dec3)}),
        );
    }
    !degenerate
}

// ------------------------------------------------------------------------------------------------
// driver: the parent owns the Ctx; histories run in a worker subprocess with an address-space cap,
// because a damaged index can ask for terabytes (alloc failure aborts, which catch_unwind cannot see)
// ------------------------------------------------------------------------------------------------

const N_DIRECTED: u64 = 12;

fn splitmix64(mut z: u64) -> u64 {
    z = z.wrapping_add(0x9E3779B97F4A7C15);
    z = (z ^ (z >> 30)).wrapping_mul(0xBF58476D1CE4E5B9);
    z = (z ^ (z >> 27)).wrapping_mul(0x94D049BB133111EB);
    z ^ (z >> 31)
}

/// history number n of this seed (independent of every other history)
fn history(seed: u64, n: u64) -> (String, Params, Vec<Op>, Vec<String>) {
    let mut root = Rng::derive(seed, 25);
    let _sq = root.next();
    let base = root.next();
    if n < N_DIRECTED {
        let mut rng = Rng::new(base ^ 0xD12EC7ED);
        let (label, p, ops) = directed(&mut rng).swap_remove(n as usize);
        (format!("directed:{}", label), p, ops, vec![label.to_string()])
    } else {
        let mut rng = Rng::new(base ^ splitmix64(n));
        let (p, ops, feats) = gen_history(&mut rng, false);
        ("generated".to_string(), p, ops, feats.iter().map(|s| s.to_string()).collect())
    }
}

fn outcome_json(n: u64, label: &str, feats: &[String], p: &Params, ops: &[Op], out: &Outcome) -> Value {
    let shown: Vec<Value> = ops.iter().take(14).map(op_json).collect();
    json!({
        "n": n, "label": label, "features": feats, "params": params_json(p), "n_ops": ops.len(), "hash": hist_hash(p, ops), "callback": p.callback,
        "nontrivial": out.inserts_ok >= 2 && out.searches_with_live >= 1,
        "first_ops": shown,
        "c": {
            "searches": out.searches, "searches_with_live_rows": out.searches_with_live, "searches_after_a_delete": out.searches_after_delete,
            "searches_with_entry_point_deleted": out.searches_entry_deleted, "complete_when_small_applicable": out.complete_checked,
            "complete_when_small_applicable_within_link_capacity": out.complete_checked_within_capacity, "reopens": out.reopens,
            "reopen_probe_comparisons": out.reopen_probes, "inserts_ok": out.inserts_ok, "inserts_err": out.inserts_err, "deletes_of_live_rows": out.deletes,
            "vacuum_calls": out.vacuums, "vacuum_nodes_taken": out.vacuumed_nodes, "ops_skipped_invalid": out.skipped_ops,
            "histories_stopped_at_failed_mutation": out.truncated_by_insert_error as u64, "histories_with_upper_levels": (out.max_level_seen > 0) as u64,
            "histories_spanning_several_node_pages": out.multi_page as u64, "histories_beyond_33_nodes": (out.max_nodes > 33) as u64,
            "histories_with_node_page_overflow": out.layout_overflowed as u64, "histories_layout_model_mismatch": out.layout_model_mismatch as u64
        },
        "viols": out.viols.iter().map(|v| json!({"assertion": v.assertion, "sig": v.sig, "detail": v.detail, "op_index": v.op_index})).collect::<Vec<_>>()
    })
}

fn emit(tag: &str, v: &Value) {
    use std::io::Write;
    println!("{} {}", tag, v);
    let _ = std::io::stdout().flush();
}

fn worker(a: &Args) -> i32 {
    // args after "worker": <scratch dir> <mode> ...
    //   range  <from> <step> <max> <budget seconds>
    //   single <n>                      (one history, backtraces on)
    //   shrink <n> <op_index> <sig>     (minimise the witness of <sig> in history n)
    let r = &a.rest;
    let dir = PathBuf::from(&r[1]);
    let mode = r[2].as_str();
    unsafe {
        // A damaged index asks for absurd allocations; cap the address space so that they fail fast
        // instead of being zero-filled (the single re-run needs room to symbolise its backtrace).
        let cap: u64 = if mode == "single" { 1 << 30 } else { 192 << 20 };
        let lim = libc::rlimit { rlim_cur: cap, rlim_max: cap };
        libc::setrlimit(libc::RLIMIT_AS, &lim);
        let nocore = libc::rlimit { rlim_cur: 0, rlim_max: 0 };
        libc::setrlimit(libc::RLIMIT_CORE, &nocore);
        // every insert/search allocates a 1 MiB visited set; keep such blocks on the heap instead of
        // a fresh mmap + page faults each time (harness-side allocator tuning only)
        libc::mallopt(libc::M_MMAP_THRESHOLD, 32 << 20);
        libc::mallopt(libc::M_TRIM_THRESHOLD, 128 << 20);
    }
    let path = dir.join(format!("w{}.hnsw", std::process::id()));
    match mode {
        "shrink" => {
            let n: u64 = r[3].parse().unwrap();
            let opi: usize = r[4].parse().unwrap();
            let sig = r[5].as_str();
            let (_label, p, ops, _feats) = history(a.seed, n);
            let (small, best, runs) = shrink(&p, &ops, &path, sig, opi);
            match best {
                Some(b) => emit("K", &json!({"sig": sig, "detail": {"minimised": true, "executions": runs, "original_ops": ops.len(), "history": hist_json(&p, &small), "violation": b.detail}})),
                None => emit("K", &json!({"sig": sig, "detail": {"minimised": false, "history": hist_json(&p, &ops[..=opi.min(ops.len() - 1)])}})),
            }
            emit("END", &json!(n));
        }
        "replay" => {
            let txt = std::fs::read_to_string(&r[3]).unwrap_or_default();
            let v: Value = serde_json::from_str(&txt).unwrap_or(Value::Null);
            match find_history(&v).and_then(parse_history) {
                Some((p, ops)) => {
                    TRACE.store(true, std::sync::atomic::Ordering::Relaxed);
                    let out = exec(&p, &ops, &path);
                    emit("R", &outcome_json(0, "replay", &[], &p, &ops, &out));
                    emit("END", &json!(0));
                }
                None => emit("ERR", &json!("no history object (params + ops) found in the file")),
            }
        }
        "single" => {
            let n: u64 = r[3].parse().unwrap();
            let (label, p, ops, feats) = history(a.seed, n);
            emit("B", &json!(n));
            TRACE.store(true, std::sync::atomic::Ordering::Relaxed);
            let out = exec(&p, &ops, &path);
            emit("R", &outcome_json(n, &label, &feats, &p, &ops, &out));
            emit("END", &json!(n));
        }
        _ => {
            let from: u64 = r[3].parse().unwrap();
            let step: u64 = r[4].parse().unwrap();
            let max: u64 = r[5].parse().unwrap();
            let budget: f64 = r[6].parse().unwrap();
            let start = std::time::Instant::now();
            let mut n = from;
            while n < max && start.elapsed().as_secs_f64() < budget {
                let (label, p, ops, feats) = history(a.seed, n);
                emit("B", &json!(n));
                TRACE.store(true, std::sync::atomic::Ordering::Relaxed);
                let out = exec(&p, &ops, &path);
                emit("R", &outcome_json(n, &label, &feats, &p, &ops, &out));
                n += step;
            }
            emit("END", &json!(n));
        }
    }
    0
}

fn spawn_worker(a: &Args, dir: &Path, args: &[String], backtrace: bool, stderr_path: &Path) -> std::io::Result<std::process::Child> {
    let exe = std::env::current_exe()?;
    let errf = std::fs::File::create(stderr_path)?;
    std::process::Command::new(exe)
        .args(["C25", "--tier", &a.tier, "--seed", &a.seed.to_string(), "worker"])
        .arg(dir)
        .args(args)
        .env("RUST_BACKTRACE", if backtrace { "1" } else { "0" })
        .env_remove("RUST_LIB_BACKTRACE")
        .stdin(std::process::Stdio::null())
        .stdout(std::process::Stdio::piped())
        .stderr(errf)
        .spawn()
}

/// read the worker's lines with a watchdog; returns true if the worker had to be killed
fn pump(child: &mut std::process::Child, idle_secs: u64, mut on_line: impl FnMut(&str, &str)) -> bool {
    use std::io::BufRead;
    let stdout = child.stdout.take().unwrap();
    let (tx, rx) = std::sync::mpsc::channel::<String>();
    let h = std::thread::spawn(move || {
        let rd = std::io::BufReader::new(stdout);
        for l in rd.lines() {
            match l {
                Ok(l) => {
                    if tx.send(l).is_err() {
                        break;
                    }
                }
                Err(_) => break,
            }
        }
    });
    let mut hung = false;
    loop {
        match rx.recv_timeout(std::time::Duration::from_secs(idle_secs)) {
            Ok(l) => {
                let (tag, rest) = l.split_once(' ').unwrap_or((l.as_str(), ""));
                on_line(tag, rest);
            }
            Err(std::sync::mpsc::RecvTimeoutError::Timeout) => {
                hung = true;
                let _ = child.kill();
                break;
            }
            Err(_) => break,
        }
    }
    let _ = h.join();
    hung
}

fn stderr_summary(path: &Path) -> (String, String) {
    let txt = std::fs::read_to_string(path).unwrap_or_default();
    let first = txt.lines().find(|l| !l.trim().is_empty()).unwrap_or("").to_string();
    let frame = txt.lines().map(|l| l.trim()).find(|l| l.contains("turdb::")).map(|l| l.splitn(2, ": ").nth(1).unwrap_or(l).to_string()).unwrap_or_default();
    let cause = if first.starts_with("memory allocation of") {
        if frame.is_empty() { "alloc_failure".to_string() } else { format!("alloc_failure@{}", frame) }
    } else if !frame.is_empty() {
        format!("abort@{}", frame)
    } else {
        "worker_died".to_string()
    };
    let excerpt: String = txt.lines().filter(|l| l.contains("memory allocation") || l.contains("turdb::") || l.contains("/repo/src")).take(14).collect::<Vec<_>>().join("\n");
    (cause, excerpt)
}

enum Ev {
    Hist(Value),
    Death { n: u64, opi: usize, overflow: bool, hung: bool, status: String, cause: String, excerpt: String },
    Finished,
}

struct SigRec {
    assertion: String,
    count: u64,
    first_n: u64,
    first_op: usize,
    first: Value,
    extras: Vec<Value>,
}

fn assertion_rank(a: &str) -> usize {
    ["insert_ok", "live_only", "nonempty_if_live_exists", "complete_when_small", "no_abort", "reopen_invariant", "ranked_by_true_distance", "distinct", "at_most_k", "no_panic"]
        .iter()
        .position(|x| *x == a)
        .unwrap_or(99)
}

const WORKERS: u64 = 8;

pub fn run(a: &Args) -> i32 {
    if a.rest.first().map(|s| s == "worker").unwrap_or(false) {
        return worker(a);
    }
    if let Some(rp) = &a.replay {
        // re-run the history embedded in a replay file (in a capped worker) and print what fails
        let dir = PathBuf::from(format!("{}/scratch/c25-{}", crate::report::VERIF_DIR, std::process::id()));
        let _ = std::fs::create_dir_all(&dir);
        let errp = dir.join("replay-stderr.txt");
        let mut code = 2;
        if let Ok(mut c) = spawn_worker(a, &dir, &["replay".to_string(), rp.clone()], true, &errp) {
            let mut last_op = String::new();
            let mut done = false;
            let _ = pump(&mut c, 120, |tag, rest| match tag {
                "O" => last_op = rest.to_string(),
                "R" => {
                    let v: Value = serde_json::from_str(rest).unwrap_or(Value::Null);
                    let viols = v["viols"].as_array().cloned().unwrap_or_default();
                    for x in &viols {
                        println!("REPLAY property=C25 assertion={} sig={} at_op={}", x["assertion"].as_str().unwrap_or(""), x["sig"].as_str().unwrap_or(""), x["op_index"]);
                        println!("  {}", x["detail"]);
                    }
                    println!("REPLAY property=C25 ops={} violations={}", v["n_ops"], viols.len());
                    code = if viols.is_empty() { 0 } else { 1 };
                }
                "END" => done = true,
                "ERR" => println!("REPLAY property=C25 error={}", rest),
                _ => {}
            });
            let st = c.wait().ok();
            if std::env::var("C25_DEBUG").is_ok() {
                print!("{}", std::fs::read_to_string(&errp).unwrap_or_default());
            }
            if !done && code != 2 || !done && !last_op.is_empty() {
                let (cause, excerpt) = stderr_summary(&errp);
                println!("REPLAY property=C25 assertion=no_abort worker died ({:?}) in op [index overflow any_delete]={} cause={}\n{}", st, last_op, cause, excerpt);
                code = 1;
            }
        }
        let _ = std::fs::remove_dir_all(&dir);
        return code;
    }
    let miri = cfg!(miri);
    let mut ctx = Ctx::new(
        "C25",
        &a.tier,
        a.seed,
        "exploration",
        "op histories on a real PersistentHnswIndex file (dimensions 1..8, <= 200 vectors incl. duplicates and zero vectors, M 2..16, ef_construction 1..200, both insert APIs, caller-supplied level randomness, delete_by_row_id, vacuum_batch, sync+reopen, re-insert of a deleted row id); model = map row_id -> vector of live rows, exact f64 distances. A case = one search (or one before/after-reopen probe pair) checked against the model; plus SQ8 encode/decode cases. distinct_nontrivial = distinct histories (hash of parameters+ops) with >= 2 successful inserts and >= 1 checked search over a non-empty live set, plus distinct SQ8 vectors with a non-degenerate range",
    );
    let mut root = Rng::derive(a.seed, 25);
    let mut rng = Rng::new(root.next());
    let quick = ctx.quick();

    // ---- SQ8 (the only part that runs under Miri: everything else needs mmap) ----
    let nsq = if miri { 300 } else if quick { 2_000_000 } else { 30_000_000 };
    let mut sq_nontrivial = 0u64;
    for i in 0..nsq {
        let v = gen_sq8_vec(&mut rng);
        if check_sq8(&mut ctx, &v) {
            sq_nontrivial += 1;
            if i < 50_000 {
                let bytes: Vec<u8> = v.iter().flat_map(|x| x.to_bits().to_le_bytes()).collect();
                ctx.nontrivial(fnv(&bytes) ^ 0x5158);
            }
        }
        if i == 3 {
            ctx.sample(json!({"kind": "sq8", "v": fmt_f(&v), "decoded": fmt_f(&SQ8Vector::from_f32(&v).decode())}));
        }
    }
    ctx.extra.insert("sq8_wall_s".into(), json!((ctx.elapsed() * 100.0).round() / 100.0));
    ctx.count("sq8_vectors", nsq as u64);
    ctx.count("sq8_vectors_nondegenerate_range", sq_nontrivial);
    if miri {
        ctx.assumptions.push("Miri: only the SQ8 sub-check runs (the index needs mmap)".into());
        return ctx.finish();
    }

    ctx.extra.insert("slot_offset_truncation_present_in_code_under_test".into(), json!(slot_offset_truncates()));
    // ---- index histories: explore ----
    let dir = PathBuf::from(format!("{}/scratch/c25-{}", crate::report::VERIF_DIR, std::process::id()));
    if let Err(e) = std::fs::create_dir_all(&dir) {
        ctx.inconclusive(&format!("cannot create scratch dir: {}", e));
        return ctx.finish();
    }
    let explore_until = if quick { 33.0 } else { 370.0 };
    let max_hist: u64 = if quick { 20_000 } else { 400_000 };
    let (tx, rx) = std::sync::mpsc::channel::<Ev>();
    let t0 = ctx.start;
    let mut handles = vec![];
    for w in 0..WORKERS {
        let tx = tx.clone();
        let dir = dir.clone();
        let a2 = Args { prop: a.prop.clone(), tier: a.tier.clone(), seed: a.seed, replay: None, rest: vec![] };
        handles.push(std::thread::spawn(move || {
            let errp = dir.join(format!("stderr-{}.txt", w));
            let mut next = w;
            let mut fails = 0;
            while next < max_hist && t0.elapsed().as_secs_f64() < explore_until {
                let left = explore_until - t0.elapsed().as_secs_f64();
                let args: Vec<String> = vec!["range".into(), next.to_string(), WORKERS.to_string(), max_hist.to_string(), format!("{}", left)];
                let mut child = match spawn_worker(&a2, &dir, &args, false, &errp) {
                    Ok(c) => c,
                    Err(_) => {
                        fails += 1;
                        if fails > 3 {
                            break;
                        }
                        continue;
                    }
                };
                let mut last_b: Option<u64> = None;
                let mut last_op: (usize, bool) = (0, false);
                let mut ended: Option<u64> = None;
                let hung = pump(&mut child, 90, |tag, rest| match tag {
                    "B" => {
                        last_b = rest.parse().ok();
                        last_op = (0, false);
                    }
                    "O" => {
                        let f: Vec<&str> = rest.split(' ').collect();
                        if f.len() == 3 {
                            last_op = (f[0].parse().unwrap_or(0), f[1] == "1");
                        }
                    }
                    "R" => {
                        if let Ok(v) = serde_json::from_str::<Value>(rest) {
                            let _ = tx.send(Ev::Hist(v));
                        }
                        last_b = None;
                    }
                    "END" => ended = rest.parse().ok(),
                    _ => {}
                });
                let status = format!("{:?}", child.wait().ok());
                if let Some(e) = ended {
                    next = e;
                    continue;
                }
                match last_b {
                    Some(n) => {
                        let (cause, excerpt) = stderr_summary(&errp);
                        let _ = tx.send(Ev::Death { n, opi: last_op.0, overflow: last_op.1, hung, status, cause, excerpt });
                        next = n + WORKERS;
                    }
                    None => {
                        // died between histories (or before the first): skip ahead, give up after a few
                        fails += 1;
                        if fails > 3 {
                            break;
                        }
                        next += WORKERS;
                    }
                }
            }
            let _ = tx.send(Ev::Finished);
        }));
    }
    drop(tx);
    let mut finished = 0;
    let mut sigs: BTreeMap<String, SigRec> = BTreeMap::new();
    let mut hist_with_viol = 0u64;
    let mut samples = 0;
    let mut max_n_seen = 0u64;
    while finished < WORKERS {
        let ev = match rx.recv() {
            Ok(e) => e,
            Err(_) => break,
        };
        match ev {
            Ev::Finished => finished += 1,
            Ev::Hist(r) => {
                ctx.count("histories", 1);
                if let Some(c) = r["c"].as_object() {
                    for (k, v) in c {
                        ctx.count(k, v.as_u64().unwrap_or(0));
                    }
                }
                ctx.evals(r["c"]["searches"].as_u64().unwrap_or(0) + r["c"]["reopen_probe_comparisons"].as_u64().unwrap_or(0));
                ctx.count(if r["callback"].as_bool().unwrap_or(false) { "histories_insert_with_callback" } else { "histories_plain_insert" }, 1);
                if r["nontrivial"].as_bool().unwrap_or(false) {
                    ctx.nontrivial(r["hash"].as_u64().unwrap_or(0));
                }
                let n = r["n"].as_u64().unwrap_or(0);
                max_n_seen = max_n_seen.max(n);
                if (n < 2 || n % 211 == 17) && samples < 5 {
                    samples += 1;
                    ctx.sample(json!({"kind": r["label"], "features": r["features"], "params": r["params"], "n_ops": r["n_ops"], "first_ops": r["first_ops"]}));
                }
                let viols = r["viols"].as_array().cloned().unwrap_or_default();
                if !viols.is_empty() {
                    hist_with_viol += 1;
                }
                for v in viols {
                    let sig = v["sig"].as_str().unwrap_or("").to_string();
                    let d = json!({"history_no": n, "kind": r["label"], "features": r["features"], "params": r["params"], "n_ops": r["n_ops"], "at_op": v["op_index"], "violation": v["detail"]});
                    let opi = v["op_index"].as_u64().unwrap_or(0) as usize;
                    match sigs.get_mut(&sig) {
                        Some(rec) => {
                            rec.count += 1;
                            // keep the witness from the shortest history as the one to minimise
                            if r["n_ops"].as_u64().unwrap_or(0) < rec.first["n_ops"].as_u64().unwrap_or(0) {
                                rec.first = d;
                                rec.first_n = n;
                                rec.first_op = opi;
                            } else if rec.extras.len() < 1 {
                                rec.extras.push(d);
                            }
                        }
                        None => {
                            sigs.insert(sig, SigRec { assertion: v["assertion"].as_str().unwrap_or("").to_string(), count: 1, first_n: n, first_op: opi, first: d, extras: vec![] });
                        }
                    }
                }
            }
            Ev::Death { n, opi, overflow, hung, status, cause, excerpt } => {
                ctx.count("histories", 1);
                ctx.count("worker_deaths", 1);
                if hung {
                    ctx.count("worker_watchdog_kills", 1);
                }
                hist_with_viol += 1;
                let kind = if hung { "hang_over_90s".to_string() } else { cause.split('@').next().unwrap_or("worker_died").to_string() };
                let sig = if overflow { format!("C25/no_abort/{}", OVERFLOW_CAUSE) } else { format!("C25/no_abort/{}", kind) };
                let (label, hp, hops, feats) = history(a.seed, n);
                let d = json!({"history_no": n, "kind": label, "features": feats, "params": params_json(&hp), "n_ops": hops.len(), "worker_exit": status, "died_in_op": opi,
                               "node_page_overflow_predicted_before_that_op": overflow, "kind": kind, "stderr": excerpt});
                match sigs.get_mut(&sig) {
                    Some(rec) => {
                        rec.count += 1;
                        if opi < rec.first_op {
                            rec.first = d;
                            rec.first_n = n;
                            rec.first_op = opi;
                        }
                    }
                    None => {
                        sigs.insert(sig, SigRec { assertion: "no_abort".into(), count: 1, first_n: n, first_op: opi, first: d, extras: vec![] });
                    }
                }
            }
        }
    }
    for h in handles {
        let _ = h.join();
    }
    if max_n_seen + WORKERS < max_hist {
        ctx.count("exploration_stopped_by_wall_budget", 1);
    }

    // ---- minimise the first witness of every unexplained signature; confirm worker deaths alone ----
    let mut tasks: Vec<(String, u64, usize, bool)> = vec![];
    for (sig, rec) in &sigs {
        if ctx.is_known(sig).is_some() {
            continue;
        }
        tasks.push((sig.clone(), rec.first_n, rec.first_op, rec.assertion == "no_abort"));
    }
    tasks.sort_by_key(|t| (assertion_rank(&sigs[&t.0].assertion), t.0.clone()));
    tasks.truncate(32);
    let tasks = std::sync::Arc::new(std::sync::Mutex::new(tasks));
    let results = std::sync::Arc::new(std::sync::Mutex::new(HashMap::<String, Value>::new()));
    let min_deadline = if quick { 48.0 } else { 440.0 };
    let mut hs = vec![];
    for w in 0..WORKERS {
        let tasks = tasks.clone();
        let results = results.clone();
        let dir = dir.clone();
        let a2 = Args { prop: a.prop.clone(), tier: a.tier.clone(), seed: a.seed, replay: None, rest: vec![] };
        hs.push(std::thread::spawn(move || loop {
            let t = { tasks.lock().unwrap().pop() };
            let (sig, n, opi, is_abort) = match t {
                Some(t) => t,
                None => break,
            };
            if t0.elapsed().as_secs_f64() > min_deadline {
                break;
            }
            let errp = dir.join(format!("min-stderr-{}.txt", w));
            if is_abort {
                let args: Vec<String> = vec!["single".into(), n.to_string()];
                let mut survived = false;
                let mut last: Option<usize> = None;
                if let Ok(mut c) = spawn_worker(&a2, &dir, &args, true, &errp) {
                    let _ = pump(&mut c, 60, |tag, rest| match tag {
                        "O" => last = rest.split(' ').next().and_then(|x| x.parse().ok()),
                        "END" => survived = true,
                        _ => {}
                    });
                    let _ = c.wait();
                }
                let (cause, excerpt) = stderr_summary(&errp);
                let (_l, hp, hops, _f) = history(a2.seed, n);
                let upto = last.unwrap_or(opi).min(hops.len() - 1);
                results.lock().unwrap().insert(
                    sig,
                    json!({"rerun_alone": {"died_again": !survived, "died_in_op": last, "cause": cause, "stderr": excerpt}, "history_up_to_fatal_op": hist_json(&hp, &hops[..=upto])}),
                );
            } else {
                let args: Vec<String> = vec!["shrink".into(), n.to_string(), opi.to_string(), sig.clone()];
                let mut k = Value::Null;
                if let Ok(mut c) = spawn_worker(&a2, &dir, &args, false, &errp) {
                    let _ = pump(&mut c, 60, |tag, rest| {
                        if tag == "K" {
                            k = serde_json::from_str::<Value>(rest).map(|v| v["detail"].clone()).unwrap_or(Value::Null);
                        }
                    });
                    let _ = c.wait();
                }
                if !k.is_null() {
                    results.lock().unwrap().insert(sig, k);
                }
            }
        }));
    }
    for h in hs {
        let _ = h.join();
    }
    let results = results.lock().unwrap().clone();

    // ---- report ----
    let mut order: Vec<String> = sigs.keys().cloned().collect();
    order.sort_by_key(|s| (s.ends_with(OVERFLOW_CAUSE), assertion_rank(&sigs[s].assertion), s.clone()));
    let mut by_sig = BTreeMap::new();
    let mut witnesses = serde_json::Map::new();
    // first pass: one (minimised) witness per signature, so that the few replay files cover many causes
    for sig in &order {
        let rec = &sigs[sig];
        by_sig.insert(sig.clone(), rec.count);
        let mut d = rec.first.clone();
        if let Some(m) = results.get(sig) {
            d["minimised_witness"] = m.clone();
            if m.get("violation").is_some() {
                d.as_object_mut().unwrap().remove("violation");
            }
        }
        if ctx.is_known(sig).is_none() {
            witnesses.insert(sig.clone(), d.clone());
        }
        ctx.violation(&rec.assertion, sig, d);
    }
    for sig in &order {
        let rec = &sigs[sig];
        let mut left = rec.count - 1;
        for e in &rec.extras {
            if left > 0 {
                ctx.violation(&rec.assertion, sig, e.clone());
                left -= 1;
            }
        }
        for _ in 0..left {
            ctx.violation(&rec.assertion, sig, json!({"note": "further occurrence; see the first witness of this signature"}));
        }
    }
    ctx.count("histories_with_violation", hist_with_viol);
    ctx.extra.insert("failed_sub_assertions_by_signature".into(), json!(by_sig));
    if !witnesses.is_empty() {
        // all first witnesses (the replay directory keeps only the first few files)
        let wp = format!("{}/replay/C25/{}-seed{}-witnesses.json", crate::report::VERIF_DIR, a.tier, a.seed);
        let _ = std::fs::create_dir_all(format!("{}/replay/C25", crate::report::VERIF_DIR));
        let _ = std::fs::write(&wp, serde_json::to_string_pretty(&Value::Object(witnesses)).unwrap_or_default());
        ctx.extra.insert("all_first_witnesses".into(), json!(wp));
    }
    let _ = std::fs::remove_dir_all(&dir);
    ctx.assumptions.push("the index stores no vectors: distances come from the caller's row lookup, which returns None for rows that are not live (as a table would)".into());
    ctx.assumptions.push("L2 indexes report squared Euclidean distance; this is accepted as 'the distance' (same order)".into());
    ctx.assumptions.push("row id 0 is never used by the generator, so a returned row_id 0 is always a fabricated id".into());
    ctx.assumptions.push("a history stops at the first failed insert/delete/vacuum (reported as its own sub-assertion); nothing is demanded of the state after a failed mutation".into());
    ctx.assumptions.push("histories run in worker subprocesses with RLIMIT_AS = 192 MiB; a worker death is attributed to the history and op in flight (the op index is written before the op runs) and the first one per signature is confirmed by re-running that history alone".into());
    ctx.finish()
}

//! C26: index key encoding (`turdb::encoding::key`) preserves the documented value order under
//! memcmp, is injective (except the documented int 0 / float 0.0 sharing), round-trips through
//! `decode_key`, and composite keys compare column by column.
//!
//! Oracle = an independent definition of the documented order (`rel`), never the type-prefix
//! constants of the crate. Only orderings the module documentation promises are asserted:
//!   * cross-type ranking of the "Type Prefix Scheme" table,
//!   * numbers: -inf < negatives < zero < positives < +inf < NaN (int vs float inside the same sign
//!     class is NOT asserted, only counted), int 0 and float +-0.0 share one key,
//!   * text/blob bytewise, date/time/timestamp numeric, uuid/macaddr bytewise,
//!   * arrays/tuples/composites element-wise lexicographic (shorter prefix first),
//!   * JSON: kind ranking, numbers numeric (finite only), strings bytewise, arrays lexicographic,
//!   * intervals only by component-wise dominance, timestamptz only when the instants differ,
//!   * vector / inet / range / JSON object / enum across type ids: injectivity + round trip only.
use crate::report::{catch, panic_site, Ctx};
use crate::rng::Rng;
use crate::Args;
use bumpalo::Bump;
use serde_json::json;
use smallvec::SmallVec;
use std::cmp::Ordering;
use std::collections::{BTreeMap, HashSet};
use turdb::encoding::key::{self as tk, DecodedJson, DecodedKey, JsonValue, KeyBuffer, Value as KV};

// ---------------------------------------------------------------------------------------------
// value model
// ---------------------------------------------------------------------------------------------

#[derive(Clone, Debug)]
enum J {
    Null,
    Bool(bool),
    Num(f64),
    Str(String),
    Arr(Vec<J>),
    Obj(Vec<(String, J)>),
}

#[derive(Clone, Debug)]
enum V {
    Null,
    Bool(bool),
    Int(i64),
    Float(f64),
    Text(String),
    Blob(Vec<u8>),
    Date(i32),
    Time(i64),
    Timestamp(i64),
    TimestampTz(i64, i16),
    Interval(i32, i32, i64), // months, days, micros
    Uuid([u8; 16]),
    Inet(bool, Vec<u8>, u8), // is_ipv6, addr (exactly 4 / 16 bytes), prefix_len
    Mac([u8; 6]),
    Enum(u32, u32),
    Vector(Vec<f32>),
    Json(J),
    Array(Vec<V>),
    Tuple(Vec<V>),
    Composite(u32, Vec<V>),
    Domain(u32, Box<V>),
    Range { lo: Option<Box<V>>, hi: Option<Box<V>>, li: bool, ui: bool },
}

const NKINDS: u64 = 22;

fn kind_id(v: &V) -> u64 {
    match v {
        V::Null => 0,
        V::Bool(_) => 1,
        V::Int(_) => 2,
        V::Float(_) => 3,
        V::Text(_) => 4,
        V::Blob(_) => 5,
        V::Date(_) => 6,
        V::Time(_) => 7,
        V::Timestamp(_) => 8,
        V::TimestampTz(..) => 9,
        V::Interval(..) => 10,
        V::Uuid(_) => 11,
        V::Inet(..) => 12,
        V::Mac(_) => 13,
        V::Enum(..) => 14,
        V::Vector(_) => 15,
        V::Json(_) => 16,
        V::Array(_) => 17,
        V::Tuple(_) => 18,
        V::Composite(..) => 19,
        V::Domain(..) => 20,
        V::Range { .. } => 21,
    }
}

// ---------------------------------------------------------------------------------------------
// driving the real encoder
// ---------------------------------------------------------------------------------------------

fn to_jv<'a>(j: &'a J, bump: &'a Bump) -> JsonValue<'a> {
    match j {
        J::Null => JsonValue::Null,
        J::Bool(b) => JsonValue::Bool(*b),
        J::Num(n) => JsonValue::Number(*n),
        J::Str(s) => JsonValue::String(s.as_str()),
        J::Arr(xs) => {
            let v: Vec<JsonValue<'a>> = xs.iter().map(|x| to_jv(x, bump)).collect();
            JsonValue::Array(bump.alloc_slice_fill_iter(v.into_iter()))
        }
        J::Obj(es) => {
            let v: Vec<(&'a str, JsonValue<'a>)> = es.iter().map(|(k, x)| (k.as_str(), to_jv(x, bump))).collect();
            JsonValue::Object(bump.alloc_slice_fill_iter(v.into_iter()))
        }
    }
}

/// kinds whose encoder is generic over `KeyBuffer`; `via` routes the nine `Value` kinds through
/// `encode_value` instead of the per-type function. Returns false for the Vec-only kinds.
fn enc_flat<B: KeyBuffer>(v: &V, buf: &mut B, bump: &Bump, via: bool) -> bool {
    match v {
        V::Null => {
            if via { tk::encode_value(&KV::Null, buf) } else { tk::encode_null(buf) }
        }
        V::Bool(b) => {
            if via { tk::encode_value(&KV::Bool(*b), buf) } else { tk::encode_bool(*b, buf) }
        }
        V::Int(n) => {
            if via { tk::encode_value(&KV::Int(*n), buf) } else { tk::encode_int(*n, buf) }
        }
        V::Float(f) => {
            if via { tk::encode_value(&KV::Float(*f), buf) } else { tk::encode_float(*f, buf) }
        }
        V::Text(s) => {
            if via { tk::encode_value(&KV::Text(s.as_str()), buf) } else { tk::encode_text(s, buf) }
        }
        V::Blob(b) => {
            if via { tk::encode_value(&KV::Blob(b.as_slice()), buf) } else { tk::encode_blob(b, buf) }
        }
        V::Date(d) => {
            if via { tk::encode_value(&KV::Date(*d), buf) } else { tk::encode_date(*d, buf) }
        }
        V::Timestamp(t) => {
            if via { tk::encode_value(&KV::Timestamp(*t), buf) } else { tk::encode_timestamp(*t, buf) }
        }
        V::Uuid(u) => {
            if via { tk::encode_value(&KV::Uuid(u), buf) } else { tk::encode_uuid(u, buf) }
        }
        V::Time(t) => tk::encode_time(*t, buf),
        V::TimestampTz(m, tz) => tk::encode_timestamptz(*m, *tz, buf),
        V::Interval(mo, d, us) => tk::encode_interval(*mo, *d, *us, buf),
        V::Inet(v6, addr, pl) => tk::encode_inet(*v6, addr, *pl, buf),
        V::Mac(m) => tk::encode_macaddr(m, buf),
        V::Enum(t, o) => tk::encode_enum(*t, *o, buf),
        V::Vector(d) => tk::encode_vector(d, buf),
        V::Json(j) => {
            let jv = to_jv(j, bump);
            tk::encode_json(&jv, buf)
        }
        _ => return false,
    }
    true
}

fn enc_v(v: &V, buf: &mut Vec<u8>, bump: &Bump, via: bool) {
    if enc_flat(v, buf, bump, via) {
        return;
    }
    match v {
        V::Array(es) => tk::encode_array(es, buf, |e, b| enc_v(e, b, bump, via)),
        V::Tuple(es) => tk::encode_tuple(es, buf, |e, b| enc_v(e, b, bump, via)),
        V::Composite(t, fs) => tk::encode_composite(*t, fs, buf, |e, b| enc_v(e, b, bump, via)),
        V::Domain(t, inner) => tk::encode_domain(*t, &**inner, buf, |e, b| enc_v(e, b, bump, via)),
        V::Range { lo, hi, li, ui } => {
            tk::encode_range(lo.as_deref(), hi.as_deref(), *li, *ui, buf, |e: &V, b| enc_v(e, b, bump, via))
        }
        _ => unreachable!(),
    }
}

/// concatenation of the column encodings = a composite index key; `offs` gets the column ends
fn enc_key(k: &[V], buf: &mut Vec<u8>, offs: &mut Vec<usize>, bump: &Bump, via: bool) {
    for v in k {
        enc_v(v, buf, bump, via);
        offs.push(buf.len());
    }
}

// ---------------------------------------------------------------------------------------------
// decoded value vs original
// ---------------------------------------------------------------------------------------------

fn f64_ok(a: f64, x: f64) -> bool {
    a.to_bits() == x.to_bits() || (a == 0.0 && x == 0.0) || (a.is_nan() && x.is_nan())
}
fn f32_ok(a: f32, x: f32) -> bool {
    a.to_bits() == x.to_bits() || (a == 0.0 && x == 0.0) || (a.is_nan() && x.is_nan())
}

fn jmatches(j: &J, d: &DecodedJson) -> bool {
    match (j, d) {
        (J::Null, DecodedJson::Null) => true,
        (J::Bool(a), DecodedJson::Bool(b)) => a == b,
        (J::Num(a), DecodedJson::Number(b)) => f64_ok(*a, *b),
        (J::Str(a), DecodedJson::String(b)) => a == b,
        (J::Arr(a), DecodedJson::Array(b)) => a.len() == b.len() && a.iter().zip(b).all(|(x, y)| jmatches(x, y)),
        (J::Obj(a), DecodedJson::Object(b)) => {
            a.len() == b.len() && a.iter().zip(b).all(|((k1, x), (k2, y))| k1 == k2 && jmatches(x, y))
        }
        _ => false,
    }
}

/// `decode(enc(v)) == v` up to the documented zero canonicalisation (int 0 / float +-0.0 decode as
/// Int(0)); +-inf and NaN decode to their own variants.
fn matches(v: &V, d: &DecodedKey) -> bool {
    match (v, d) {
        (V::Null, DecodedKey::Null) => true,
        (V::Bool(a), DecodedKey::Bool(b)) => a == b,
        (V::Int(a), DecodedKey::Int(b)) => a == b,
        (V::Float(f), d) => {
            if f.is_nan() {
                matches!(d, DecodedKey::Nan)
            } else if *f == f64::INFINITY {
                matches!(d, DecodedKey::PosInfinity)
            } else if *f == f64::NEG_INFINITY {
                matches!(d, DecodedKey::NegInfinity)
            } else if *f == 0.0 {
                matches!(d, DecodedKey::Int(0))
            } else {
                matches!(d, DecodedKey::Float(x) if x.to_bits() == f.to_bits())
            }
        }
        (V::Text(a), DecodedKey::Text(b)) => a == b,
        (V::Blob(a), DecodedKey::Blob(b)) => a == b,
        (V::Date(a), DecodedKey::Date(b)) => a == b,
        (V::Time(a), DecodedKey::Time(b)) => a == b,
        (V::Timestamp(a), DecodedKey::Timestamp(b)) => a == b,
        (V::TimestampTz(m, tz), DecodedKey::TimestampTz { micros, tz_offset_mins }) => m == micros && tz == tz_offset_mins,
        (V::Interval(mo, dd, us), DecodedKey::Interval { months, days, micros }) => mo == months && dd == days && us == micros,
        (V::Uuid(a), DecodedKey::Uuid(b)) => a == b,
        (V::Inet(v6, addr, pl), DecodedKey::Inet { is_ipv6, addr: a2, prefix_len }) => v6 == is_ipv6 && addr == a2 && pl == prefix_len,
        (V::Mac(a), DecodedKey::MacAddr(b)) => a == b,
        (V::Enum(t, o), DecodedKey::Enum { type_id, ordinal }) => t == type_id && o == ordinal,
        (V::Vector(a), DecodedKey::Vector(b)) => a.len() == b.len() && a.iter().zip(b).all(|(x, y)| f32_ok(*x, *y)),
        (V::Json(j), DecodedKey::Json(dj)) => jmatches(j, dj),
        (V::Array(a), DecodedKey::Array(b)) | (V::Tuple(a), DecodedKey::Tuple(b)) => {
            a.len() == b.len() && a.iter().zip(b).all(|(x, y)| matches(x, y))
        }
        (V::Composite(t, a), DecodedKey::Composite { type_id, fields }) => {
            t == type_id && a.len() == fields.len() && a.iter().zip(fields).all(|(x, y)| matches(x, y))
        }
        (V::Domain(t, inner), DecodedKey::Domain { type_id, value }) => t == type_id && matches(inner, value),
        (V::Range { lo, hi, li, ui }, DecodedKey::Range { lower, upper, lower_inclusive, upper_inclusive }) => {
            let ob = |a: &Option<Box<V>>, b: &Option<Box<DecodedKey>>| match (a, b) {
                (None, None) => true,
                (Some(x), Some(y)) => matches(x, y),
                _ => false,
            };
            li == lower_inclusive && ui == upper_inclusive && ob(lo, lower) && ob(hi, upper)
        }
        _ => false,
    }
}

fn j_from_decoded(d: &DecodedJson) -> J {
    match d {
        DecodedJson::Null => J::Null,
        DecodedJson::Bool(b) => J::Bool(*b),
        DecodedJson::Number(n) => J::Num(*n),
        DecodedJson::String(s) => J::Str(s.clone()),
        DecodedJson::Array(xs) => J::Arr(xs.iter().map(j_from_decoded).collect()),
        DecodedJson::Object(es) => J::Obj(es.iter().map(|(k, x)| (k.clone(), j_from_decoded(x))).collect()),
    }
}

/// the value a decoded key denotes (used to build the "twin" of a value that failed to round-trip:
/// if the twin is a different value with the same key, injectivity is broken too)
fn from_decoded(d: &DecodedKey) -> V {
    match d {
        DecodedKey::Null => V::Null,
        DecodedKey::Bool(b) => V::Bool(*b),
        DecodedKey::Int(n) => V::Int(*n),
        DecodedKey::Float(f) => V::Float(*f),
        DecodedKey::NegInfinity => V::Float(f64::NEG_INFINITY),
        DecodedKey::PosInfinity => V::Float(f64::INFINITY),
        DecodedKey::Nan => V::Float(f64::NAN),
        DecodedKey::Text(s) => V::Text(s.clone()),
        DecodedKey::Blob(b) => V::Blob(b.clone()),
        DecodedKey::Date(x) => V::Date(*x),
        DecodedKey::Time(x) => V::Time(*x),
        DecodedKey::Timestamp(x) => V::Timestamp(*x),
        DecodedKey::TimestampTz { micros, tz_offset_mins } => V::TimestampTz(*micros, *tz_offset_mins),
        DecodedKey::Interval { months, days, micros } => V::Interval(*months, *days, *micros),
        DecodedKey::Uuid(u) => V::Uuid(*u),
        DecodedKey::Inet { is_ipv6, addr, prefix_len } => V::Inet(*is_ipv6, addr.clone(), *prefix_len),
        DecodedKey::MacAddr(m) => V::Mac(*m),
        DecodedKey::Array(xs) => V::Array(xs.iter().map(from_decoded).collect()),
        DecodedKey::Tuple(xs) => V::Tuple(xs.iter().map(from_decoded).collect()),
        DecodedKey::Range { lower, upper, lower_inclusive, upper_inclusive } => V::Range {
            lo: lower.as_ref().map(|b| Box::new(from_decoded(b))),
            hi: upper.as_ref().map(|b| Box::new(from_decoded(b))),
            li: *lower_inclusive,
            ui: *upper_inclusive,
        },
        DecodedKey::Enum { type_id, ordinal } => V::Enum(*type_id, *ordinal),
        DecodedKey::Composite { type_id, fields } => V::Composite(*type_id, fields.iter().map(from_decoded).collect()),
        DecodedKey::Domain { type_id, value } => V::Domain(*type_id, Box::new(from_decoded(value))),
        DecodedKey::Vector(d) => V::Vector(d.clone()),
        DecodedKey::Json(j) => V::Json(j_from_decoded(j)),
    }
}

// ---------------------------------------------------------------------------------------------
// the documented order, defined independently of the crate
// ---------------------------------------------------------------------------------------------

#[derive(Clone, Copy, PartialEq, Eq, Debug)]
enum Rel {
    Lt,       // enc(a) < enc(b) required
    Gt,       // enc(a) > enc(b) required
    Same,     // same value (or documented sharing): keys must be equal
    Distinct, // different values, no documented order: keys must differ
    Free,     // nothing promised
}

fn from_ord(o: Ordering) -> Rel {
    match o {
        Ordering::Less => Rel::Lt,
        Ordering::Greater => Rel::Gt,
        Ordering::Equal => Rel::Same,
    }
}

fn jident(a: &J, b: &J) -> bool {
    match (a, b) {
        (J::Null, J::Null) => true,
        (J::Bool(x), J::Bool(y)) => x == y,
        (J::Num(x), J::Num(y)) => x.to_bits() == y.to_bits(),
        (J::Str(x), J::Str(y)) => x == y,
        (J::Arr(x), J::Arr(y)) => x.len() == y.len() && x.iter().zip(y).all(|(p, q)| jident(p, q)),
        (J::Obj(x), J::Obj(y)) => x.len() == y.len() && x.iter().zip(y).all(|((k1, p), (k2, q))| k1 == k2 && jident(p, q)),
        _ => false,
    }
}

/// bit-for-bit structural identity
fn ident(a: &V, b: &V) -> bool {
    let ob = |x: &Option<Box<V>>, y: &Option<Box<V>>| match (x, y) {
        (None, None) => true,
        (Some(p), Some(q)) => ident(p, q),
        _ => false,
    };
    match (a, b) {
        (V::Null, V::Null) => true,
        (V::Bool(x), V::Bool(y)) => x == y,
        (V::Int(x), V::Int(y)) => x == y,
        (V::Float(x), V::Float(y)) => x.to_bits() == y.to_bits(),
        (V::Text(x), V::Text(y)) => x == y,
        (V::Blob(x), V::Blob(y)) => x == y,
        (V::Date(x), V::Date(y)) => x == y,
        (V::Time(x), V::Time(y)) => x == y,
        (V::Timestamp(x), V::Timestamp(y)) => x == y,
        (V::TimestampTz(x, t), V::TimestampTz(y, u)) => x == y && t == u,
        (V::Interval(a1, a2, a3), V::Interval(b1, b2, b3)) => a1 == b1 && a2 == b2 && a3 == b3,
        (V::Uuid(x), V::Uuid(y)) => x == y,
        (V::Inet(f, x, p), V::Inet(g, y, q)) => f == g && x == y && p == q,
        (V::Mac(x), V::Mac(y)) => x == y,
        (V::Enum(t, o), V::Enum(u, p)) => t == u && o == p,
        (V::Vector(x), V::Vector(y)) => x.len() == y.len() && x.iter().zip(y).all(|(p, q)| p.to_bits() == q.to_bits()),
        (V::Json(x), V::Json(y)) => jident(x, y),
        (V::Array(x), V::Array(y)) | (V::Tuple(x), V::Tuple(y)) => x.len() == y.len() && x.iter().zip(y).all(|(p, q)| ident(p, q)),
        (V::Composite(t, x), V::Composite(u, y)) => t == u && x.len() == y.len() && x.iter().zip(y).all(|(p, q)| ident(p, q)),
        (V::Domain(t, x), V::Domain(u, y)) => t == u && ident(x, y),
        (V::Range { lo, hi, li, ui }, V::Range { lo: lo2, hi: hi2, li: li2, ui: ui2 }) => li == li2 && ui == ui2 && ob(lo, lo2) && ob(hi, hi2),
        _ => false,
    }
}

/// documented cross-type ranking ("Type Prefix Scheme" table of the module docs):
/// NULL < booleans < numbers < strings (TEXT < BLOB) < date/time < special (UUID, INET, MACADDR)
/// < JSON < composite (ARRAY, TUPLE, RANGE, ENUM, COMPOSITE, DOMAIN) < VECTOR
fn rank(v: &V) -> (u8, u8) {
    match v {
        V::Null => (0, 0),
        V::Bool(_) => (1, 0),
        V::Int(_) | V::Float(_) => (2, 0),
        V::Text(_) => (3, 0),
        V::Blob(_) => (3, 1),
        V::Date(_) => (4, 0),
        V::Time(_) => (4, 1),
        V::Timestamp(_) => (4, 2),
        V::TimestampTz(..) => (4, 3),
        V::Interval(..) => (4, 4),
        V::Uuid(_) => (5, 0),
        V::Inet(..) => (5, 1),
        V::Mac(_) => (5, 2),
        V::Json(_) => (6, 0),
        V::Array(_) => (7, 0),
        V::Tuple(_) => (7, 1),
        V::Range { .. } => (7, 2),
        V::Enum(..) => (7, 3),
        V::Composite(..) => (7, 4),
        V::Domain(..) => (7, 5),
        V::Vector(_) => (8, 0),
    }
}

/// documented first-byte range per type group
fn prefix_range(v: &V) -> (u8, u8) {
    match rank(v).0 {
        0 => (0x01, 0x01),
        1 => (0x02, 0x03),
        2 => (0x10, 0x19),
        3 => (0x20, 0x21),
        4 => (0x30, 0x34),
        5 => (0x40, 0x42),
        6 => (0x50, 0x56),
        7 => (0x60, 0x65),
        _ => (0x70, 0x70),
    }
}

/// -inf 0 < negatives 1 < zero 2 < positives 3 < +inf 4 < NaN 5
fn numclass(v: &V) -> u8 {
    match v {
        V::Int(n) => {
            if *n < 0 { 1 } else if *n == 0 { 2 } else { 3 }
        }
        V::Float(f) => {
            if f.is_nan() { 5 } else if *f == f64::NEG_INFINITY { 0 } else if *f == f64::INFINITY { 4 } else if *f < 0.0 { 1 } else if *f == 0.0 { 2 } else { 3 }
        }
        _ => unreachable!(),
    }
}

/// exact comparison of an i64 with a finite f64
fn cmp_i64_f64(i: i64, f: f64) -> Ordering {
    if f >= 9223372036854775808.0 {
        return Ordering::Less;
    }
    if f < -9223372036854775808.0 {
        return Ordering::Greater;
    }
    let t = f.trunc();
    let ti = t as i64;
    match i.cmp(&ti) {
        Ordering::Equal => {
            let frac = f - t;
            if frac > 0.0 { Ordering::Less } else if frac < 0.0 { Ordering::Greater } else { Ordering::Equal }
        }
        o => o,
    }
}

#[derive(Default)]
struct Note {
    /// the deciding position was an int vs a float of the same sign class: numeric order (a vs b)
    mixed: Option<Ordering>,
}

fn rel_seq<T>(xs: &[T], ys: &[T], mut f: impl FnMut(&T, &T) -> Rel) -> Rel {
    for (x, y) in xs.iter().zip(ys) {
        let r = f(x, y);
        if r != Rel::Same {
            return r;
        }
    }
    from_ord(xs.len().cmp(&ys.len()))
}

fn jrank(j: &J) -> u8 {
    match j {
        J::Null => 0,
        J::Bool(false) => 1,
        J::Bool(true) => 2,
        J::Num(_) => 3,
        J::Str(_) => 4,
        J::Arr(_) => 5,
        J::Obj(_) => 6,
    }
}

fn jrel(a: &J, b: &J) -> Rel {
    if jident(a, b) {
        return Rel::Same;
    }
    let (ra, rb) = (jrank(a), jrank(b));
    if ra != rb {
        return from_ord(ra.cmp(&rb));
    }
    match (a, b) {
        (J::Num(x), J::Num(y)) => {
            if !x.is_finite() || !y.is_finite() {
                return Rel::Free; // not JSON numbers: nothing documented
            }
            match x.partial_cmp(y) {
                Some(Ordering::Less) => Rel::Lt,
                Some(Ordering::Greater) => Rel::Gt,
                _ => Rel::Free, // -0.0 vs +0.0: equal numbers, sharing not documented for JSON
            }
        }
        (J::Str(x), J::Str(y)) => from_ord(x.as_bytes().cmp(y.as_bytes())),
        (J::Arr(x), J::Arr(y)) => rel_seq(x, y, |p, q| jrel(p, q)),
        (J::Obj(x), J::Obj(y)) => {
            // same key sequence: decided by the first differing value; different key *sets*:
            // different values; same keys in another order: equal as JSON values, nothing promised
            if x.len() == y.len() && x.iter().zip(y).all(|((k1, _), (k2, _))| k1 == k2) {
                for ((_, p), (_, q)) in x.iter().zip(y) {
                    match jrel(p, q) {
                        Rel::Same => {}
                        Rel::Free => return Rel::Free,
                        _ => return Rel::Distinct,
                    }
                }
                Rel::Same
            } else {
                let mut k1: Vec<&str> = x.iter().map(|e| e.0.as_str()).collect();
                let mut k2: Vec<&str> = y.iter().map(|e| e.0.as_str()).collect();
                k1.sort();
                k2.sort();
                if k1 != k2 { Rel::Distinct } else { Rel::Free }
            }
        }
        _ => Rel::Free,
    }
}

/// the documented relation between two values
fn rel(a: &V, b: &V, note: &mut Note) -> Rel {
    if ident(a, b) {
        return Rel::Same;
    }
    let (ra, rb) = (rank(a), rank(b));
    if ra != rb {
        return from_ord(ra.cmp(&rb));
    }
    let bound = |x: &Option<Box<V>>, y: &Option<Box<V>>, note: &mut Note| -> Option<Rel> {
        match (x, y) {
            (None, None) => Some(Rel::Same),
            (Some(p), Some(q)) => Some(rel(p, q, note)),
            _ => None,
        }
    };
    match (a, b) {
        (V::Int(_) | V::Float(_), V::Int(_) | V::Float(_)) => {
            let (ca, cb) = (numclass(a), numclass(b));
            if ca != cb {
                return from_ord(ca.cmp(&cb));
            }
            match (a, b) {
                (V::Int(x), V::Int(y)) => from_ord(x.cmp(y)),
                (V::Float(x), V::Float(y)) => match ca {
                    1 | 3 => from_ord(x.partial_cmp(y).unwrap()),
                    5 => Rel::Free, // NaN payloads
                    _ => Rel::Same, // +-0.0, equal infinities
                },
                (V::Int(x), V::Float(y)) => {
                    if ca == 2 {
                        Rel::Same // documented: int 0 and float 0.0 share the ZERO key
                    } else {
                        note.mixed = Some(cmp_i64_f64(*x, *y));
                        Rel::Free
                    }
                }
                (V::Float(x), V::Int(y)) => {
                    if ca == 2 {
                        Rel::Same
                    } else {
                        note.mixed = Some(cmp_i64_f64(*y, *x).reverse());
                        Rel::Free
                    }
                }
                _ => unreachable!(),
            }
        }
        (V::Bool(x), V::Bool(y)) => from_ord(x.cmp(y)),
        (V::Text(x), V::Text(y)) => from_ord(x.as_bytes().cmp(y.as_bytes())),
        (V::Blob(x), V::Blob(y)) => from_ord(x.cmp(y)),
        (V::Date(x), V::Date(y)) => from_ord(x.cmp(y)),
        (V::Time(x), V::Time(y)) => from_ord(x.cmp(y)),
        (V::Timestamp(x), V::Timestamp(y)) => from_ord(x.cmp(y)),
        (V::TimestampTz(x, _), V::TimestampTz(y, _)) => {
            if x != y { from_ord(x.cmp(y)) } else { Rel::Distinct }
        }
        (V::Interval(a1, a2, a3), V::Interval(b1, b2, b3)) => {
            let le = a1 <= b1 && a2 <= b2 && a3 <= b3;
            let ge = a1 >= b1 && a2 >= b2 && a3 >= b3;
            if le { Rel::Lt } else if ge { Rel::Gt } else { Rel::Distinct }
        }
        (V::Uuid(x), V::Uuid(y)) => from_ord(x.cmp(y)),
        (V::Mac(x), V::Mac(y)) => from_ord(x.cmp(y)),
        (V::Inet(..), V::Inet(..)) => Rel::Distinct,
        (V::Enum(t, o), V::Enum(u, p)) => {
            if t == u { from_ord(o.cmp(p)) } else { Rel::Distinct }
        }
        (V::Vector(x), V::Vector(y)) => {
            if x.len() != y.len() {
                return Rel::Distinct;
            }
            let definitely = x.iter().zip(y).any(|(p, q)| (p.is_nan() != q.is_nan()) || (!p.is_nan() && !q.is_nan() && p != q));
            if definitely { Rel::Distinct } else { Rel::Free }
        }
        (V::Json(x), V::Json(y)) => jrel(x, y),
        (V::Array(x), V::Array(y)) | (V::Tuple(x), V::Tuple(y)) => rel_seq(x, y, |p, q| rel(p, q, note)),
        (V::Composite(t, x), V::Composite(u, y)) => {
            if t != u { Rel::Distinct } else { rel_seq(x, y, |p, q| rel(p, q, note)) }
        }
        (V::Domain(t, x), V::Domain(u, y)) => {
            if t != u { Rel::Distinct } else { rel(x, y, note) }
        }
        (V::Range { lo, hi, li, ui }, V::Range { lo: lo2, hi: hi2, li: li2, ui: ui2 }) => {
            let mut free = false;
            if li != li2 {
                if lo.is_some() || lo2.is_some() { return Rel::Distinct } else { free = true }
            }
            if ui != ui2 {
                if hi.is_some() || hi2.is_some() { return Rel::Distinct } else { free = true }
            }
            for (p, q) in [(lo, lo2), (hi, hi2)] {
                match bound(p, q, note) {
                    None => return Rel::Distinct,
                    Some(Rel::Same) => {}
                    Some(Rel::Free) => return Rel::Free,
                    Some(_) => return Rel::Distinct,
                }
            }
            if free { Rel::Free } else { Rel::Same }
        }
        _ => Rel::Free,
    }
}

/// composite keys: column by column; a key that is a proper column-prefix of another sorts first
fn rel_key(a: &[V], b: &[V], note: &mut Note) -> (Rel, usize) {
    for (i, (x, y)) in a.iter().zip(b).enumerate() {
        let r = rel(x, y, note);
        if r != Rel::Same {
            return (r, i);
        }
    }
    (from_ord(a.len().cmp(&b.len())), a.len().min(b.len()))
}

// ---------------------------------------------------------------------------------------------
// the checks
// ---------------------------------------------------------------------------------------------

#[derive(Clone, Debug)]
struct Fail {
    assertion: &'static str,
    kind: String,
    info: String,
}

fn fail(assertion: &'static str, kind: &str, info: String) -> Option<Fail> {
    Some(Fail { assertion, kind: kind.to_string(), info })
}

fn hex(b: &[u8]) -> String {
    let mut s = String::with_capacity(b.len() * 2);
    for x in b.iter().take(96) {
        s.push_str(&format!("{:02x}", x));
    }
    if b.len() > 96 {
        s.push_str("..");
    }
    s
}

/// error text without the concrete byte values, for signatures
fn err_class(e: &str) -> String {
    let e = e.split(':').next().unwrap_or(e);
    e.trim().replace(' ', "_")
}

struct KeyOut {
    enc: Vec<u8>,
    decoded: Option<Vec<DecodedKey>>,
    fail: Option<Fail>,
}

/// encode one (composite) key through the real code, decode it column by column, compare
fn check_key(k: &[V], bump: &Bump, alt: bool) -> KeyOut {
    let mut enc = Vec::with_capacity(32);
    let mut offs = Vec::with_capacity(k.len());
    let r = catch(|| {
        enc_key(k, &mut enc, &mut offs, bump, false);
    });
    if let Err(p) = r {
        return KeyOut { enc, decoded: None, fail: fail("no_panic", &format!("encode@{}", panic_site(&p)), p) };
    }
    // documented first-byte range of every column, and everything below the MAX_KEY sentinel
    let mut start = 0;
    for (v, end) in k.iter().zip(&offs) {
        let (lo, hi) = prefix_range(v);
        if *end <= start || enc[start] < lo || enc[start] > hi || enc[start] == 0xFF {
            let f = fail("prefix_range", "first_byte_outside_documented_range", format!("first byte {:02x?} expected {:02x}..={:02x}", enc.get(start), lo, hi));
            return KeyOut { enc, decoded: None, fail: f };
        }
        start = *end;
    }
    if alt {
        // encode_value path and a SmallVec buffer must give the same bytes
        let r = catch(|| {
            let mut e2 = Vec::with_capacity(enc.len());
            let mut o2 = vec![];
            enc_key(k, &mut e2, &mut o2, bump, true);
            let mut sv_ok = true;
            let mut start = 0;
            for (v, end) in k.iter().zip(&offs) {
                let mut sv: SmallVec<[u8; 24]> = SmallVec::new();
                if enc_flat(v, &mut sv, bump, false) && sv.as_slice() != &enc[start..*end] {
                    sv_ok = false;
                }
                start = *end;
            }
            (e2, sv_ok)
        });
        match r {
            Err(p) => return KeyOut { enc, decoded: None, fail: fail("no_panic", &format!("encode_alt@{}", panic_site(&p)), p) },
            Ok((e2, sv_ok)) => {
                if e2 != enc {
                    let f = fail("alt_paths_agree", "encode_value_differs_from_encode_fn", format!("{} vs {}", hex(&e2), hex(&enc)));
                    return KeyOut { enc, decoded: None, fail: f };
                }
                if !sv_ok {
                    let f = fail("alt_paths_agree", "smallvec_buffer_differs", hex(&enc));
                    return KeyOut { enc, decoded: None, fail: f };
                }
            }
        }
    }
    // decode column by column
    let r = catch(|| {
        let mut out: Vec<Result<(DecodedKey, usize), String>> = Vec::with_capacity(k.len());
        let mut off = 0;
        for end in &offs {
            // the decoder sees the rest of the composite key, as an index scan would
            match tk::decode_key(&enc[off..]) {
                Ok((d, used)) => out.push(Ok((d, used))),
                Err(e) => out.push(Err(e.to_string())),
            }
            off = *end;
        }
        out
    });
    let out = match r {
        Err(p) => return KeyOut { enc, decoded: None, fail: fail("no_panic", &format!("decode@{}", panic_site(&p)), p) },
        Ok(o) => o,
    };
    let mut decoded = Vec::with_capacity(k.len());
    let mut f = None;
    let mut start = 0;
    for ((v, end), r) in k.iter().zip(&offs).zip(out) {
        match r {
            Err(e) => {
                f = f.or(fail("decode_round_trip", &format!("err:{}", err_class(&e)), e));
            }
            Ok((d, used)) => {
                if used != end - start {
                    f = f.or(fail("decode_round_trip", "consumed", format!("consumed {} of a {}-byte column; decoded {:?}", used, end - start, d)));
                } else if !matches(v, &d) {
                    f = f.or(fail("decode_round_trip", "value", format!("decoded {:?}", d)));
                }
                decoded.push(d);
            }
        }
        start = *end;
    }
    let decoded = if decoded.len() == k.len() { Some(decoded) } else { None };
    KeyOut { enc, decoded, fail: f }
}

struct PairOut {
    rel: Rel,
    col: usize,
    fail: Option<Fail>,
    mixed_disagree: Option<bool>,
}

/// compare the two encodings against the documented relation
fn judge(a: &[V], b: &[V], ea: &[u8], eb: &[u8]) -> PairOut {
    let mut note = Note::default();
    let (r, col) = rel_key(a, b, &mut note);
    let c = ea.cmp(eb);
    let multi = a.len() > 1 || b.len() > 1;
    let ord_name: &'static str = if multi { "composite_order" } else { "order_iso" };
    let info = || format!("memcmp={:?} documented={:?} at column {}; enc(a)={} enc(b)={}", c, r, col, hex(ea), hex(eb));
    let f = match r {
        Rel::Lt | Rel::Gt => {
            let want = if r == Rel::Lt { Ordering::Less } else { Ordering::Greater };
            if c == Ordering::Equal {
                fail("injective", "distinct_values_equal_keys", info())
            } else if c != want {
                fail(ord_name, "wrong_order", info())
            } else {
                None
            }
        }
        Rel::Same => {
            if c != Ordering::Equal { fail("deterministic", "same_value_unequal_keys", info()) } else { None }
        }
        Rel::Distinct => {
            if c == Ordering::Equal { fail("injective", "distinct_values_equal_keys", info()) } else { None }
        }
        Rel::Free => None,
    };
    let mixed_disagree = match (r, note.mixed) {
        (Rel::Free, Some(num)) => Some(num != c),
        _ => None,
    };
    PairOut { rel: r, col, fail: f, mixed_disagree }
}

fn encode_plain(k: &[V], bump: &Bump) -> Option<Vec<u8>> {
    let mut e = vec![];
    let mut o = vec![];
    catch(|| enc_key(k, &mut e, &mut o, bump, false)).ok()?;
    Some(e)
}

/// pair check from scratch (used by the shrinker)
fn pair_fails(a: &[V], b: &[V], bump: &Bump) -> Option<Fail> {
    let ea = encode_plain(a, bump)?;
    let eb = encode_plain(b, bump)?;
    judge(a, b, &ea, &eb).fail
}

// ---------------------------------------------------------------------------------------------
// shapes (for signatures) and shrinking (so that one defect gets one signature)
// ---------------------------------------------------------------------------------------------

fn fclass(neg: bool, nan: bool, inf: bool, zero: bool) -> &'static str {
    match (nan, inf, zero, neg) {
        (true, _, _, false) => "nan",
        (true, _, _, true) => "-nan",
        (_, true, _, false) => "inf",
        (_, true, _, true) => "-inf",
        (_, _, true, false) => "0",
        (_, _, true, true) => "-0",
        (_, _, _, false) => "+",
        (_, _, _, true) => "-",
    }
}
fn f64class(f: f64) -> &'static str {
    fclass(f.is_sign_negative(), f.is_nan(), f.is_infinite(), f == 0.0)
}
fn f32class(f: f32) -> &'static str {
    fclass(f.is_sign_negative(), f.is_nan(), f.is_infinite(), f == 0.0)
}
fn bytes_flags(b: &[u8]) -> String {
    let mut s = String::new();
    if b.is_empty() {
        s.push_str("{e}");
    }
    if b.first() == Some(&0) {
        s.push_str("{^00}");
    } else if b.contains(&0) {
        s.push_str("{00}");
    }
    if b.contains(&0xFF) {
        s.push_str("{ff}");
    }
    s
}
fn jshape(j: &J) -> String {
    match j {
        J::Null => "null".into(),
        J::Bool(_) => "bool".into(),
        J::Num(n) => format!("num:{}", f64class(*n)),
        J::Str(s) => format!("str{}", bytes_flags(s.as_bytes())),
        J::Arr(xs) => format!("arr[{}]", xs.iter().map(jshape).collect::<Vec<_>>().join(",")),
        J::Obj(es) => format!("obj{{{}}}", es.iter().map(|(k, x)| format!("k{}:{}", bytes_flags(k.as_bytes()), jshape(x))).collect::<Vec<_>>().join(",")),
    }
}
fn shape(v: &V) -> String {
    let seq = |xs: &[V]| xs.iter().map(shape).collect::<Vec<_>>().join(",");
    match v {
        V::Null => "null".into(),
        V::Bool(_) => "bool".into(),
        V::Int(n) => (if *n == 0 { "int0" } else if *n < 0 { "int-" } else { "int+" }).into(),
        V::Float(f) => format!("f64:{}", f64class(*f)),
        V::Text(s) => format!("text{}", bytes_flags(s.as_bytes())),
        V::Blob(b) => format!("blob{}", bytes_flags(b)),
        V::Date(_) => "date".into(),
        V::Time(_) => "time".into(),
        V::Timestamp(_) => "timestamp".into(),
        V::TimestampTz(..) => "timestamptz".into(),
        V::Interval(..) => "interval".into(),
        V::Uuid(_) => "uuid".into(),
        V::Inet(v6, _, _) => (if *v6 { "inet6" } else { "inet4" }).into(),
        V::Mac(_) => "macaddr".into(),
        V::Enum(..) => "enum".into(),
        V::Vector(d) => format!("vector[{}]", d.iter().map(|x| f32class(*x)).collect::<Vec<_>>().join(",")),
        V::Json(j) => format!("json:{}", jshape(j)),
        V::Array(xs) => format!("array[{}]", seq(xs)),
        V::Tuple(xs) => format!("tuple[{}]", seq(xs)),
        V::Composite(_, xs) => format!("composite[{}]", seq(xs)),
        V::Domain(_, x) => format!("domain[{}]", shape(x)),
        V::Range { lo, hi, .. } => format!("range[{};{}]", lo.as_ref().map(|x| shape(x)).unwrap_or_default(), hi.as_ref().map(|x| shape(x)).unwrap_or_default()),
    }
}
fn key_shape(k: &[V]) -> String {
    format!("({})", k.iter().map(shape).collect::<Vec<_>>().join(","))
}

fn w_int(n: i64) -> u64 {
    match n {
        0 => 1,
        1 | -1 => 2,
        _ => 3,
    }
}
fn w_f64(f: f64) -> u64 {
    let b = f.to_bits();
    if b == 0 {
        1
    } else if f == 1.0 || f == -1.0 {
        2
    } else if b == 0x7ff8_0000_0000_0000 || b == 0xfff8_0000_0000_0000 || b == 0x8000_0000_0000_0000 {
        3
    } else {
        4
    }
}
fn w_f32(f: f32) -> u64 {
    let b = f.to_bits();
    if b == 0 {
        1
    } else if f == 1.0 || f == -1.0 {
        2
    } else if b == 0x7fc0_0000 || b == 0xffc0_0000 || b == 0x8000_0000 {
        3
    } else {
        4
    }
}
fn w_bytes(b: &[u8]) -> u64 {
    1 + b.iter().map(|x| if *x == b'a' { 2 } else { 3 }).sum::<u64>()
}
fn w_str(s: &str) -> u64 {
    1 + s.chars().map(|c| if c == 'a' { 2 } else { 3 }).sum::<u64>()
}
fn jweight(j: &J) -> u64 {
    match j {
        J::Null => 1,
        J::Bool(b) => 2 + *b as u64,
        J::Num(n) => 1 + w_f64(*n),
        J::Str(s) => 1 + w_str(s),
        J::Arr(xs) => 3 + xs.iter().map(jweight).sum::<u64>(),
        J::Obj(es) => 3 + es.iter().map(|(k, x)| w_str(k) + jweight(x)).sum::<u64>(),
    }
}
fn weight(v: &V) -> u64 {
    if matches!(v, V::Null) { 1 } else { 1 + weight_inner(v) }
}
fn weight_inner(v: &V) -> u64 {
    let seq = |xs: &[V]| xs.iter().map(weight).sum::<u64>();
    match v {
        V::Null => 1,
        V::Bool(b) => 1 + *b as u64,
        V::Int(n) => w_int(*n),
        V::Float(f) => w_f64(*f),
        V::Text(s) => w_str(s),
        V::Blob(b) => w_bytes(b),
        V::Date(d) => w_int(*d as i64),
        V::Time(t) | V::Timestamp(t) => w_int(*t),
        V::TimestampTz(m, tz) => w_int(*m) + w_int(*tz as i64),
        V::Interval(a, b, c) => w_int(*a as i64) + w_int(*b as i64) + w_int(*c),
        V::Uuid(u) => 1 + u.iter().filter(|x| **x != 0).count() as u64,
        V::Inet(v6, addr, pl) => 1 + 20 * *v6 as u64 + addr.iter().filter(|x| **x != 0).count() as u64 + (*pl != 0) as u64,
        V::Mac(m) => 1 + m.iter().filter(|x| **x != 0).count() as u64,
        V::Enum(t, o) => 1 + (*t != 0) as u64 + w_int(*o as i64),
        V::Vector(d) => 2 + d.iter().map(|x| w_f32(*x)).sum::<u64>(),
        V::Json(j) => 1 + jweight(j),
        V::Array(xs) | V::Tuple(xs) => 2 + seq(xs),
        V::Composite(t, xs) => 2 + (*t != 0) as u64 + seq(xs),
        V::Domain(t, x) => 2 + (*t != 0) as u64 + weight(x),
        V::Range { lo, hi, li, ui } => 2 + *li as u64 + *ui as u64 + lo.as_ref().map(|x| weight(x)).unwrap_or(0) + hi.as_ref().map(|x| weight(x)).unwrap_or(0),
    }
}

fn sh_int(n: i64) -> Vec<i64> {
    [0, 1, -1, n / 2].into_iter().filter(|x| *x != n).collect()
}
fn sh_f64(f: f64) -> Vec<f64> {
    [0.0, 1.0, -1.0, f64::from_bits(0x7ff8_0000_0000_0000), f64::from_bits(0xfff8_0000_0000_0000), -0.0].into_iter().filter(|x| x.to_bits() != f.to_bits()).collect()
}
fn sh_f32(f: f32) -> Vec<f32> {
    [0.0, 1.0, -1.0, f32::from_bits(0x7fc0_0000), f32::from_bits(0xffc0_0000), -0.0].into_iter().filter(|x| x.to_bits() != f.to_bits()).collect()
}
fn sh_str(s: &str) -> Vec<String> {
    let cs: Vec<char> = s.chars().collect();
    let mut out = vec![];
    for i in 0..cs.len() {
        let mut c = cs.clone();
        c.remove(i);
        out.push(c.into_iter().collect());
    }
    for i in 0..cs.len() {
        if cs[i] != 'a' {
            let mut c = cs.clone();
            c[i] = 'a';
            out.push(c.into_iter().collect());
        }
    }
    out
}
fn sh_bytes(b: &[u8]) -> Vec<Vec<u8>> {
    let mut out = vec![];
    for i in 0..b.len() {
        let mut c = b.to_vec();
        c.remove(i);
        out.push(c);
    }
    for i in 0..b.len() {
        if b[i] != b'a' {
            let mut c = b.to_vec();
            c[i] = b'a';
            out.push(c);
        }
    }
    out
}
fn sh_zero_bytes<const N: usize>(b: &[u8; N]) -> Vec<[u8; N]> {
    let mut out = vec![];
    if b.iter().any(|x| *x != 0) {
        out.push([0u8; N]);
    }
    for i in 0..N {
        if b[i] != 0 {
            let mut c = *b;
            c[i] = 0;
            out.push(c);
        }
    }
    out
}
fn sh_seq<T: Clone>(xs: &[T], sh: impl Fn(&T) -> Vec<T>) -> Vec<Vec<T>> {
    let mut out = vec![];
    for i in 0..xs.len() {
        let mut c = xs.to_vec();
        c.remove(i);
        out.push(c);
    }
    for i in 0..xs.len() {
        for s in sh(&xs[i]) {
            let mut c = xs.to_vec();
            c[i] = s;
            out.push(c);
        }
    }
    out
}
fn jshrinks(j: &J) -> Vec<J> {
    let mut out = jshrinks_inner(j);
    if !matches!(j, J::Null) {
        out.insert(0, J::Null);
    }
    out
}
fn jshrinks_inner(j: &J) -> Vec<J> {
    match j {
        J::Null => vec![],
        J::Bool(b) => if *b { vec![J::Bool(false)] } else { vec![] },
        J::Num(n) => sh_f64(*n).into_iter().filter(|x| x.is_finite()).map(J::Num).collect(),
        J::Str(s) => sh_str(s).into_iter().map(J::Str).collect(),
        J::Arr(xs) => {
            let mut out: Vec<J> = xs.clone();
            out.extend(sh_seq(xs, jshrinks).into_iter().map(J::Arr));
            out
        }
        J::Obj(es) => {
            let mut out: Vec<J> = es.iter().map(|e| e.1.clone()).collect();
            let cands = sh_seq(es, |(k, x)| {
                let mut v: Vec<(String, J)> = sh_str(k).into_iter().map(|k2| (k2, x.clone())).collect();
                v.extend(jshrinks(x).into_iter().map(|x2| (k.clone(), x2)));
                v
            });
            for c in cands {
                // keys stay distinct
                let mut ks: Vec<&str> = c.iter().map(|e| e.0.as_str()).collect();
                ks.sort();
                ks.dedup();
                if ks.len() == c.len() {
                    out.push(J::Obj(c));
                }
            }
            out
        }
    }
}
fn shrinks(v: &V) -> Vec<V> {
    let mut out = shrinks_inner(v);
    if !matches!(v, V::Null) {
        out.push(V::Null); // last resort: the type does not matter for the failure
    }
    out
}
fn shrinks_inner(v: &V) -> Vec<V> {
    match v {
        V::Null => vec![],
        V::Bool(b) => if *b { vec![V::Bool(false)] } else { vec![] },
        V::Int(n) => sh_int(*n).into_iter().map(V::Int).collect(),
        V::Float(f) => sh_f64(*f).into_iter().map(V::Float).collect(),
        V::Text(s) => sh_str(s).into_iter().map(V::Text).collect(),
        V::Blob(b) => sh_bytes(b).into_iter().map(V::Blob).collect(),
        V::Date(d) => sh_int(*d as i64).into_iter().map(|x| V::Date(x as i32)).collect(),
        V::Time(t) => sh_int(*t).into_iter().map(V::Time).collect(),
        V::Timestamp(t) => sh_int(*t).into_iter().map(V::Timestamp).collect(),
        V::TimestampTz(m, tz) => {
            let mut out: Vec<V> = sh_int(*m).into_iter().map(|x| V::TimestampTz(x, *tz)).collect();
            out.extend(sh_int(*tz as i64).into_iter().map(|x| V::TimestampTz(*m, x as i16)));
            out
        }
        V::Interval(a, b, c) => {
            let mut out: Vec<V> = sh_int(*a as i64).into_iter().map(|x| V::Interval(x as i32, *b, *c)).collect();
            out.extend(sh_int(*b as i64).into_iter().map(|x| V::Interval(*a, x as i32, *c)));
            out.extend(sh_int(*c).into_iter().map(|x| V::Interval(*a, *b, x)));
            out
        }
        V::Uuid(u) => sh_zero_bytes(u).into_iter().map(V::Uuid).collect(),
        V::Mac(m) => sh_zero_bytes(m).into_iter().map(V::Mac).collect(),
        V::Inet(v6, addr, pl) => {
            let mut out = vec![];
            if *v6 {
                out.push(V::Inet(false, addr[..4].to_vec(), *pl));
            }
            if *pl != 0 {
                out.push(V::Inet(*v6, addr.clone(), 0));
            }
            for i in 0..addr.len() {
                if addr[i] != 0 {
                    let mut c = addr.clone();
                    c[i] = 0;
                    out.push(V::Inet(*v6, c, *pl));
                }
            }
            out
        }
        V::Enum(t, o) => {
            let mut out = vec![];
            if *t != 0 {
                out.push(V::Enum(0, *o));
            }
            out.extend(sh_int(*o as i64).into_iter().filter(|x| *x >= 0).map(|x| V::Enum(*t, x as u32)));
            out
        }
        V::Vector(d) => sh_seq(d, |x| sh_f32(*x)).into_iter().map(V::Vector).collect(),
        V::Json(j) => jshrinks(j).into_iter().map(V::Json).collect(),
        V::Array(xs) => {
            let mut out = xs.clone();
            out.extend(sh_seq(xs, shrinks).into_iter().map(V::Array));
            out
        }
        V::Tuple(xs) => {
            let mut out = xs.clone();
            out.extend(sh_seq(xs, shrinks).into_iter().map(V::Tuple));
            out
        }
        V::Composite(t, xs) => {
            let mut out = xs.clone();
            if *t != 0 {
                out.push(V::Composite(0, xs.clone()));
            }
            out.extend(sh_seq(xs, shrinks).into_iter().map(|c| V::Composite(*t, c)));
            out
        }
        V::Domain(t, x) => {
            let mut out = vec![(**x).clone()];
            if *t != 0 {
                out.push(V::Domain(0, x.clone()));
            }
            out.extend(shrinks(x).into_iter().map(|c| V::Domain(*t, Box::new(c))));
            out
        }
        V::Range { lo, hi, li, ui } => {
            let mut out = vec![];
            if let Some(x) = lo {
                out.push((**x).clone());
                out.push(V::Range { lo: None, hi: hi.clone(), li: false, ui: *ui });
                out.extend(shrinks(x).into_iter().map(|c| V::Range { lo: Some(Box::new(c)), hi: hi.clone(), li: *li, ui: *ui }));
            }
            if let Some(x) = hi {
                out.push((**x).clone());
                out.push(V::Range { lo: lo.clone(), hi: None, li: *li, ui: false });
                out.extend(shrinks(x).into_iter().map(|c| V::Range { lo: lo.clone(), hi: Some(Box::new(c)), li: *li, ui: *ui }));
            }
            if *li {
                out.push(V::Range { lo: lo.clone(), hi: hi.clone(), li: false, ui: *ui });
            }
            if *ui {
                out.push(V::Range { lo: lo.clone(), hi: hi.clone(), li: *li, ui: false });
            }
            out
        }
    }
}

/// simplifications applied to both sides at once (needed when the failure depends on the two
/// sides staying equal somewhere, e.g. two different values sharing one key)
fn jpaired(a: &J, b: &J) -> Vec<(J, J)> {
    if jident(a, b) {
        return jshrinks(a).into_iter().zip(jshrinks(b)).collect();
    }
    let mut out = vec![];
    match (a, b) {
        (J::Arr(x), J::Arr(y)) => {
            let n = x.len().min(y.len());
            for i in 0..n {
                out.push((x[i].clone(), y[i].clone()));
            }
            for i in 0..n {
                let (mut p, mut q) = (x.clone(), y.clone());
                p.remove(i);
                q.remove(i);
                out.push((J::Arr(p), J::Arr(q)));
            }
            for i in 0..n {
                for (p, q) in jpaired(&x[i], &y[i]) {
                    let (mut xx, mut yy) = (x.clone(), y.clone());
                    xx[i] = p;
                    yy[i] = q;
                    out.push((J::Arr(xx), J::Arr(yy)));
                }
            }
        }
        (J::Obj(x), J::Obj(y)) => {
            let n = x.len().min(y.len());
            for i in 0..n {
                out.push((x[i].1.clone(), y[i].1.clone()));
            }
            for i in 0..n {
                let (mut p, mut q) = (x.clone(), y.clone());
                p.remove(i);
                q.remove(i);
                out.push((J::Obj(p), J::Obj(q)));
            }
            for i in 0..n {
                for (p, q) in jpaired(&x[i].1, &y[i].1) {
                    let (mut xx, mut yy) = (x.clone(), y.clone());
                    xx[i].1 = p;
                    yy[i].1 = q;
                    out.push((J::Obj(xx), J::Obj(yy)));
                }
            }
        }
        _ => {}
    }
    out
}
fn paired_seq(x: &[V], y: &[V], whole: bool) -> (Vec<(V, V)>, Vec<(Vec<V>, Vec<V>)>) {
    let n = x.len().min(y.len());
    let mut wholes = vec![];
    let mut seqs = vec![];
    for i in 0..n {
        if whole {
            wholes.push((x[i].clone(), y[i].clone()));
        }
        let (mut p, mut q) = (x.to_vec(), y.to_vec());
        p.remove(i);
        q.remove(i);
        seqs.push((p, q));
    }
    for i in 0..n {
        for (p, q) in paired_shrinks(&x[i], &y[i]) {
            let (mut xx, mut yy) = (x.to_vec(), y.to_vec());
            xx[i] = p;
            yy[i] = q;
            seqs.push((xx, yy));
        }
    }
    (wholes, seqs)
}
fn paired_shrinks(a: &V, b: &V) -> Vec<(V, V)> {
    if ident(a, b) {
        return shrinks(a).into_iter().zip(shrinks(b)).collect();
    }
    let mut out = vec![];
    match (a, b) {
        (V::Array(x), V::Array(y)) => {
            let (w, s) = paired_seq(x, y, true);
            out.extend(w);
            out.extend(s.into_iter().map(|(p, q)| (V::Array(p), V::Array(q))));
        }
        (V::Tuple(x), V::Tuple(y)) => {
            let (w, s) = paired_seq(x, y, true);
            out.extend(w);
            out.extend(s.into_iter().map(|(p, q)| (V::Tuple(p), V::Tuple(q))));
        }
        (V::Composite(t, x), V::Composite(u, y)) => {
            let (w, s) = paired_seq(x, y, true);
            out.extend(w);
            if t == u && *t != 0 {
                out.push((V::Composite(0, x.clone()), V::Composite(0, y.clone())));
            }
            out.extend(s.into_iter().map(|(p, q)| (V::Composite(*t, p), V::Composite(*u, q))));
        }
        (V::Domain(t, x), V::Domain(u, y)) => {
            out.push(((**x).clone(), (**y).clone()));
            if t == u && *t != 0 {
                out.push((V::Domain(0, x.clone()), V::Domain(0, y.clone())));
            }
            out.extend(paired_shrinks(x, y).into_iter().map(|(p, q)| (V::Domain(*t, Box::new(p)), V::Domain(*u, Box::new(q)))));
        }
        (V::Range { lo, hi, li, ui }, V::Range { lo: lo2, hi: hi2, li: li2, ui: ui2 }) => {
            if let (Some(p), Some(q)) = (lo, lo2) {
                out.push(((**p).clone(), (**q).clone()));
                out.push((V::Range { lo: None, hi: hi.clone(), li: false, ui: *ui }, V::Range { lo: None, hi: hi2.clone(), li: false, ui: *ui2 }));
                for (x, y) in paired_shrinks(p, q) {
                    out.push((V::Range { lo: Some(Box::new(x)), hi: hi.clone(), li: *li, ui: *ui }, V::Range { lo: Some(Box::new(y)), hi: hi2.clone(), li: *li2, ui: *ui2 }));
                }
            }
            if let (Some(p), Some(q)) = (hi, hi2) {
                out.push(((**p).clone(), (**q).clone()));
                out.push((V::Range { lo: lo.clone(), hi: None, li: *li, ui: false }, V::Range { lo: lo2.clone(), hi: None, li: *li2, ui: false }));
                for (x, y) in paired_shrinks(p, q) {
                    out.push((V::Range { lo: lo.clone(), hi: Some(Box::new(x)), li: *li, ui: *ui }, V::Range { lo: lo2.clone(), hi: Some(Box::new(y)), li: *li2, ui: *ui2 }));
                }
            }
        }
        (V::Vector(x), V::Vector(y)) => {
            let n = x.len().min(y.len());
            for i in 0..n {
                let (mut p, mut q) = (x.clone(), y.clone());
                p.remove(i);
                q.remove(i);
                out.push((V::Vector(p), V::Vector(q)));
            }
            for i in 0..n {
                if x[i].to_bits() == y[i].to_bits() {
                    for s in sh_f32(x[i]) {
                        let (mut p, mut q) = (x.clone(), y.clone());
                        p[i] = s;
                        q[i] = s;
                        out.push((V::Vector(p), V::Vector(q)));
                    }
                }
            }
        }
        (V::Json(x), V::Json(y)) => out.extend(jpaired(x, y).into_iter().map(|(p, q)| (V::Json(p), V::Json(q)))),
        _ => {}
    }
    out
}

fn key_weight(k: &[V]) -> u64 {
    3 * k.len() as u64 + k.iter().map(weight).sum::<u64>()
}

/// one-step simplifications of a key: drop a column, simplify a column
fn key_shrinks(k: &[V]) -> Vec<Vec<V>> {
    sh_seq(k, shrinks).into_iter().filter(|c| !c.is_empty()).collect()
}

/// greedy shrink of a single key while `pred` keeps failing with the same sub-assertion
fn shrink_key(k: &[V], assertion: &str, bump: &Bump) -> (Vec<V>, Fail) {
    let mut cur = k.to_vec();
    let mut cur_fail = check_key(&cur, bump, true).fail.expect("shrink_key called on a failing key");
    let mut steps = 0;
    'outer: loop {
        let w = key_weight(&cur);
        for c in key_shrinks(&cur) {
            steps += 1;
            if steps > 4000 {
                break 'outer;
            }
            if key_weight(&c) >= w {
                continue;
            }
            if let Some(f) = check_key(&c, bump, true).fail {
                if f.assertion == assertion {
                    cur = c;
                    cur_fail = f;
                    continue 'outer;
                }
            }
        }
        break;
    }
    (cur, cur_fail)
}

fn shrink_pair(a: &[V], b: &[V], assertion: &str, bump: &Bump) -> (Vec<V>, Vec<V>, Fail) {
    let mut ca = a.to_vec();
    let mut cb = b.to_vec();
    let mut cf = pair_fails(&ca, &cb, bump).expect("shrink_pair called on a failing pair");
    let mut steps = 0;
    let same = |f: &Fail| f.assertion == assertion || (assertion == "composite_order" && f.assertion == "order_iso");
    'outer: loop {
        let w = key_weight(&ca) + key_weight(&cb);
        let mut cands: Vec<(Vec<V>, Vec<V>)> = vec![];
        // drop the same column on both sides
        for i in 0..ca.len().min(cb.len()) {
            if ca.len() > 1 && cb.len() > 1 {
                let (mut x, mut y) = (ca.clone(), cb.clone());
                x.remove(i);
                y.remove(i);
                cands.push((x, y));
            }
        }
        for i in 0..ca.len().min(cb.len()) {
            for (p, q) in paired_shrinks(&ca[i], &cb[i]) {
                let (mut x, mut y) = (ca.clone(), cb.clone());
                x[i] = p;
                y[i] = q;
                cands.push((x, y));
            }
        }
        for x in key_shrinks(&ca) {
            cands.push((x, cb.clone()));
        }
        for y in key_shrinks(&cb) {
            cands.push((ca.clone(), y));
        }
        for (x, y) in cands {
            steps += 1;
            if steps > 6000 {
                break 'outer;
            }
            if key_weight(&x) + key_weight(&y) >= w {
                continue;
            }
            if let Some(f) = pair_fails(&x, &y, bump) {
                if same(&f) {
                    ca = x;
                    cb = y;
                    cf = f;
                    continue 'outer;
                }
            }
        }
        break;
    }
    (ca, cb, cf)
}

// ---------------------------------------------------------------------------------------------
// generation
// ---------------------------------------------------------------------------------------------

const CHARS: [char; 14] = ['\0', '\u{1}', ' ', 'a', 'b', 'z', '\u{7f}', '\u{80}', '\u{ff}', '\u{7ff}', '\u{800}', '\u{ffff}', '\u{10000}', '\u{10ffff}'];
const BYTES: [u8; 14] = [0x00, 0x00, 0x01, 0x02, 0x14, 0x20, b'a', b'b', 0x7f, 0x80, 0xfe, 0xff, 0xff, 0x10];

struct Gen {
    rng: Rng,
    /// hostile features, switched on per case so that most cases stay free of any given one
    f32_signed_zero_nan: bool,
    json_neg_zero: bool,
    obj_hostile_key: bool,
}

impl Gen {
    fn new(rng: Rng) -> Gen {
        Gen { rng, f32_signed_zero_nan: false, json_neg_zero: false, obj_hostile_key: false }
    }
    fn new_case(&mut self) {
        let r = self.rng.next();
        self.f32_signed_zero_nan = r & 3 == 0;
        self.json_neg_zero = (r >> 2) & 3 == 0;
        self.obj_hostile_key = (r >> 4) & 3 == 0;
    }
    fn i64(&mut self) -> i64 {
        match self.rng.below(12) {
            0 => *self.rng.pick(&[0i64, 1, -1, i64::MIN, i64::MAX, i64::MIN + 1, i64::MAX - 1, 255, 256, -255, -256, 65535, 65536, 1 << 31, -(1 << 31), 1 << 32, (1 << 53) + 1, -(1 << 53) - 1]),
            1 | 2 => {
                let k = self.rng.below(63);
                let base = 1i64 << k;
                let d = self.rng.range(-2, 2);
                let x = base.wrapping_add(d);
                if self.rng.chance(1, 2) { x.wrapping_neg() } else { x }
            }
            3 | 4 | 5 => self.rng.range(-300, 300),
            6 => (self.rng.next() >> self.rng.below(64)) as i64,
            7 => ((self.rng.next() >> self.rng.below(64)) as i64).wrapping_neg(),
            _ => self.rng.next() as i64,
        }
    }
    fn i32(&mut self) -> i32 {
        match self.rng.below(6) {
            0 => *self.rng.pick(&[0i32, 1, -1, i32::MIN, i32::MAX, i32::MIN + 1, i32::MAX - 1, 255, 256, -256]),
            1 | 2 => self.rng.range(-400, 400) as i32,
            _ => self.rng.next() as i32,
        }
    }
    fn i16(&mut self) -> i16 {
        match self.rng.below(4) {
            0 => *self.rng.pick(&[0i16, 1, -1, i16::MIN, i16::MAX, 255, 256, -256]),
            1 => self.rng.range(-840, 840) as i16,
            _ => self.rng.next() as i16,
        }
    }
    fn u32(&mut self) -> u32 {
        match self.rng.below(4) {
            0 => *self.rng.pick(&[0u32, 1, 2, 255, 256, 0x7fff_ffff, 0x8000_0000, u32::MAX]),
            1 | 2 => self.rng.below(6) as u32,
            _ => self.rng.next() as u32,
        }
    }
    /// any f64: +-0, NaN (both signs, several payloads), +-inf, subnormals, integers, random bits
    fn f64(&mut self) -> f64 {
        match self.rng.below(14) {
            0 => *self.rng.pick(&[0.0f64, -0.0, 1.0, -1.0, f64::INFINITY, f64::NEG_INFINITY, f64::MIN_POSITIVE, -f64::MIN_POSITIVE, f64::MAX, f64::MIN, f64::EPSILON, 0.5, -0.5, 9.223372036854775807e18, -9.223372036854775808e18]),
            1 => f64::from_bits(*self.rng.pick(&[0x7ff8_0000_0000_0000u64, 0xfff8_0000_0000_0000, 0x7ff0_0000_0000_0001, 0xfff0_0000_0000_0001, 0x7fff_ffff_ffff_ffff, 0xffff_ffff_ffff_ffff])),
            2 => {
                // subnormals
                let b = 1 + (self.rng.next() >> (12 + self.rng.below(52)));
                f64::from_bits(b | ((self.rng.below(2)) << 63))
            }
            3 | 4 => self.i64() as f64,
            5 => {
                let f = self.i64() as f64;
                let b = f.to_bits();
                f64::from_bits(if self.rng.chance(1, 2) { b.wrapping_add(1) } else { b.wrapping_sub(1) })
            }
            6 | 7 => (self.rng.range(-3000, 3000) as f64) / 8.0,
            8 => (self.rng.f64() - 0.5) * 2e-300,
            9 => (self.rng.f64() - 0.5) * 2e300,
            _ => f64::from_bits(self.rng.next()),
        }
    }
    fn finite_f64(&mut self, neg_zero: bool) -> f64 {
        loop {
            let f = self.f64();
            if f.is_finite() && (neg_zero || f.to_bits() != 0x8000_0000_0000_0000) {
                return f;
            }
        }
    }
    fn f32(&mut self) -> f32 {
        let hostile = self.f32_signed_zero_nan;
        loop {
            let f = match self.rng.below(10) {
                0 => *self.rng.pick(&[0.0f32, 1.0, -1.0, f32::INFINITY, f32::NEG_INFINITY, f32::MIN_POSITIVE, -f32::MIN_POSITIVE, f32::MAX, f32::MIN, 0.5]),
                1 => f32::from_bits(*self.rng.pick(&[0x8000_0000u32, 0x7fc0_0000, 0xffc0_0000, 0x7f80_0001, 0xff80_0001, 0xffff_ffff])),
                2 => f32::from_bits((1 + (self.rng.next() as u32 >> (9 + self.rng.below(23)))) | ((self.rng.below(2) as u32) << 31)),
                3 | 4 | 5 => (self.rng.range(-64, 64) as f32) / 4.0,
                _ => f32::from_bits(self.rng.next() as u32),
            };
            let is_hostile = f.is_nan() || f.to_bits() == 0x8000_0000;
            if hostile || !is_hostile {
                return f;
            }
        }
    }
    fn text(&mut self) -> String {
        let n = match self.rng.below(10) {
            0 => 0,
            1..=6 => self.rng.usize(1, 4),
            7 | 8 => self.rng.usize(4, 10),
            _ => self.rng.usize(10, 40),
        };
        let ascii = self.rng.chance(1, 4);
        (0..n)
            .map(|_| if ascii { (b'a' + self.rng.below(4) as u8) as char } else { *self.rng.pick(&CHARS) })
            .collect()
    }
    fn blob(&mut self) -> Vec<u8> {
        let n = match self.rng.below(10) {
            0 => 0,
            1..=6 => self.rng.usize(1, 4),
            7 | 8 => self.rng.usize(4, 12),
            _ => self.rng.usize(12, 48),
        };
        if self.rng.chance(1, 4) {
            self.rng.bytes(n)
        } else {
            (0..n).map(|_| *self.rng.pick(&BYTES)).collect()
        }
    }
    fn arr<const N: usize>(&mut self) -> [u8; N] {
        let mut a = [0u8; N];
        match self.rng.below(5) {
            0 => {}
            1 => a = [0xFF; N],
            2 => {
                let i = self.rng.below(N as u64) as usize;
                a[i] = *self.rng.pick(&BYTES);
            }
            _ => {
                let b = self.rng.bytes(N);
                a.copy_from_slice(&b);
            }
        }
        a
    }
    fn key_str(&mut self, first: bool) -> String {
        if first && self.obj_hostile_key && self.rng.chance(1, 3) {
            return (*self.rng.pick(&["", "\0", "\0a", "\u{1}"])).to_string();
        }
        let n = self.rng.usize(1, 3);
        (0..n).map(|i| if i == 0 { *self.rng.pick(&['a', 'b', 'k', '\u{1}', '\u{ff}', 'z']) } else { *self.rng.pick(&CHARS) }).collect()
    }
    fn json(&mut self, depth: u32) -> J {
        let top = if depth == 0 { 5 } else { 8 };
        match self.rng.below(top) {
            0 => J::Null,
            1 => J::Bool(self.rng.chance(1, 2)),
            2 | 3 => {
                let nz = self.json_neg_zero;
                J::Num(self.finite_f64(nz))
            }
            4 => J::Str(self.text()),
            5 | 6 => {
                let n = self.rng.usize(0, 3);
                J::Arr((0..n).map(|_| self.json(depth - 1)).collect())
            }
            _ => {
                let n = self.rng.usize(0, 3);
                let mut es: Vec<(String, J)> = vec![];
                for i in 0..n {
                    let k = self.key_str(i == 0);
                    if es.iter().any(|e| e.0 == k) {
                        continue;
                    }
                    let v = self.json(depth - 1);
                    es.push((k, v));
                }
                J::Obj(es)
            }
        }
    }
    fn scalar_kind(&mut self) -> u64 {
        // weights: int, float, text, blob dominate
        const W: [(u64, u64); 15] = [(2, 18), (3, 18), (4, 14), (5, 10), (0, 2), (1, 2), (6, 4), (7, 4), (8, 5), (9, 4), (10, 4), (11, 4), (12, 3), (13, 2), (14, 3)];
        let total: u64 = W.iter().map(|w| w.1).sum();
        let mut r = self.rng.below(total);
        for (k, w) in W {
            if r < w {
                return k;
            }
            r -= w;
        }
        2
    }
    fn any_kind(&mut self, depth: u32) -> u64 {
        if depth == 0 || self.rng.chance(3, 4) {
            self.scalar_kind()
        } else {
            // vector, json, array, tuple, composite, domain, range
            *self.rng.pick(&[15u64, 15, 16, 16, 16, 17, 17, 18, 19, 20, 21])
        }
    }
    fn elems(&mut self, depth: u32) -> Vec<V> {
        let n = self.rng.usize(0, 3);
        if self.rng.chance(2, 3) {
            let k = self.any_kind(depth);
            (0..n).map(|_| self.of_kind(k, depth)).collect()
        } else {
            (0..n).map(|_| self.value(depth)).collect()
        }
    }
    fn of_kind(&mut self, kind: u64, depth: u32) -> V {
        match kind {
            0 => V::Null,
            1 => V::Bool(self.rng.chance(1, 2)),
            2 => V::Int(self.i64()),
            3 => V::Float(self.f64()),
            4 => V::Text(self.text()),
            5 => V::Blob(self.blob()),
            6 => V::Date(self.i32()),
            7 => V::Time(self.i64()),
            8 => V::Timestamp(self.i64()),
            9 => V::TimestampTz(self.i64(), self.i16()),
            10 => V::Interval(self.i32(), self.i32(), self.i64()),
            11 => V::Uuid(self.arr::<16>()),
            12 => {
                if self.rng.chance(1, 2) {
                    V::Inet(false, self.arr::<4>().to_vec(), self.rng.below(40) as u8)
                } else {
                    V::Inet(true, self.arr::<16>().to_vec(), self.rng.next() as u8)
                }
            }
            13 => V::Mac(self.arr::<6>()),
            14 => V::Enum(*self.rng.pick(&[0u32, 1, 7, u32::MAX]), self.u32()),
            15 => {
                let n = self.rng.usize(0, 5);
                V::Vector((0..n).map(|_| self.f32()).collect())
            }
            16 => V::Json(self.json(depth.min(2))),
            _ if depth == 0 => {
                let k = self.scalar_kind();
                self.of_kind(k, 0)
            }
            17 => V::Array(self.elems(depth - 1)),
            18 => V::Tuple(self.elems(depth - 1)),
            19 => V::Composite(*self.rng.pick(&[0u32, 1, 256, u32::MAX]), self.elems(depth - 1)),
            20 => V::Domain(*self.rng.pick(&[0u32, 1, 256, u32::MAX]), Box::new(self.value(depth - 1))),
            _ => {
                let k = self.scalar_kind();
                let lo = if self.rng.chance(3, 4) { Some(Box::new(self.of_kind(k, 0))) } else { None };
                let hi = if self.rng.chance(3, 4) { Some(Box::new(self.of_kind(k, 0))) } else { None };
                V::Range { lo, hi, li: self.rng.chance(1, 2), ui: self.rng.chance(1, 2) }
            }
        }
    }
    fn value(&mut self, depth: u32) -> V {
        let k = self.any_kind(depth);
        self.of_kind(k, depth)
    }

    fn near_i64(&mut self, n: i64) -> i64 {
        match self.rng.below(6) {
            0 => n.wrapping_add(1),
            1 => n.wrapping_sub(1),
            2 => n ^ (1i64 << self.rng.below(64)),
            3 => n.wrapping_neg(),
            4 => n.wrapping_add(self.rng.range(-300, 300)),
            _ => self.i64(),
        }
    }
    fn near_f64(&mut self, f: f64) -> f64 {
        let b = f.to_bits();
        match self.rng.below(7) {
            0 => f64::from_bits(b.wrapping_add(1)),
            1 => f64::from_bits(b.wrapping_sub(1)),
            2 => -f,
            3 => f64::from_bits(b ^ (1u64 << self.rng.below(64))),
            4 => f + 1.0,
            5 => f * 0.5,
            _ => self.f64(),
        }
    }
    fn near_f32(&mut self, f: f32) -> f32 {
        let b = f.to_bits();
        loop {
            let x = match self.rng.below(5) {
                0 => f32::from_bits(b.wrapping_add(1)),
                1 => f32::from_bits(b.wrapping_sub(1)),
                2 => -f,
                3 => f32::from_bits(b ^ (1u32 << self.rng.below(32))),
                _ => self.f32(),
            };
            let is_hostile = x.is_nan() || x.to_bits() == 0x8000_0000;
            if self.f32_signed_zero_nan || !is_hostile {
                return x;
            }
        }
    }
    fn near_str(&mut self, s: &str) -> String {
        let mut cs: Vec<char> = s.chars().collect();
        match self.rng.below(6) {
            0 => cs.push(*self.rng.pick(&CHARS)),
            1 => {
                cs.pop();
            }
            2 if !cs.is_empty() => {
                let i = self.rng.below(cs.len() as u64) as usize;
                cs[i] = *self.rng.pick(&CHARS);
            }
            3 if !cs.is_empty() => {
                // neighbouring code point of the last char
                let i = cs.len() - 1;
                let c = cs[i] as u32;
                let d = if self.rng.chance(1, 2) { c.wrapping_add(1) } else { c.wrapping_sub(1) };
                if let Some(ch) = char::from_u32(d) {
                    cs[i] = ch;
                }
            }
            4 => {
                let i = self.rng.below(cs.len() as u64 + 1) as usize;
                cs.insert(i, *self.rng.pick(&['\0', '\u{1}', 'a']));
            }
            _ => cs.push('\0'),
        }
        cs.into_iter().collect()
    }
    fn near_bytes(&mut self, b: &[u8]) -> Vec<u8> {
        let mut c = b.to_vec();
        match self.rng.below(7) {
            0 => c.push(*self.rng.pick(&BYTES)),
            1 => {
                c.pop();
            }
            2 if !c.is_empty() => {
                let i = self.rng.below(c.len() as u64) as usize;
                c[i] = *self.rng.pick(&BYTES);
            }
            3 if !c.is_empty() => {
                let i = c.len() - 1;
                c[i] = if self.rng.chance(1, 2) { c[i].wrapping_add(1) } else { c[i].wrapping_sub(1) };
            }
            4 => {
                let i = self.rng.below(c.len() as u64 + 1) as usize;
                c.insert(i, *self.rng.pick(&[0u8, 0xFF, 1]));
            }
            5 => c.push(0),
            _ => c.push(0xFF),
        }
        c
    }
    fn near_arr<const N: usize>(&mut self, a: &[u8; N]) -> [u8; N] {
        let mut c = *a;
        let i = self.rng.below(N as u64) as usize;
        c[i] = match self.rng.below(3) {
            0 => c[i].wrapping_add(1),
            1 => c[i].wrapping_sub(1),
            _ => *self.rng.pick(&BYTES),
        };
        c
    }
    fn near_seq(&mut self, xs: &[V], depth: u32) -> Vec<V> {
        let mut c = xs.to_vec();
        match self.rng.below(4) {
            0 => c.push(if let Some(l) = xs.last() { self.near(l, depth) } else { self.value(depth) }),
            1 => {
                c.pop();
            }
            _ if !c.is_empty() => {
                let i = self.rng.below(c.len() as u64) as usize;
                c[i] = self.near(&xs[i], depth);
            }
            _ => c.push(self.value(depth)),
        }
        c
    }
    fn near_json(&mut self, j: &J) -> J {
        match j {
            J::Null | J::Bool(_) => self.json(1),
            J::Num(n) => {
                let nz = self.json_neg_zero;
                for _ in 0..8 {
                    let x = self.near_f64(*n);
                    if x.is_finite() && (nz || x.to_bits() != 0x8000_0000_0000_0000) {
                        return J::Num(x);
                    }
                }
                J::Num(self.finite_f64(nz))
            }
            J::Str(s) => J::Str(self.near_str(s)),
            J::Arr(xs) => {
                let mut c = xs.clone();
                match self.rng.below(4) {
                    0 => c.push(self.json(1)),
                    1 => {
                        c.pop();
                    }
                    _ if !c.is_empty() => {
                        let i = self.rng.below(c.len() as u64) as usize;
                        c[i] = self.near_json(&xs[i]);
                    }
                    _ => c.push(self.json(0)),
                }
                J::Arr(c)
            }
            J::Obj(es) => {
                let mut c = es.clone();
                match self.rng.below(5) {
                    0 => {
                        let k = self.key_str(c.is_empty());
                        if !c.iter().any(|e| e.0 == k) {
                            let v = self.json(1);
                            c.push((k, v));
                        }
                    }
                    1 => {
                        c.pop();
                    }
                    2 if !c.is_empty() => {
                        let i = self.rng.below(c.len() as u64) as usize;
                        let k = self.near_str(&es[i].0);
                        if !c.iter().any(|e| e.0 == k) {
                            c[i].0 = k;
                        }
                    }
                    3 if c.len() > 1 => c.swap(0, 1),
                    _ if !c.is_empty() => {
                        let i = self.rng.below(c.len() as u64) as usize;
                        c[i].1 = self.near_json(&es[i].1);
                    }
                    _ => {}
                }
                J::Obj(c)
            }
        }
    }
    /// a value close to `v` in the documented order (or just across a type boundary)
    fn near(&mut self, v: &V, depth: u32) -> V {
        if self.rng.chance(1, 12) {
            return self.value(depth);
        }
        let d1 = depth.saturating_sub(1);
        match v {
            V::Null => self.value(0),
            V::Bool(b) => V::Bool(!b),
            V::Int(n) => {
                if self.rng.chance(1, 8) { V::Float(*n as f64) } else { V::Int(self.near_i64(*n)) }
            }
            V::Float(f) => {
                if self.rng.chance(1, 8) && f.is_finite() && f.abs() < 9e18 {
                    V::Int(*f as i64)
                } else {
                    V::Float(self.near_f64(*f))
                }
            }
            V::Text(s) => {
                if self.rng.chance(1, 16) { V::Blob(s.as_bytes().to_vec()) } else { V::Text(self.near_str(s)) }
            }
            V::Blob(b) => V::Blob(self.near_bytes(b)),
            V::Date(d) => V::Date(self.near_i64(*d as i64) as i32),
            V::Time(t) => V::Time(self.near_i64(*t)),
            V::Timestamp(t) => {
                if self.rng.chance(1, 16) { V::Time(*t) } else { V::Timestamp(self.near_i64(*t)) }
            }
            V::TimestampTz(m, tz) => {
                if self.rng.chance(1, 2) { V::TimestampTz(self.near_i64(*m), *tz) } else { V::TimestampTz(*m, self.near_i64(*tz as i64) as i16) }
            }
            V::Interval(a, b, c) => match self.rng.below(3) {
                0 => V::Interval(self.near_i64(*a as i64) as i32, *b, *c),
                1 => V::Interval(*a, self.near_i64(*b as i64) as i32, *c),
                _ => V::Interval(*a, *b, self.near_i64(*c)),
            },
            V::Uuid(u) => V::Uuid(self.near_arr(u)),
            V::Mac(m) => V::Mac(self.near_arr(m)),
            V::Inet(v6, addr, pl) => {
                if self.rng.chance(1, 2) {
                    V::Inet(*v6, addr.clone(), pl.wrapping_add(1))
                } else {
                    let mut c = addr.clone();
                    let i = self.rng.below(c.len() as u64) as usize;
                    c[i] = c[i].wrapping_add(1);
                    V::Inet(*v6, c, *pl)
                }
            }
            V::Enum(t, o) => {
                if self.rng.chance(1, 4) { V::Enum(t.wrapping_add(1), *o) } else { V::Enum(*t, self.near_i64(*o as i64) as u32) }
            }
            V::Vector(d) => {
                let mut c = d.clone();
                match self.rng.below(4) {
                    0 => c.push(self.f32()),
                    1 => {
                        c.pop();
                    }
                    _ if !c.is_empty() => {
                        let i = self.rng.below(c.len() as u64) as usize;
                        c[i] = self.near_f32(d[i]);
                    }
                    _ => c.push(self.f32()),
                }
                V::Vector(c)
            }
            V::Json(j) => V::Json(self.near_json(j)),
            V::Array(xs) => {
                if self.rng.chance(1, 16) { V::Tuple(xs.clone()) } else { V::Array(self.near_seq(xs, d1)) }
            }
            V::Tuple(xs) => V::Tuple(self.near_seq(xs, d1)),
            V::Composite(t, xs) => {
                if self.rng.chance(1, 6) { V::Composite(t.wrapping_add(1), xs.clone()) } else { V::Composite(*t, self.near_seq(xs, d1)) }
            }
            V::Domain(t, x) => {
                if self.rng.chance(1, 6) { V::Domain(t.wrapping_add(1), x.clone()) } else { V::Domain(*t, Box::new(self.near(x, d1))) }
            }
            V::Range { lo, hi, li, ui } => match self.rng.below(4) {
                0 => V::Range { lo: lo.clone(), hi: hi.clone(), li: !li, ui: *ui },
                1 => V::Range { lo: lo.clone(), hi: hi.clone(), li: *li, ui: !ui },
                2 => V::Range { lo: lo.as_ref().map(|x| Box::new(self.near(x, 0))), hi: hi.clone(), li: *li, ui: *ui },
                _ => V::Range { lo: lo.clone(), hi: hi.as_ref().map(|x| Box::new(self.near(x, 0))), li: *li, ui: *ui },
            },
        }
    }

    /// a pair of (composite) keys: mostly related (shared column prefix, then a near value, then
    /// misleading later columns), sometimes independent
    fn pair(&mut self) -> (Vec<V>, Vec<V>, bool) {
        self.new_case();
        let ncols = match self.rng.below(8) {
            0..=3 => 1,
            4 | 5 => 2,
            6 => 3,
            _ => 4,
        };
        let a: Vec<V> = (0..ncols).map(|_| self.value(2)).collect();
        if self.rng.chance(1, 4) {
            let nb = if self.rng.chance(3, 4) { ncols } else { self.rng.usize(1, 4) };
            let b: Vec<V> = (0..nb).map(|i| if i < a.len() && self.rng.chance(1, 2) { let k = kind_id(&a[i]); self.of_kind(k, 2) } else { self.value(2) }).collect();
            return (a, b, false);
        }
        let mut b = a.clone();
        let c = self.rng.below(ncols as u64) as usize;
        b[c] = self.near(&a[c], 2);
        // later columns: fresh values so that a wrong decision at column c is not masked
        for i in c + 1..ncols {
            if self.rng.chance(2, 3) {
                b[i] = self.value(1);
            }
        }
        match self.rng.below(12) {
            0 => b.truncate(c + 1),
            1 => b.push(self.value(1)),
            _ => {}
        }
        (a, b, true)
    }
}

// ---------------------------------------------------------------------------------------------
// boundary strata
// ---------------------------------------------------------------------------------------------

fn boundaries() -> Vec<V> {
    let mut b = vec![V::Null, V::Bool(false), V::Bool(true)];
    for n in [i64::MIN, i64::MIN + 1, -(1 << 53) - 1, -(1 << 32), -65536, -256, -255, -2, -1, 0, 1, 2, 127, 128, 255, 256, 65535, 1 << 32, (1 << 53) + 1, i64::MAX - 1, i64::MAX] {
        b.push(V::Int(n));
    }
    for f in [
        f64::NEG_INFINITY, f64::MIN, -1e300, -9.223372036854775808e18, -256.0, -2.0, -1.5, -1.0, -0.5, -f64::MIN_POSITIVE,
        -f64::from_bits(0x000f_ffff_ffff_ffff), -f64::from_bits(1), -0.0, 0.0, f64::from_bits(1), f64::from_bits(0x000f_ffff_ffff_ffff),
        f64::MIN_POSITIVE, 0.5, 1.0, 1.5, 2.0, 256.0, 9.223372036854775807e18, 1e300, f64::MAX, f64::INFINITY, f64::NAN,
        f64::from_bits(0xfff8_0000_0000_0000), f64::from_bits(0x7ff0_0000_0000_0001), f64::from_bits(0xffff_ffff_ffff_ffff),
    ] {
        b.push(V::Float(f));
    }
    for s in ["", "\0", "\0\0", "\0\u{1}", "\u{1}", "a", "a\0", "a\0\0", "a\0b", "a\u{1}", "aa", "ab", "b", "\u{7f}", "\u{80}", "\u{ff}", "\u{7ff}", "\u{800}", "\u{ffff}", "\u{10000}", "\u{10ffff}", "\u{10ffff}\0", "\u{10ffff}\u{10ffff}"] {
        b.push(V::Text(s.to_string()));
    }
    for s in [
        &[][..], &[0], &[0, 0], &[0, 0xFF], &[0, 1], &[1], &[1, 0], &[0x20], &[b'a'], &[b'a', 0], &[b'a', 0, 0], &[b'a', 0, 0xFF], &[b'a', 0xFF], &[b'a', 0xFF, 0],
        &[0xFE], &[0xFE, 0xFF], &[0xFF], &[0xFF, 0], &[0xFF, 0, 0], &[0xFF, 0, 0xFF], &[0xFF, 1], &[0xFF, 0xFE], &[0xFF, 0xFF], &[0xFF, 0xFF, 0], &[0xFF, 0xFF, 0xFF],
    ] {
        b.push(V::Blob(s.to_vec()));
    }
    for d in [i32::MIN, i32::MIN + 1, -1, 0, 1, 19000, i32::MAX - 1, i32::MAX] {
        b.push(V::Date(d));
    }
    for t in [i64::MIN, i64::MIN + 1, -1, 0, 1, 86_399_999_999, 1_700_000_000_000_000, i64::MAX - 1, i64::MAX] {
        b.push(V::Time(t));
        b.push(V::Timestamp(t));
        for tz in [i16::MIN, -1, 0, 1, 840, i16::MAX] {
            if t == 0 || t == -1 || t == i64::MAX || tz == 0 {
                b.push(V::TimestampTz(t, tz));
            }
        }
    }
    for m in [i32::MIN, -1, 0, 1, i32::MAX] {
        for d in [i32::MIN, -1, 0, 1, i32::MAX] {
            for us in [i64::MIN, -1, 0, 1, i64::MAX] {
                if (m == 0) as u8 + (d == 0) as u8 + (us == 0) as u8 >= 1 {
                    b.push(V::Interval(m, d, us));
                }
            }
        }
    }
    let mut u = [0u8; 16];
    b.push(V::Uuid(u));
    u[15] = 1;
    b.push(V::Uuid(u));
    u[15] = 0xFF;
    b.push(V::Uuid(u));
    u = [0; 16];
    u[0] = 1;
    b.push(V::Uuid(u));
    u[0] = 0x80;
    b.push(V::Uuid(u));
    b.push(V::Uuid([0xFF; 16]));
    for (v6, pl) in [(false, 0u8), (false, 24), (false, 32), (true, 0), (true, 64), (true, 128), (true, 255)] {
        let n = if v6 { 16 } else { 4 };
        b.push(V::Inet(v6, vec![0; n], pl));
        b.push(V::Inet(v6, vec![0xFF; n], pl));
        let mut a = vec![0; n];
        a[n - 1] = 1;
        b.push(V::Inet(v6, a, pl));
    }
    for m in [[0u8; 6], [0, 0, 0, 0, 0, 1], [0, 0, 0, 0, 1, 0], [0x80, 0, 0, 0, 0, 0], [0xFF; 6]] {
        b.push(V::Mac(m));
    }
    for t in [0u32, 1, u32::MAX] {
        for o in [0u32, 1, 255, 256, 0x8000_0000, u32::MAX] {
            b.push(V::Enum(t, o));
        }
    }
    // vectors (f32 strata incl. signed zero / NaN / inf / subnormal)
    let fs = [f32::NEG_INFINITY, f32::MIN, -1.0, -f32::MIN_POSITIVE, -f32::from_bits(1), -0.0, 0.0, f32::from_bits(1), f32::MIN_POSITIVE, 1.0, f32::MAX, f32::INFINITY, f32::NAN, f32::from_bits(0xffc0_0000), f32::from_bits(0xffff_ffff)];
    b.push(V::Vector(vec![]));
    for x in fs {
        b.push(V::Vector(vec![x]));
        b.push(V::Vector(vec![1.0, x]));
    }
    b.push(V::Vector(vec![0.0, 0.0]));
    b.push(V::Vector(vec![1.0, 2.0, 3.0]));
    // JSON
    let js = |s: &str| J::Str(s.to_string());
    let mut jsons = vec![J::Null, J::Bool(false), J::Bool(true)];
    for n in [f64::MIN, -1e300, -2.0, -1.0, -f64::MIN_POSITIVE, -f64::from_bits(1), -0.0, 0.0, f64::from_bits(1), f64::MIN_POSITIVE, 1.0, 2.0, 1e300, f64::MAX] {
        jsons.push(J::Num(n));
    }
    for s in ["", "\0", "a", "a\0", "a\0b", "ab", "b", "\u{10ffff}"] {
        jsons.push(js(s));
    }
    jsons.push(J::Arr(vec![]));
    jsons.push(J::Arr(vec![J::Null]));
    jsons.push(J::Arr(vec![J::Null, J::Null]));
    jsons.push(J::Arr(vec![J::Num(1.0)]));
    jsons.push(J::Arr(vec![J::Num(1.0), J::Num(-1.0)]));
    jsons.push(J::Arr(vec![js("a")]));
    jsons.push(J::Arr(vec![js("a"), js("")]));
    jsons.push(J::Arr(vec![J::Arr(vec![])]));
    jsons.push(J::Arr(vec![J::Arr(vec![]), J::Null]));
    jsons.push(J::Arr(vec![J::Obj(vec![])]));
    jsons.push(J::Obj(vec![]));
    jsons.push(J::Obj(vec![("a".into(), J::Null)]));
    jsons.push(J::Obj(vec![("a".into(), J::Num(1.0))]));
    jsons.push(J::Obj(vec![("a".into(), J::Null), ("b".into(), J::Null)]));
    jsons.push(J::Obj(vec![("a".into(), J::Null), ("".into(), J::Null)]));
    jsons.push(J::Obj(vec![("a".into(), J::Null), ("\0".into(), J::Null)]));
    jsons.push(J::Obj(vec![("\u{1}".into(), J::Null)]));
    jsons.push(J::Obj(vec![("".into(), J::Null)]));
    jsons.push(J::Obj(vec![("\0".into(), J::Null)]));
    jsons.push(J::Obj(vec![("\0a".into(), J::Bool(true))]));
    jsons.push(J::Obj(vec![("a".into(), J::Obj(vec![("b".into(), J::Arr(vec![]))]))]));
    for j in jsons {
        b.push(V::Json(j));
    }
    // arrays / tuples / composites / domains / ranges
    let t = |s: &str| V::Text(s.to_string());
    let seqs: Vec<Vec<V>> = vec![
        vec![],
        vec![V::Null],
        vec![V::Null, V::Null],
        vec![V::Int(0)],
        vec![V::Int(0), V::Null],
        vec![V::Int(0), V::Int(0)],
        vec![V::Int(-1)],
        vec![V::Int(1)],
        vec![V::Int(1), V::Int(-1)],
        vec![V::Float(0.0)],
        vec![V::Float(f64::NAN)],
        vec![t("")],
        vec![t(""), t("")],
        vec![t("a")],
        vec![t("a"), t("")],
        vec![t("a\0")],
        vec![V::Blob(vec![0])],
        vec![V::Blob(vec![1])],
        vec![V::Blob(vec![0xFF])],
        vec![V::Array(vec![])],
        vec![V::Array(vec![]), V::Null],
        vec![V::Array(vec![V::Null])],
        vec![V::Vector(vec![1.0])],
    ];
    for s in &seqs {
        b.push(V::Array(s.clone()));
        b.push(V::Tuple(s.clone()));
    }
    for s in seqs.iter().take(9) {
        b.push(V::Composite(0, s.clone()));
        b.push(V::Composite(1, s.clone()));
    }
    for x in [V::Null, V::Int(0), V::Int(5), t(""), t("a"), V::Array(vec![])] {
        b.push(V::Domain(0, Box::new(x.clone())));
        b.push(V::Domain(u32::MAX, Box::new(x)));
    }
    for (lo, hi) in [(None, None), (Some(1), None), (None, Some(1)), (Some(1), Some(2)), (Some(1), Some(1)), (Some(0), Some(2)), (Some(-1), Some(0))] {
        for (li, ui) in [(false, false), (true, false), (false, true), (true, true)] {
            b.push(V::Range { lo: lo.map(|x| Box::new(V::Int(x))), hi: hi.map(|x| Box::new(V::Int(x))), li, ui });
        }
    }
    b.push(V::Range { lo: Some(Box::new(t("a"))), hi: Some(Box::new(t("a\0"))), li: true, ui: false });
    b.push(V::Range { lo: Some(Box::new(t(""))), hi: Some(Box::new(t("a"))), li: true, ui: false });
    b
}

/// second-column values for the prefix-hazard stratum: first bytes 0x01, 0x02, 0x10.., 0x20, 0x21
fn hazard_tails() -> Vec<V> {
    vec![
        V::Null,
        V::Bool(false),
        V::Float(f64::NEG_INFINITY),
        V::Int(-1),
        V::Int(0),
        V::Int(1),
        V::Float(f64::NAN),
        V::Text(String::new()),
        V::Text("\0".into()),
        V::Text("a".into()),
        V::Blob(vec![]),
        V::Blob(vec![0]),
        V::Blob(vec![0xFF]),
        V::Vector(vec![]),
    ]
}

// ---------------------------------------------------------------------------------------------
// running cases, collecting statistics (per worker, merged at the end)
// ---------------------------------------------------------------------------------------------

#[derive(Default)]
struct Stats {
    evals: u64,
    counters: BTreeMap<&'static str, u64>,
    nontrivial: HashSet<u64>,
    viols: BTreeMap<(String, String), (u64, Vec<serde_json::Value>)>,
    samples: Vec<serde_json::Value>,
}

impl Stats {
    fn count(&mut self, k: &'static str, n: u64) {
        *self.counters.entry(k).or_insert(0) += n;
    }
    fn viol(&mut self, assertion: &str, sig: String, detail: serde_json::Value) {
        let e = self.viols.entry((assertion.to_string(), sig)).or_insert((0, vec![]));
        e.0 += 1;
        if e.1.len() < 2 {
            e.1.push(detail);
        }
    }
    fn merge(&mut self, o: Stats) {
        self.evals += o.evals;
        for (k, n) in o.counters {
            *self.counters.entry(k).or_insert(0) += n;
        }
        self.nontrivial.extend(o.nontrivial);
        for (k, (n, d)) in o.viols {
            let e = self.viols.entry(k).or_insert((0, vec![]));
            e.0 += n;
            for x in d {
                if e.1.len() < 2 {
                    e.1.push(x);
                }
            }
        }
        for s in o.samples {
            if self.samples.len() < 6 {
                self.samples.push(s);
            }
        }
    }
}

fn dbg_key(k: &[V]) -> String {
    let s = format!("{:?}", k);
    if s.len() > 1500 { format!("{}..", &s.chars().take(1500).collect::<String>()) } else { s }
}

fn record_key_fail(st: &mut Stats, k: &[V], f: &Fail, bump: &Bump) {
    let (min, mf) = shrink_key(k, f.assertion, bump);
    let sig = format!("C26/{}/{}/{}", mf.assertion, mf.kind, key_shape(&min));
    let enc = encode_plain(&min, bump).map(|e| hex(&e)).unwrap_or_default();
    st.viol(
        mf.assertion,
        sig,
        json!({"minimal_key": dbg_key(&min), "minimal_enc": enc, "minimal_observed": mf.info, "original_key": dbg_key(k), "original_observed": f.info}),
    );
}

fn record_pair_fail(st: &mut Stats, a: &[V], b: &[V], f: &Fail, bump: &Bump) {
    let (ma, mb, mf) = shrink_pair(a, b, f.assertion, bump);
    let (mut sa, mut sb) = (key_shape(&ma), key_shape(&mb));
    if sb < sa {
        std::mem::swap(&mut sa, &mut sb);
    }
    let sig = format!("C26/{}/{}/{}|{}", mf.assertion, mf.kind, sa, sb);
    st.viol(
        mf.assertion,
        sig,
        json!({"minimal_a": dbg_key(&ma), "minimal_b": dbg_key(&mb), "minimal_observed": mf.info, "original_a": dbg_key(a), "original_b": dbg_key(b), "original_observed": f.info}),
    );
}

fn is_byte_prefix_pair(x: &V, y: &V) -> bool {
    let (p, q): (&[u8], &[u8]) = match (x, y) {
        (V::Text(p), V::Text(q)) => (p.as_bytes(), q.as_bytes()),
        (V::Blob(p), V::Blob(q)) => (p, q),
        _ => return false,
    };
    p.len() != q.len() && (p.starts_with(q) || q.starts_with(p))
}

/// one case = a pair of keys: both are encoded, decoded and compared with the documented relation
fn process(st: &mut Stats, a: &[V], b: &[V], class: u64, bump: &mut Bump, alt: bool, want_sample: bool) {
    bump.reset();
    let bump: &Bump = bump;
    st.evals += 1;
    let ka = check_key(a, bump, alt);
    let kb = check_key(b, bump, alt);
    st.count("keys_encoded_and_decoded", 2);
    st.count("columns_decoded", (a.len() + b.len()) as u64);
    if alt {
        st.count("keys_alt_paths_compared", 2);
    }
    let mut encode_ok = true;
    for (k, out) in [(a, &ka), (b, &kb)] {
        if let Some(f) = &out.fail {
            if f.assertion == "no_panic" || f.assertion == "prefix_range" {
                encode_ok = false;
            }
            record_key_fail(st, k, f, bump);
            // twin: the value the decoder returned instead; if it is a different value with the
            // same key, injectivity is broken as well
            if f.assertion == "decode_round_trip" && f.kind == "value" {
                if let Some(d) = &out.decoded {
                    let twin: Vec<V> = d.iter().map(from_decoded).collect();
                    st.count("twin_pairs", 1);
                    if let Some(pf) = pair_fails(k, &twin, bump) {
                        record_pair_fail(st, k, &twin, &pf, bump);
                    }
                }
            }
        }
    }
    if !encode_ok {
        return;
    }
    let p = judge(a, b, &ka.enc, &kb.enc);
    match p.rel {
        Rel::Lt | Rel::Gt => st.count("pairs_ordered", 1),
        Rel::Same => st.count("pairs_same_value", 1),
        Rel::Distinct => st.count("pairs_distinct_unordered", 1),
        Rel::Free => st.count("pairs_nothing_promised", 1),
    }
    let multi = a.len() > 1 || b.len() > 1;
    if multi {
        st.count("pairs_composite", 1);
        if p.col > 0 && p.col < a.len().min(b.len()) {
            st.count("pairs_composite_decided_after_first_column", 1);
        }
    }
    if p.col < a.len().min(b.len()) {
        if is_byte_prefix_pair(&a[p.col], &b[p.col]) && (a.len() > p.col + 1 || b.len() > p.col + 1) {
            st.count("pairs_prefix_hazard", 1);
        }
        if rank(&a[p.col]) != rank(&b[p.col]) {
            st.count("pairs_cross_type", 1);
        }
    }
    if let Some(dis) = p.mixed_disagree {
        st.count("not_asserted_int_vs_float_same_sign", 1);
        if dis {
            st.count("not_asserted_int_vs_float_same_sign_numeric_order_differs", 1);
        }
    }
    let ka_id = a.get(p.col).map(kind_id).unwrap_or(NKINDS);
    let kb_id = b.get(p.col).map(kind_id).unwrap_or(NKINDS);
    if p.rel != Rel::Free {
        st.nontrivial.insert((p.rel as u64) | (ka_id << 4) | (kb_id << 10) | ((p.col as u64) << 16) | ((a.len() as u64) << 20) | ((b.len() as u64) << 24) | (class << 28));
    }
    if let Some(f) = &p.fail {
        record_pair_fail(st, a, b, f, bump);
    }
    if want_sample && st.samples.len() < 6 {
        st.samples.push(json!({"a": dbg_key(a), "b": dbg_key(b), "enc_a": hex(&ka.enc), "enc_b": hex(&kb.enc), "documented": format!("{:?}", p.rel), "memcmp": format!("{:?}", ka.enc.cmp(&kb.enc)), "decided_at_column": p.col}));
    }
}

fn random_pairs(seed: u64, n: u64, deadline_s: f64, sample: bool) -> Stats {
    let start = std::time::Instant::now();
    let mut st = Stats::default();
    let mut g = Gen::new(Rng::new(seed));
    let mut bump = Bump::new();
    for i in 0..n {
        if i % 4096 == 0 && start.elapsed().as_secs_f64() > deadline_s {
            st.count("random_pairs_cut_by_deadline", n - i);
            break;
        }
        let (a, b, related) = g.pair();
        let want = sample && (i % 37 == 5);
        process(&mut st, &a, &b, 2 + related as u64, &mut bump, i % 4 == 0, want);
        st.count("random_pairs", 1);
    }
    st
}

pub fn run(a: &Args) -> i32 {
    let miri = cfg!(miri);
    let mut ctx = Ctx::new(
        "C26",
        &a.tier,
        a.seed,
        "exploration",
        "pairs of (composite) keys over every type turdb::encoding::key encodes: all pairs of a boundary list, the text/blob prefix-hazard grid with a second column, and random related/independent pairs; each key is encoded by the real encoder (per-type fn, encode_value, SmallVec buffer), decoded column by column, and memcmp of the pair is compared with an independent definition of the documented order. distinct_nontrivial = distinct (documented relation, kinds of the deciding columns, deciding column, key widths, stratum) classes for which something was asserted",
    );
    let quick = ctx.quick();
    let mut master = Rng::derive(a.seed, 26);
    let mut st = Stats::default();
    let mut bump = Bump::new();

    // stratum 0: all pairs of the boundary list (single-column keys)
    let bl = boundaries();
    ctx.extra.insert("boundary_values".into(), json!(bl.len()));
    if miri {
        for i in 0..bl.len() {
            let j = (i + 1) % bl.len();
            process(&mut st, &bl[i..i + 1], &bl[j..j + 1], 0, &mut bump, true, false);
            st.count("boundary_pairs", 1);
        }
        for _ in 0..600 {
            let i = master.below(bl.len() as u64) as usize;
            let j = master.below(bl.len() as u64) as usize;
            process(&mut st, &bl[i..i + 1], &bl[j..j + 1], 0, &mut bump, false, false);
            st.count("boundary_pairs", 1);
        }
    } else {
        for i in 0..bl.len() {
            for j in i..bl.len() {
                process(&mut st, &bl[i..i + 1], &bl[j..j + 1], 0, &mut bump, j == i, false);
                st.count("boundary_pairs", 1);
            }
        }
    }

    // stratum 1: prefix hazard grid: (string, tail) vs (string', tail')
    let strings: Vec<V> = bl.iter().filter(|v| matches!(v, V::Text(_) | V::Blob(_))).cloned().collect();
    let tails = hazard_tails();
    let mut grid = 0u64;
    if miri {
        for _ in 0..300 {
            let ka = vec![master.pick(&strings).clone(), master.pick(&tails).clone()];
            let kb = vec![master.pick(&strings).clone(), master.pick(&tails).clone()];
            process(&mut st, &ka, &kb, 1, &mut bump, false, false);
            grid += 1;
        }
    } else {
        for s1 in &strings {
            for s2 in &strings {
                // same string type only (text vs blob is decided by the type byte)
                if kind_id(s1) != kind_id(s2) {
                    continue;
                }
                for t1 in &tails {
                    for t2 in &tails {
                        let ka = vec![s1.clone(), t1.clone()];
                        let kb = vec![s2.clone(), t2.clone()];
                        process(&mut st, &ka, &kb, 1, &mut bump, false, grid == 77_777);
                        grid += 1;
                    }
                }
            }
        }
    }
    st.count("hazard_grid_pairs", grid);

    // stratum 2/3: random pairs
    let (workers, total, deadline): (u64, u64, f64) = if miri { (1, 1100, 1e9) } else if quick { (8, 1_200_000, 40.0) } else { (16, 100_000_000, 500.0) };
    let seeds: Vec<u64> = (0..workers).map(|_| master.next()).collect();
    let per = total / workers;
    if workers == 1 {
        st.merge(random_pairs(seeds[0], per, deadline, true));
    } else {
        let handles: Vec<_> = seeds
            .iter()
            .enumerate()
            .map(|(w, s)| {
                let s = *s;
                std::thread::spawn(move || random_pairs(s, per, deadline, w == 0))
            })
            .collect();
        for h in handles {
            match h.join() {
                Ok(s) => st.merge(s),
                Err(_) => ctx.inconclusive("a worker thread of the harness panicked"),
            }
        }
    }

    // merge into the run context
    ctx.evals(st.evals);
    for h in &st.nontrivial {
        ctx.nontrivial(*h);
    }
    for (k, n) in &st.counters {
        ctx.count(k, *n);
    }
    for s in st.samples.drain(..) {
        ctx.sample(s);
    }
    let mut by_assertion: BTreeMap<String, u64> = BTreeMap::new();
    for ((assertion, sig), (n, details)) in &st.viols {
        *by_assertion.entry(assertion.clone()).or_insert(0) += *n;
        let mut left = *n;
        for d in details {
            ctx.violation(assertion, sig, d.clone());
            left -= 1;
        }
        for _ in 0..left {
            ctx.violation(assertion, sig, json!({"repeat_of": sig}));
        }
    }
    ctx.extra.insert("failed_sub_assertions".into(), json!(by_assertion));
    ctx.extra.insert(
        "signatures_seen".into(),
        json!(st.viols.iter().map(|((_, s), (n, _))| (s.clone(), *n)).collect::<BTreeMap<String, u64>>()),
    );
    ctx.extra.insert(
        "sub_assertions".into(),
        json!(["no_panic", "prefix_range", "alt_paths_agree", "decode_round_trip", "order_iso", "composite_order", "deterministic", "injective"]),
    );
    ctx.exhaustive = Some(false);
    ctx.assumptions.push("Database::encode_value_as_key is pub(crate) and therefore not driven; only turdb::encoding::key is".into());
    ctx.assumptions.push("int vs float inside the same sign class, vector order, inet order, range order, JSON object order, interval order beyond component-wise dominance and timestamptz order at equal instants are not documented: only injectivity/round trip is asserted there (int-vs-float numeric disagreement is counted, not judged)".into());
    ctx.assumptions.push("JSON numbers are generated finite only (NaN/inf are not JSON values)".into());
    ctx.finish()
}

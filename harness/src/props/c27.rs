//! C27 varints: encode/decode round trip with canonical length; decoder total on arbitrary bytes.
use crate::report::{catch, Ctx};
use crate::rng::Rng;
use crate::Args;
use serde_json::json;
use turdb::encoding::varint::{decode_varint, encode_varint, varint_len};

fn check_value(ctx: &mut Ctx, v: u64) {
    ctx.eval();
    // guard bytes around the 9-byte window so an over-long write is visible
    let mut buf = [0xA5u8; 32];
    let r = catch(|| {
        let n = encode_varint(v, &mut buf[8..17]);
        n
    });
    let n = match r {
        Ok(n) => n,
        Err(p) => {
            ctx.violation("encode_no_panic", "C27/encode_panic", json!({"value": v, "panic": p}));
            return;
        }
    };
    if n != varint_len(v) || n == 0 || n > 9 {
        ctx.violation("canonical_len", "C27/len_mismatch", json!({"value": v, "written": n, "varint_len": varint_len(v)}));
        return;
    }
    if buf[..8].iter().any(|b| *b != 0xA5) || buf[8 + n..].iter().any(|b| *b != 0xA5) {
        ctx.violation("encode_in_bounds", "C27/encode_wrote_outside", json!({"value": v, "n": n}));
        return;
    }
    // exact-length slice: decoder must not need more than n bytes
    match catch(|| decode_varint(&buf[8..8 + n])) {
        Ok(Ok((d, used))) => {
            if d != v || used != n {
                ctx.violation("round_trip", "C27/round_trip", json!({"value": v, "decoded": d, "consumed": used, "len": n}));
            }
        }
        Ok(Err(e)) => {
            ctx.violation("round_trip", "C27/decode_err_on_valid", json!({"value": v, "err": e.to_string()}));
        }
        Err(p) => {
            ctx.violation("decode_no_panic", "C27/decode_panic", json!({"value": v, "panic": p}));
        }
    }
    // one byte short must be an error (never a value read past the input)
    if n > 1 {
        if let Ok(Ok((d, used))) = catch(|| decode_varint(&buf[8..8 + n - 1])) {
            if used > n - 1 {
                ctx.violation("consumed_le_len", "C27/consumed_gt_len", json!({"value": v, "decoded": d, "consumed": used, "len": n - 1}));
            }
        }
    }
}

fn check_bytes(ctx: &mut Ctx, b: &[u8]) -> bool {
    ctx.eval();
    match catch(|| decode_varint(b)) {
        Ok(Ok((v, used))) => {
            if used == 0 || used > b.len() {
                ctx.violation("consumed_le_len", "C27/consumed_gt_len", json!({"bytes": b, "consumed": used}));
                return true;
            }
            // result depends only on the consumed prefix
            match catch(|| decode_varint(&b[..used])) {
                Ok(Ok((v2, u2))) if v2 == v && u2 == used => {}
                other => {
                    ctx.violation("prefix_determines", "C27/prefix_determines", json!({"bytes": b, "consumed": used, "again": format!("{:?}", other.map(|r| r.map_err(|e| e.to_string())))}));
                }
            }
            // canonical encodings consume exactly varint_len(value)
            let mut enc = [0u8; 9];
            let n = encode_varint(v, &mut enc);
            if enc[..n] == b[..used.min(b.len())] && used != varint_len(v) {
                ctx.violation("canonical_len", "C27/len_mismatch", json!({"bytes": b, "value": v}));
            }
            true
        }
        Ok(Err(_)) => false,
        Err(p) => {
            ctx.violation("decode_no_panic", "C27/decode_panic", json!({"bytes": b, "panic": p}));
            false
        }
    }
}

pub fn run(a: &Args) -> i32 {
    let miri = cfg!(miri);
    let mut ctx = Ctx::new(
        "C27",
        &a.tier,
        a.seed,
        "exploration",
        "values: exhaustive low range + every length-class boundary +-2^12 + random u64 (uniform bits and uniform bit-length); bytes: every string of length <=3 (quick: <=2 plus all 3-byte strings with a multi-byte marker) + random strings <=9 bytes. distinct_nontrivial = distinct (length class, ok/err) x value buckets actually seen",
    );
    let mut rng = Rng::derive(a.seed, 27);
    let quick = ctx.quick();
    let low: u64 = if miri { 3000 } else if quick { 1 << 20 } else { 1 << 24 };
    for v in 0..low {
        check_value(&mut ctx, v);
    }
    ctx.extra.insert("exhaustive_values_below".into(), json!(low));
    let bounds: [u64; 12] = [240, 241, 2287, 2288, 67823, 67824, 0xFF_FFFF, 0x100_0000, 0xFFFF_FFFF, 0x1_0000_0000, u64::MAX, 1 << 63];
    let w: u64 = if miri { 16 } else { 1 << 12 };
    for b in bounds {
        for d in 0..=w {
            check_value(&mut ctx, b.wrapping_add(d));
            check_value(&mut ctx, b.wrapping_sub(d));
        }
    }
    for sh in 0..64 {
        for d in [0u64, 1, 2] {
            check_value(&mut ctx, (1u64 << sh).wrapping_sub(d));
            check_value(&mut ctx, (1u64 << sh).wrapping_add(d));
        }
    }
    let nrand: u64 = if miri { 500 } else if quick { 3_000_000 } else { 200_000_000 };
    let mut classes = std::collections::HashSet::new();
    for i in 0..nrand {
        let v = if i % 2 == 0 { rng.next() } else { rng.next() >> rng.below(64) };
        check_value(&mut ctx, v);
        if i < 100_000 {
            classes.insert((varint_len(v), 64 - v.leading_zeros()));
        }
    }
    for c in &classes {
        ctx.nontrivial(((c.0 as u64) << 8) | c.1 as u64);
    }
    // decoder on byte strings
    let mut ok = 0u64;
    let mut err = 0u64;
    let maxlen_exh = if miri { 1 } else { 2 };
    for len in 0..=maxlen_exh {
        let total = 1u64 << (8 * len);
        for x in 0..total {
            let bytes = x.to_be_bytes();
            let s = &bytes[8 - len..];
            if check_bytes(&mut ctx, s) { ok += 1 } else { err += 1 }
        }
    }
    if !miri {
        // 3-byte strings: all of them in thorough; in quick all with a multi-byte marker (first byte >= 241)
        for x in 0..(1u64 << 24) {
            let s = [(x >> 16) as u8, (x >> 8) as u8, x as u8];
            if quick && s[0] < 241 {
                continue;
            }
            if check_bytes(&mut ctx, &s) { ok += 1 } else { err += 1 }
        }
    }
    let nb: u64 = if miri { 2000 } else if quick { 2_000_000 } else { 50_000_000 };
    for _ in 0..nb {
        let len = rng.usize(0, 9);
        let mut s = rng.bytes(len);
        if len > 0 && rng.chance(3, 4) {
            s[0] = 241 + rng.below(15) as u8; // bias to multi-byte markers incl. invalid 252..254
        }
        let r = check_bytes(&mut ctx, &s);
        if r { ok += 1 } else { err += 1 }
        ctx.nontrivial(0x1_0000 | ((s.first().copied().unwrap_or(0) as u64) << 8) | ((len as u64) << 1) | r as u64);
    }
    ctx.count("decode_ok", ok);
    ctx.count("decode_err", err);
    ctx.sample(json!({"value": 67824u64, "encoded_len": varint_len(67824)}));
    ctx.sample(json!({"bytes": [249, 255], "decode": decode_varint(&[249, 255]).map_err(|e| e.to_string()).err()}));
    ctx.exhaustive = Some(false);
    ctx.assumptions.push("'all 2^64 values' is answered by the exhaustive low range, all length-class boundaries and a random sample; not a proof".into());
    ctx.finish()
}

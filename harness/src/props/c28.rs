//! C28 (B-tree == ordered map) and C29 (page structure valid after every op).
//! One engine drives generated op sequences on the real `BTree` over an in-memory `Storage`;
//! results/enumerations are compared with a `BTreeMap` model (C28) and an invariant walker runs
//! after every mutating op (C29). `run_engine(a, "C28"|"C29")` reports only its own property.
use crate::memstore::{MemStore, PAGE};
use crate::report::{catch, panic_site, Ctx};
use crate::rng::{fnv, Rng};
use crate::Args;
use serde_json::{json, Value};
use std::collections::{BTreeMap, HashSet};
use turdb::btree::{BTree, InsertUniqueResult, InteriorNode, LeafNode, INTERIOR_CONTENT_START, INTERIOR_SLOT_SIZE, LEAF_CONTENT_START, SLOT_SIZE};
use turdb::encoding::varint::varint_len;
use turdb::storage::{PageHeader, PageType, Storage};

#[derive(Clone, Debug)]
pub enum Op {
    Insert(Vec<u8>, Vec<u8>),
    InsertUnique(Vec<u8>, Vec<u8>),
    Append(Vec<u8>, Vec<u8>),
    Update(Vec<u8>, Vec<u8>),
    Delete(Vec<u8>),
    Get(Vec<u8>),
    Seek(Vec<u8>),
    ScanFwd,
    ScanBack,
    Reopen { use_hint: bool },
}

/// error classes of a failing split (both only ever seen with oversized cells)
fn err_class(e: &str) -> Option<&'static str> {
    if e.contains("not enough free space") {
        Some("split_no_space")
    } else if e.contains("separator key already exists") {
        Some("split_separator_exists")
    } else {
        None
    }
}

fn hx(b: &[u8]) -> String {
    if b.len() > 24 {
        format!("{}..({}B)", b[..24].iter().map(|x| format!("{:02x}", x)).collect::<String>(), b.len())
    } else {
        b.iter().map(|x| format!("{:02x}", x)).collect()
    }
}

impl Op {
    pub fn to_json(&self) -> Value {
        match self {
            Op::Insert(k, v) => json!({"op": "insert", "k": hx(k), "vlen": v.len()}),
            Op::InsertUnique(k, v) => json!({"op": "insert_if_not_exists", "k": hx(k), "vlen": v.len()}),
            Op::Append(k, v) => json!({"op": "insert_append", "k": hx(k), "vlen": v.len()}),
            Op::Update(k, v) => json!({"op": "update", "k": hx(k), "vlen": v.len()}),
            Op::Delete(k) => json!({"op": "delete", "k": hx(k)}),
            Op::Get(k) => json!({"op": "get", "k": hx(k)}),
            Op::Seek(k) => json!({"op": "cursor_seek", "k": hx(k)}),
            Op::ScanFwd => json!({"op": "scan_forward"}),
            Op::ScanBack => json!({"op": "scan_backward"}),
            Op::Reopen { use_hint } => json!({"op": "new_btree_instance", "use_hint": use_hint}),
        }
    }
}

/// key-shape styles
#[derive(Clone, Copy, Debug, PartialEq)]
pub enum KeyStyle {
    Random,
    Sorted,
    Reverse,
    EqualPrefix,
    Large,
    Mixed,
}

pub struct Gen {
    pub rng: Rng,
    pub style: KeyStyle,
    pub counter: u64,
    pub huge: bool,
}

impl Gen {
    fn key(&mut self) -> Vec<u8> {
        self.counter += 1;
        let style = if self.style == KeyStyle::Mixed {
            *self.rng.pick(&[KeyStyle::Random, KeyStyle::Sorted, KeyStyle::EqualPrefix, KeyStyle::Large, KeyStyle::Reverse])
        } else {
            self.style
        };
        match style {
            KeyStyle::Random | KeyStyle::Mixed => {
                let l = self.rng.usize(1, 12);
                // small alphabet so that collisions/neighbours happen
                (0..l).map(|_| *self.rng.pick(&[0u8, 1, 2, 0x41, 0x42, 0x7f, 0x80, 0xff])).collect()
            }
            KeyStyle::Sorted => (self.counter * 3).to_be_bytes().to_vec(),
            KeyStyle::Reverse => (u64::MAX / 2 - self.counter * 3).to_be_bytes().to_vec(),
            KeyStyle::EqualPrefix => {
                let mut k = vec![b'k', b'e', b'y', self.rng.below(3) as u8];
                k.extend_from_slice(&(self.rng.below(3000) as u16).to_be_bytes());
                if self.rng.chance(1, 4) {
                    k.push(self.rng.below(3) as u8);
                }
                k
            }
            KeyStyle::Large => {
                let l = self.rng.usize(200, 900);
                let mut k = vec![b'L'; l];
                let x = self.rng.below(500) as u16;
                k[l - 2] = (x >> 8) as u8;
                k[l - 1] = x as u8;
                if self.rng.chance(1, 2) {
                    k[0] = self.rng.below(4) as u8;
                }
                k
            }
        }
    }
    fn value(&mut self) -> Vec<u8> {
        let r = self.rng.below(100);
        let l = if r < 50 {
            self.rng.usize(0, 40)
        } else if r < 85 {
            self.rng.usize(100, 900)
        } else if r < 97 {
            self.rng.usize(1000, 3500)
        } else if self.huge {
            self.rng.usize(5000, 15000)
        } else {
            self.rng.usize(3000, 4000)
        };
        let b = self.counter as u8;
        let mut v = vec![b; l];
        if l >= 8 {
            v[..8].copy_from_slice(&self.counter.to_le_bytes());
        }
        v
    }
}

pub struct Outcome {
    pub c28: Vec<(String, String, Value)>,
    pub c29: Vec<(String, String, Value)>,
    pub splits_seen: bool,
    pub depth: usize,
    pub leaves: usize,
    pub ops_done: usize,
    pub emptied_leaf_seen: bool,
}

/// structural walk. Returns (depth, leaf pages in key order) or violation (assertion, sig-cause, detail)
pub fn walk(store: &MemStore, root: u32) -> Result<(usize, Vec<u32>, bool), (String, String, Value)> {
    let mut seen: HashSet<u32> = HashSet::new();
    let mut leaves: Vec<u32> = vec![];
    let mut leaf_depth: Option<usize> = None;
    let mut emptied = false;
    // stack of (page, lower bound inclusive, upper bound exclusive, depth)
    let mut stack: Vec<(u32, Option<Vec<u8>>, Option<Vec<u8>>, usize)> = vec![(root, None, None, 0)];
    // we need in-order leaves: do recursive DFS left to right using explicit stack in reverse push order
    while let Some((pg, lo, hi, depth)) = stack.pop() {
        if depth > 16 {
            return Err(("depth_bounded".into(), "depth_gt_16".into(), json!({"page": pg})));
        }
        if pg >= store.page_count() {
            return Err(("child_in_range".into(), "child_page_out_of_range".into(), json!({"page": pg, "page_count": store.page_count()})));
        }
        if !seen.insert(pg) {
            return Err(("no_page_reachable_twice".into(), "page_reachable_twice".into(), json!({"page": pg})));
        }
        let data = store.page(pg).unwrap();
        let hdr = PageHeader::from_bytes(data).map_err(|e| ("page_header".to_string(), "header_unreadable".to_string(), json!({"page": pg, "err": e.to_string()})))?;
        match hdr.page_type() {
            PageType::BTreeLeaf => {
                match leaf_depth {
                    None => leaf_depth = Some(depth),
                    Some(d) if d != depth => {
                        return Err(("uniform_leaf_depth".into(), "leaf_depth_differs".into(), json!({"page": pg, "depth": depth, "expected": d})));
                    }
                    _ => {}
                }
                let leaf = LeafNode::from_page(data).map_err(|e| ("leaf_valid".to_string(), "leaf_from_page_err".to_string(), json!({"page": pg, "err": e.to_string()})))?;
                let n = leaf.cell_count() as usize;
                if n == 0 && pg != root {
                    emptied = true;
                }
                let slots_end = LEAF_CONTENT_START + n * SLOT_SIZE;
                if slots_end > PAGE {
                    return Err(("areas_inside_page".into(), "leaf_slot_area_past_page".into(), json!({"page": pg, "n": n})));
                }
                let mut extents: Vec<(usize, usize)> = vec![];
                let mut prev: Option<Vec<u8>> = None;
                for i in 0..n {
                    let slot = leaf.slot_at(i).map_err(|e| ("leaf_valid".to_string(), "slot_at_err".to_string(), json!({"page": pg, "i": i, "err": e.to_string()})))?;
                    let off = slot.offset() as usize;
                    let kl = slot.key_len() as usize;
                    let key = leaf.key_at(i).map_err(|e| ("areas_inside_page".to_string(), "leaf_key_unreadable".to_string(), json!({"page": pg, "i": i, "err": e.to_string()})))?;
                    let val = leaf.value_at(i).map_err(|e| ("areas_inside_page".to_string(), "leaf_value_unreadable".to_string(), json!({"page": pg, "i": i, "err": e.to_string()})))?;
                    let end = off + kl + varint_len(val.len() as u64) + val.len();
                    if off < slots_end || end > PAGE {
                        return Err(("areas_inside_page".into(), "leaf_cell_outside_cell_area".into(), json!({"page": pg, "i": i, "off": off, "end": end, "slots_end": slots_end})));
                    }
                    extents.push((off, end));
                    if let Some(p) = &prev {
                        if p.as_slice() >= key {
                            return Err(("keys_strictly_increasing".into(), "leaf_keys_not_increasing".into(), json!({"page": pg, "i": i, "prev": hx(p), "key": hx(key)})));
                        }
                    }
                    if let Some(l) = &lo {
                        if key < l.as_slice() {
                            return Err(("separators_bound_subtrees".into(), "leaf_key_below_lower_separator".into(), json!({"page": pg, "i": i, "key": hx(key), "lower": hx(l)})));
                        }
                    }
                    if let Some(h) = &hi {
                        if key >= h.as_slice() {
                            return Err(("separators_bound_subtrees".into(), "leaf_key_not_below_upper_separator".into(), json!({"page": pg, "i": i, "key": hx(key), "upper": hx(h)})));
                        }
                    }
                    prev = Some(key.to_vec());
                }
                extents.sort();
                for w in extents.windows(2) {
                    if w[0].1 > w[1].0 {
                        return Err(("cells_disjoint".into(), "leaf_cells_overlap".into(), json!({"page": pg, "a": [w[0].0, w[0].1], "b": [w[1].0, w[1].1]})));
                    }
                }
                leaves.push(pg);
            }
            PageType::BTreeInterior => {
                let node = InteriorNode::from_page(data).map_err(|e| ("interior_valid".to_string(), "interior_from_page_err".to_string(), json!({"page": pg, "err": e.to_string()})))?;
                let n = node.cell_count() as usize;
                let slots_end = INTERIOR_CONTENT_START + n * INTERIOR_SLOT_SIZE;
                if slots_end > PAGE {
                    return Err(("areas_inside_page".into(), "interior_slot_area_past_page".into(), json!({"page": pg, "n": n})));
                }
                let mut seps: Vec<Vec<u8>> = vec![];
                let mut children: Vec<u32> = vec![];
                let mut extents: Vec<(usize, usize)> = vec![];
                for i in 0..n {
                    let slot = node.slot_at(i).map_err(|e| ("interior_valid".to_string(), "interior_slot_at_err".to_string(), json!({"page": pg, "i": i, "err": e.to_string()})))?;
                    let off = slot.offset() as usize;
                    let kl = slot.key_len() as usize;
                    if off < slots_end || off + kl > PAGE {
                        return Err(("areas_inside_page".into(), "interior_cell_outside_cell_area".into(), json!({"page": pg, "i": i, "off": off, "len": kl})));
                    }
                    extents.push((off, off + kl));
                    let key = node.key_at(i).map_err(|e| ("areas_inside_page".to_string(), "interior_key_unreadable".to_string(), json!({"page": pg, "i": i, "err": e.to_string()})))?;
                    if let Some(p) = seps.last() {
                        if p.as_slice() >= key {
                            return Err(("keys_strictly_increasing".into(), "interior_keys_not_increasing".into(), json!({"page": pg, "i": i, "prev": hx(p), "key": hx(key)})));
                        }
                    }
                    if let Some(l) = &lo {
                        if key < l.as_slice() {
                            return Err(("separators_bound_subtrees".into(), "separator_below_lower_bound".into(), json!({"page": pg, "i": i})));
                        }
                    }
                    if let Some(h) = &hi {
                        if key >= h.as_slice() {
                            return Err(("separators_bound_subtrees".into(), "separator_not_below_upper_bound".into(), json!({"page": pg, "i": i})));
                        }
                    }
                    seps.push(key.to_vec());
                    children.push(slot.child_page());
                }
                extents.sort();
                for w in extents.windows(2) {
                    if w[0].1 > w[1].0 {
                        return Err(("cells_disjoint".into(), "interior_cells_overlap".into(), json!({"page": pg})));
                    }
                }
                children.push(node.right_child());
                // push in reverse so the leftmost child is processed first
                for i in (0..children.len()).rev() {
                    let clo = if i == 0 { lo.clone() } else { Some(seps[i - 1].clone()) };
                    let chi = if i == n { hi.clone() } else { Some(seps[i].clone()) };
                    stack.push((children[i], clo, chi, depth + 1));
                }
            }
            other => {
                return Err(("page_type".into(), "unexpected_page_type".into(), json!({"page": pg, "type": format!("{:?}", other)})));
            }
        }
    }
    // leaf chain: starting at the leftmost leaf, next_leaf visits exactly `leaves` in order
    let mut chain = vec![];
    let mut cur = leaves[0];
    let mut guard = 0;
    loop {
        chain.push(cur);
        guard += 1;
        if guard > leaves.len() + 2 {
            return Err(("leaf_chain".into(), "leaf_chain_longer_than_tree".into(), json!({"chain_prefix": chain.iter().take(20).collect::<Vec<_>>() })));
        }
        let data = store.page(cur).unwrap();
        let leaf = match LeafNode::from_page(data) {
            Ok(l) => l,
            Err(e) => return Err(("leaf_chain".into(), "leaf_chain_hits_non_leaf".into(), json!({"page": cur, "err": e.to_string()}))),
        };
        let nx = leaf.next_leaf();
        if nx == 0 {
            break;
        }
        if nx >= store.page_count() {
            return Err(("leaf_chain".into(), "next_leaf_out_of_range".into(), json!({"page": cur, "next": nx})));
        }
        cur = nx;
    }
    if chain != leaves {
        return Err(("leaf_chain".into(), "leaf_chain_differs_from_inorder_leaves".into(), json!({"chain": chain.iter().take(30).collect::<Vec<_>>(), "inorder": leaves.iter().take(30).collect::<Vec<_>>() })));
    }
    Ok((leaf_depth.unwrap_or(0), leaves, emptied))
}

fn scan_forward(bt: &BTree<'_, MemStore>, start: Option<&[u8]>, limit: usize) -> Result<Vec<(Vec<u8>, Vec<u8>)>, String> {
    let mut out = vec![];
    let mut c = match start {
        None => bt.cursor_first().map_err(|e| e.to_string())?,
        Some(k) => bt.cursor_seek(k).map_err(|e| e.to_string())?,
    };
    let mut steps = 0;
    while c.valid() {
        out.push((c.key().map_err(|e| e.to_string())?.to_vec(), c.value().map_err(|e| e.to_string())?.to_vec()));
        steps += 1;
        if steps > limit {
            return Err("cursor did not terminate within model size + slack".into());
        }
        if !c.advance().map_err(|e| e.to_string())? {
            break;
        }
    }
    Ok(out)
}

fn scan_backward(bt: &BTree<'_, MemStore>, limit: usize) -> Result<Vec<(Vec<u8>, Vec<u8>)>, String> {
    let mut out = vec![];
    let mut c = bt.cursor_last().map_err(|e| e.to_string())?;
    let mut steps = 0;
    while c.valid() {
        out.push((c.key().map_err(|e| e.to_string())?.to_vec(), c.value().map_err(|e| e.to_string())?.to_vec()));
        steps += 1;
        if steps > limit {
            return Err("cursor did not terminate within model size + slack".into());
        }
        if !c.prev().map_err(|e| e.to_string())? {
            break;
        }
    }
    Ok(out)
}

fn first_diff(a: &[(Vec<u8>, Vec<u8>)], b: &[(&Vec<u8>, &Vec<u8>)]) -> Value {
    let n = a.len().min(b.len());
    for i in 0..n {
        if &a[i].0 != b[i].0 || &a[i].1 != b[i].1 {
            return json!({"index": i, "got_key": hx(&a[i].0), "want_key": hx(b[i].0), "value_equal": &a[i].1 == b[i].1, "got_len": a.len(), "want_len": b.len()});
        }
    }
    json!({"index": n, "got_len": a.len(), "want_len": b.len()})
}

/// Execute one op sequence. `stop_on_first`: stop at the first violation of either property.
pub fn execute(ops: &[Op]) -> Outcome {
    let mut store = MemStore::new(2);
    let mut root: u32 = 1;
    let mut hint: Option<u32> = None;
    let mut use_hint = false;
    let mut model: BTreeMap<Vec<u8>, Vec<u8>> = BTreeMap::new();
    let mut out = Outcome { c28: vec![], c29: vec![], splits_seen: false, depth: 0, leaves: 0, ops_done: 0, emptied_leaf_seen: false };
    {
        let r = catch(|| BTree::create(&mut store, root).map(|_| ()));
        if !matches!(r, Ok(Ok(()))) {
            out.c28.push(("create".into(), "create_failed".into(), json!({"r": format!("{:?}", r.map(|x| x.map_err(|e| e.to_string())))})));
            return out;
        }
    }
    let mut stale = false;
    for (i, op) in ops.iter().enumerate() {
        out.ops_done = i + 1;
        let mut mutated = false;
        let tag = |s: &str| -> String {
            // hint state is part of the cause signature (hint-related defects are distinct defects)
            format!("{}{}", s, if use_hint { if stale { "/stale_hint" } else { "/hint" } } else { "" })
        };
        if let Op::Reopen { use_hint: u } = op {
            use_hint = *u;
            continue;
        }
        let h = if use_hint { hint } else { None };
        // every op runs on a fresh BTree instance carrying root (+hint) like the database does
        let res: Result<Result<(), (String, String, Value)>, String> = catch(|| {
            let mut bt = BTree::with_rightmost_hint(&mut store, root, h).map_err(|e| ("instance".to_string(), "with_rightmost_hint_err".to_string(), json!({"err": e.to_string()})))?;
            let r = (|| -> Result<(), (String, String, Value)> {
                match op {
                    Op::Insert(k, v) => {
                        let existed = model.contains_key(k);
                        match bt.insert(k, v) {
                            Ok(()) => {
                                // plain insert of an existing key: accept map-insert semantics (overwrite) only
                                model.insert(k.clone(), v.clone());
                                if existed {
                                    // verify via get below (generic post-check)
                                }
                            }
                            Err(e) => {
                                if !existed {
                                    let c = err_class(&e.to_string()).map(|x| x.to_string()).unwrap_or_else(|| tag("insert_new_key_err"));
                                    return Err(("insert_ok".into(), c, json!({"key": hx(k), "vlen": v.len(), "err": e.to_string()})));
                                }
                            }
                        }
                        mutated = true;
                    }
                    Op::InsertUnique(k, v) => {
                        let existed = model.contains_key(k);
                        match bt.insert_if_not_exists(k, v) {
                            Ok(InsertUniqueResult::Inserted) => {
                                if existed {
                                    return Err(("insert_if_absent".into(), tag("inserted_although_present"), json!({"key": hx(k)})));
                                }
                                model.insert(k.clone(), v.clone());
                            }
                            Ok(InsertUniqueResult::Duplicate(hd)) => {
                                if !existed {
                                    return Err(("insert_if_absent".into(), tag("duplicate_although_absent"), json!({"key": hx(k)})));
                                }
                                let gk = bt.get_key(&hd).map(|x| x.to_vec()).map_err(|e| e.to_string());
                                if gk.as_ref().ok() != Some(k) {
                                    return Err(("insert_if_absent".into(), tag("duplicate_handle_wrong_key"), json!({"key": hx(k), "handle_key": format!("{:?}", gk.map(|x| hx(&x)))})));
                                }
                            }
                            Err(e) => {
                                let c = err_class(&e.to_string()).filter(|_| !existed).map(|x| x.to_string()).unwrap_or_else(|| tag("insert_if_not_exists_err"));
                                return Err(("insert_if_absent".into(), c, json!({"key": hx(k), "existed": existed, "err": e.to_string()})));
                            }
                        }
                        mutated = true;
                    }
                    Op::Append(k, v) => {
                        // precondition: k > every stored key
                        if model.keys().next_back().map(|m| k > m).unwrap_or(true) {
                            match bt.insert_append(k, v) {
                                Ok(()) => {
                                    model.insert(k.clone(), v.clone());
                                }
                                Err(e) => {
                                    let c = err_class(&e.to_string()).map(|x| x.to_string()).unwrap_or_else(|| tag("insert_append_err"));
                                    return Err(("append_ok".into(), c, json!({"key": hx(k), "err": e.to_string()})));
                                }
                            }
                            mutated = true;
                        }
                    }
                    Op::Update(k, v) => {
                        let existed = model.contains_key(k);
                        match bt.update(k, v) {
                            Ok(true) => {
                                if !existed {
                                    return Err(("update".into(), tag("update_true_for_absent_key"), json!({"key": hx(k)})));
                                }
                                model.insert(k.clone(), v.clone());
                            }
                            Ok(false) => {
                                // absent key, or "does not fit in place" (caller falls back to delete+insert): no change
                            }
                            Err(e) => {
                                return Err(("update".into(), tag("update_err"), json!({"key": hx(k), "existed": existed, "err": e.to_string()})));
                            }
                        }
                        mutated = true;
                    }
                    Op::Delete(k) => {
                        let existed = model.contains_key(k);
                        match bt.delete(k) {
                            Ok(b) => {
                                if b != existed {
                                    return Err(("delete_result".into(), tag(if existed { "delete_false_for_present_key" } else { "delete_true_for_absent_key" }), json!({"key": hx(k)})));
                                }
                                model.remove(k);
                            }
                            Err(e) => {
                                return Err(("delete_result".into(), tag("delete_err"), json!({"key": hx(k), "err": e.to_string()})));
                            }
                        }
                        mutated = true;
                    }
                    Op::Get(k) => {
                        let want = model.get(k);
                        match bt.get(k) {
                            Ok(g) => {
                                if g.map(|x| x.to_vec()).as_ref() != want {
                                    return Err(("lookup".into(), tag(if want.is_some() { "get_misses_present_key" } else { "get_finds_absent_key" }), json!({"key": hx(k)})));
                                }
                            }
                            Err(e) => return Err(("lookup".into(), tag("get_err"), json!({"key": hx(k), "err": e.to_string()}))),
                        }
                        match bt.search(k) {
                            Ok(s) => {
                                if s.is_some() != want.is_some() {
                                    return Err(("lookup".into(), tag("search_disagrees"), json!({"key": hx(k)})));
                                }
                            }
                            Err(e) => return Err(("lookup".into(), tag("search_err"), json!({"key": hx(k), "err": e.to_string()}))),
                        }
                    }
                    Op::Seek(k) => {
                        let want: Vec<(&Vec<u8>, &Vec<u8>)> = model.range(k.clone()..).collect();
                        match scan_forward(&bt, Some(k), model.len() + 10) {
                            Ok(got) => {
                                if got.len() != want.len() || got.iter().zip(want.iter()).any(|(g, w)| &g.0 != w.0 || &g.1 != w.1) {
                                    return Err(("cursor_seek_enumerates".into(), tag("seek_scan_differs"), json!({"seek": hx(k), "diff": first_diff(&got, &want)})));
                                }
                            }
                            Err(e) => return Err(("cursor_seek_enumerates".into(), tag("seek_scan_err"), json!({"seek": hx(k), "err": e}))),
                        }
                    }
                    Op::ScanFwd => {
                        let want: Vec<(&Vec<u8>, &Vec<u8>)> = model.iter().collect();
                        match scan_forward(&bt, None, model.len() + 10) {
                            Ok(got) => {
                                if got.len() != want.len() || got.iter().zip(want.iter()).any(|(g, w)| &g.0 != w.0 || &g.1 != w.1) {
                                    return Err(("cursor_first_enumerates".into(), tag("forward_scan_differs"), json!({"diff": first_diff(&got, &want)})));
                                }
                            }
                            Err(e) => return Err(("cursor_first_enumerates".into(), tag("forward_scan_err"), json!({"err": e}))),
                        }
                    }
                    Op::ScanBack => {
                        let want: Vec<(&Vec<u8>, &Vec<u8>)> = model.iter().rev().collect();
                        match scan_backward(&bt, model.len() + 10) {
                            Ok(got) => {
                                if got.len() != want.len() || got.iter().zip(want.iter()).any(|(g, w)| &g.0 != w.0 || &g.1 != w.1) {
                                    return Err(("cursor_last_enumerates".into(), tag("backward_scan_differs"), json!({"diff": first_diff(&got, &want)})));
                                }
                            }
                            Err(e) => return Err(("cursor_last_enumerates".into(), tag("backward_scan_err"), json!({"err": e}))),
                        }
                    }
                    Op::Reopen { .. } => {}
                }
                Ok(())
            })();
            root = bt.root_page();
            let nh = bt.rightmost_hint();
            if nh.is_some() {
                hint = nh;
            }
            r
        });
        match res {
            Err(p) => {
                out.c28.push(("no_panic".into(), tag(&format!("panic/{}", panic_site(&p).rsplit('/').next().unwrap_or(""))), json!({"op_index": i, "op": op.to_json(), "panic": p})));
                break;
            }
            Ok(Err((a, s, mut d))) => {
                d["op_index"] = json!(i);
                d["op"] = op.to_json();
                let c28cause = s.clone();
                out.c28.push((a, s, d));
                if let Ok(Err((a, s, mut d))) = catch(|| walk(&store, root)) {
                    d["op_index"] = json!(i);
                    d["after_failed_op"] = op.to_json();
                    out.c29.push((a, format!("{}/after_{}", s, c28cause), d));
                }
                break;
            }
            Ok(Ok(())) => {}
        }
        if mutated {
            // post-check: the touched key reads back as the model says
            let k = match op {
                Op::Insert(k, _) | Op::InsertUnique(k, _) | Op::Append(k, _) | Op::Update(k, _) | Op::Delete(k) => Some(k),
                _ => None,
            };
            if let Some(k) = k {
                let want = model.get(k).cloned();
                let r = catch(|| {
                    let bt = BTree::new(&mut store, root).map_err(|e| e.to_string())?;
                    bt.get(k).map(|x| x.map(|y| y.to_vec())).map_err(|e| e.to_string())
                });
                match r {
                    Ok(Ok(g)) if g == want => {}
                    other => {
                        out.c28.push(("read_your_write".into(), tag(if want.is_some() { "written_key_not_readable" } else { "deleted_key_still_readable" }), json!({"op_index": i, "op": op.to_json(), "got": format!("{:?}", other.map(|x| x.map(|y| y.map(|z| z.len()))))})));
                        break;
                    }
                }
            }
            // C29 walker after every mutating op
            match catch(|| walk(&store, root)) {
                Ok(Ok((depth, leaves, emptied))) => {
                    out.depth = out.depth.max(depth);
                    out.leaves = out.leaves.max(leaves.len());
                    if leaves.len() > 1 {
                        out.splits_seen = true;
                    }
                    out.emptied_leaf_seen |= emptied;
                }
                Ok(Err((a, s, mut d))) => {
                    d["op_index"] = json!(i);
                    d["op"] = op.to_json();
                    out.c29.push((a, tag(&s), d));
                    break;
                }
                Err(p) => {
                    out.c29.push(("walker_no_panic".into(), tag(&format!("walker_panic/{}", panic_site(&p).rsplit('/').next().unwrap_or(""))), json!({"op_index": i, "panic": p})));
                    break;
                }
            }
            let _ = stale;
        }
    }
    let _ = &mut stale;
    out
}

pub fn gen_sequence(rng: &mut Rng, max_ops: usize, miri: bool) -> (Vec<Op>, KeyStyle, bool) {
    let style = *rng.pick(&[KeyStyle::Random, KeyStyle::Sorted, KeyStyle::Reverse, KeyStyle::EqualPrefix, KeyStyle::Large, KeyStyle::Mixed, KeyStyle::EqualPrefix, KeyStyle::Sorted]);
    let huge = rng.chance(1, 10);
    let mut g = Gen { rng: Rng::new(rng.next()), style, counter: 0, huge };
    let n = if miri { rng.usize(60, max_ops) } else { rng.usize(max_ops / 4, max_ops) };
    let mut ops = vec![];
    let mut known: Vec<Vec<u8>> = vec![];
    if !miri && rng.chance(1, 8) {
        // append-fill stratum: the bulk-load shape (ascending keys through insert_append with the carried
        // rightmost hint), value lengths uniform so that every residue of free space at the moment a leaf
        // fills up is reached (the append fast path decides "fits" on its own, separately from insert())
        let mut g = Gen { rng: Rng::new(rng.next()), style: KeyStyle::Sorted, counter: 0, huge: false };
        ops.push(Op::Reopen { use_hint: true });
        let top = *rng.pick(&[24usize, 64, 300, 1200]);
        for i in 0..n {
            let k = g.key();
            let l = rng.usize(0, top);
            let mut v = vec![i as u8; l];
            if l >= 8 {
                v[..8].copy_from_slice(&(i as u64).to_le_bytes());
            }
            known.push(k.clone());
            ops.push(Op::Append(k, v));
            if rng.chance(1, 40) {
                let k = rng.pick(&known).clone();
                ops.push(Op::Get(k));
            }
            if rng.chance(1, 150) {
                ops.push(Op::ScanFwd);
            }
        }
        ops.push(Op::ScanFwd);
        ops.push(Op::ScanBack);
        return (ops, KeyStyle::Sorted, false);
    }
    let use_hint = rng.chance(1, 2);
    ops.push(Op::Reopen { use_hint });
    // phase weights: build-up, churn, drain (emptying whole leaves), rebuild
    let drain_at = n * 6 / 10;
    let rebuild_at = n * 8 / 10;
    let drains = rng.chance(2, 3);
    let mut append_mode = style == KeyStyle::Sorted && rng.chance(1, 2);
    for i in 0..n {
        let phase_drain = drains && i >= drain_at && i < rebuild_at;
        let r = rng.below(100);
        let pick_known = |rng: &mut Rng, known: &Vec<Vec<u8>>, g: &mut Gen| -> Vec<u8> {
            if !known.is_empty() && rng.chance(9, 10) {
                rng.pick(known).clone()
            } else {
                g.key()
            }
        };
        if phase_drain {
            if r < 75 {
                // delete contiguous ranges to empty whole leaves
                if !known.is_empty() {
                    let idx = rng.below(known.len() as u64) as usize;
                    let k = known.swap_remove(idx);
                    ops.push(Op::Delete(k));
                }
            } else if r < 85 {
                ops.push(Op::ScanFwd);
            } else if r < 92 {
                ops.push(Op::ScanBack);
            } else {
                let k = pick_known(rng, &known, &mut g);
                ops.push(Op::Seek(k));
            }
            if i == drain_at && rng.chance(1, 2) {
                known.sort();
                // drain from the high end first (empties the rightmost leaf) or low end
                if rng.chance(1, 2) {
                    known.reverse();
                }
                // deleting in order: emulate by popping from the end
                let take = known.len() * rng.usize(5, 10) / 10;
                for _ in 0..take {
                    if let Some(k) = known.pop() {
                        ops.push(Op::Delete(k));
                    }
                }
                ops.push(Op::ScanFwd);
                ops.push(Op::ScanBack);
            }
            continue;
        }
        if r < 45 {
            let k = g.key();
            let v = g.value();
            known.push(k.clone());
            if append_mode {
                ops.push(Op::Append(k, v));
            } else if rng.chance(1, 3) {
                ops.push(Op::InsertUnique(k, v));
            } else {
                ops.push(Op::Insert(k, v));
            }
        } else if r < 55 {
            let k = pick_known(rng, &known, &mut g);
            let v = g.value();
            ops.push(Op::Update(k, v));
        } else if r < 67 {
            let k = pick_known(rng, &known, &mut g);
            ops.push(Op::Delete(k));
        } else if r < 80 {
            let k = pick_known(rng, &known, &mut g);
            ops.push(Op::Get(k));
        } else if r < 85 {
            let k = pick_known(rng, &known, &mut g);
            ops.push(Op::Seek(k));
        } else if r < 90 {
            ops.push(Op::ScanFwd);
        } else if r < 94 {
            ops.push(Op::ScanBack);
        } else if r < 97 {
            ops.push(Op::Reopen { use_hint: rng.chance(1, 2) });
        } else {
            // re-insert an existing key through insert_if_not_exists
            let k = pick_known(rng, &known, &mut g);
            let v = g.value();
            ops.push(Op::InsertUnique(k, v));
            append_mode = false;
        }
    }
    ops.push(Op::ScanFwd);
    ops.push(Op::ScanBack);
    (ops, style, huge)
}

/// ddmin-lite: drop chunks of ops while the same signature still fires
pub fn shrink(ops: &[Op], prop: &str, sig: &str) -> Vec<Op> {
    let fires = |o: &[Op]| -> bool {
        let out = execute(o);
        let v = if prop == "C28" { &out.c28 } else { &out.c29 };
        v.iter().any(|(_, s, _)| s == sig)
    };
    let mut cur: Vec<Op> = ops.to_vec();
    let mut chunk = cur.len() / 2;
    let mut budget = 250;
    while chunk >= 1 && budget > 0 {
        let mut i = 0;
        let mut progressed = false;
        while i < cur.len() && budget > 0 {
            let end = (i + chunk).min(cur.len());
            let mut cand = cur[..i].to_vec();
            cand.extend_from_slice(&cur[end..]);
            budget -= 1;
            if !cand.is_empty() && fires(&cand) {
                cur = cand;
                progressed = true;
            } else {
                i += chunk;
            }
        }
        if !progressed || chunk == 1 {
            if chunk == 1 {
                break;
            }
        }
        chunk /= 2;
    }
    cur
}

pub fn run_engine(a: &Args, prop: &'static str) -> i32 {
    let miri = cfg!(miri);
    let rule = "generated op sequences (insert / insert_if_not_exists / insert_append / update / delete / get / cursor seek / forward+backward scans / new BTree instance with or without carried rightmost hint) over key styles random, sorted, reverse, equal-4-byte-prefix, large keys, mixed; phases build-up -> churn -> drain (deleting whole key ranges so leaves empty) -> rebuild. Each op runs on a fresh BTree instance carrying root page and hint as the database does. distinct_nontrivial = distinct sequences (hash of ops) in which the tree reached >= 2 leaves (a split happened)";
    let mut ctx = Ctx::new(prop, &a.tier, a.seed, "exploration", rule);
    let quick = ctx.quick();
    let (nseq, max_ops) = if miri { (6, 120) } else if quick { (1500, 500) } else { (12000, 700) };
    let threads = if miri { 1 } else { 16 };
    let seed = a.seed;
    let results = std::sync::Mutex::new(Vec::new());
    let next = std::sync::atomic::AtomicUsize::new(0);
    std::thread::scope(|s| {
        for _ in 0..threads {
            s.spawn(|| loop {
                let i = next.fetch_add(1, std::sync::atomic::Ordering::SeqCst);
                if i >= nseq {
                    break;
                }
                let mut rng = Rng::derive(seed, 2800 + i as u64);
                let (ops, style, huge) = gen_sequence(&mut rng, max_ops, miri);
                let out = execute(&ops);
                results.lock().unwrap().push((i, ops, style, huge, out));
            });
        }
    });
    let mut results = results.into_inner().unwrap();
    results.sort_by_key(|r| r.0);
    let mut shrunk_sigs: HashSet<String> = HashSet::new();
    for (i, ops, style, huge, out) in results {
        ctx.eval();
        ctx.count("ops_executed", out.ops_done as u64);
        if out.splits_seen {
            let h = fnv(format!("{:?}", ops.iter().map(|o| o.to_json().to_string()).collect::<Vec<_>>()).as_bytes());
            ctx.nontrivial(h);
        }
        if out.depth >= 2 {
            ctx.count("sequences_with_depth_ge_2", 1);
        }
        if out.emptied_leaf_seen {
            ctx.count("sequences_with_emptied_nonroot_leaf", 1);
        }
        ctx.count(&format!("style_{:?}", style), 1);
        if i < 2 {
            ctx.sample(json!({"sequence": i, "style": format!("{:?}", style), "huge_values": huge, "n_ops": ops.len(), "first_ops": ops.iter().take(12).map(|o| o.to_json()).collect::<Vec<_>>(), "max_leaves": out.leaves, "depth": out.depth}));
        }
        let mine = if prop == "C28" { &out.c28 } else { &out.c29 };
        let other = if prop == "C28" { &out.c29 } else { &out.c28 };
        ctx.count("other_property_violations_seen", other.len() as u64);
        for (assertion, cause, detail) in mine {
            let sig = format!("{}/{}/{}{}", prop, assertion, cause, if huge { "/huge_cells" } else { "" });
            let mut ops_json: Vec<Value> = vec![];
            if ctx.is_known(&sig).is_none() && shrunk_sigs.insert(sig.clone()) && !miri {
                // shrink the first witness of each new signature
                let small = shrink(&ops[..out.ops_done.min(ops.len())], prop, cause);
                ops_json = small.iter().map(|o| o.to_json()).collect();
            }
            ctx.violation(assertion, &sig, json!({"sequence": i, "style": format!("{:?}", style), "detail": detail, "shrunk_ops": ops_json, "replay": format!("tv {} --tier {} --seed {} (sequence {})", prop, ctx.tier, seed, i)}));
        }
    }
    ctx.assumptions.push("in-memory Storage implementation (MemStore) stands in for MmapStorage; BTree is generic over Storage".into());
    ctx.assumptions.push("update() returning Ok(false) for a present key whose new value does not fit is accepted as 'no change' (callers fall back to delete+insert)".into());
    ctx.finish()
}

pub fn run(a: &Args) -> i32 {
    run_engine(a, "C28")
}

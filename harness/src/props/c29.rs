//! C29: B-tree pages stay structurally valid (invariant walker after every op). Engine in c28.rs.
use crate::Args;

pub fn run(a: &Args) -> i32 {
    super::c28::run_engine(a, "C29")
}

//! C30: vectorised leaf search == plain binary search over the page's sorted keys.
use crate::report::{catch, Ctx};
use crate::rng::{fnv, Rng};
use crate::Args;
use serde_json::json;
use turdb::btree::{LeafNode, LeafNodeMut, SearchResult};
use turdb::btree::simd_scan;

pub const PAGE: usize = 16384;

/// generate a sorted, duplicate-free key set with adversarial 4-byte-prefix structure
pub fn gen_keys(rng: &mut Rng, n: usize) -> Vec<Vec<u8>> {
    let mut set = std::collections::BTreeSet::new();
    let style = rng.below(8);
    let mut guard = 0;
    while set.len() < n && guard < n * 20 + 50 {
        guard += 1;
        let k: Vec<u8> = match style {
            // long runs of equal prefixes
            0 | 1 => {
                let npref = 1 + rng.below(if style == 0 { 3 } else { 12 });
                let p = rng.below(npref) as u8;
                let hi = if rng.chance(1, 2) { 0x80 } else { 0x00 };
                let mut k = vec![hi | 0x41, 0x42, 0x43, p];
                let sl = rng.usize(0, 4);
                for _ in 0..sl {
                    k.push(rng.below(4) as u8);
                }
                k
            }
            // short keys (< 4 bytes) mixed with longer ones, zero bytes
            2 => {
                let l = rng.usize(0, 6);
                (0..l).map(|_| *rng.pick(&[0u8, 0, 1, 0x7f, 0x80, 0xff])).collect()
            }
            // big-endian integers (monotone prefixes), small range
            3 => (rng.below(5000) as u32).to_be_bytes().to_vec(),
            4 => {
                let mut k = (rng.below(40) as u32 * 0x0101_0101).to_be_bytes().to_vec();
                k.extend_from_slice(&(rng.below(64) as u16).to_be_bytes());
                k
            }
            // high-bit prefixes around the signed boundary
            5 => {
                let base: u32 = *rng.pick(&[0x7fff_fff0u32, 0x8000_0000, 0xffff_fff0, 0]);
                let mut k = base.wrapping_add(rng.below(24) as u32).to_be_bytes().to_vec();
                if rng.chance(1, 2) {
                    k.push(rng.below(3) as u8);
                }
                k
            }
            // random bytes
            6 => {
                let l = rng.usize(1, 12);
                rng.bytes(l)
            }
            // one single run: identical prefix for the whole page
            _ => {
                let mut k = vec![9, 9, 9, 9];
                k.extend_from_slice(&(rng.below(2000) as u16).to_be_bytes());
                k
            }
        };
        set.insert(k);
    }
    set.into_iter().collect()
}

/// runs of every length placed at every alignment relative to the 8-lane batch
pub fn gen_keys_aligned(lead: usize, run: usize, tail: usize) -> Vec<Vec<u8>> {
    let mut v = vec![];
    for i in 0..lead {
        v.push(vec![0x10, 0, (i >> 8) as u8, i as u8]);
    }
    for i in 0..run {
        v.push(vec![0x20, 0, 0, 0, (i >> 8) as u8, i as u8, 1]);
    }
    for i in 0..tail {
        v.push(vec![0x30, 0, (i >> 8) as u8, i as u8]);
    }
    v
}

pub fn build_page(keys: &[Vec<u8>]) -> Option<Vec<u8>> {
    let mut page = vec![0u8; PAGE];
    {
        let mut leaf = LeafNodeMut::init(&mut page).ok()?;
        for (i, k) in keys.iter().enumerate() {
            let val = [(i & 0xff) as u8; 2];
            if leaf.insert_at_end(k, &val[..(i % 3)]).is_err() {
                return None;
            }
        }
    }
    Some(page)
}

fn model(keys: &[Vec<u8>], probe: &[u8]) -> SearchResult {
    match keys.binary_search_by(|k| k.as_slice().cmp(probe)) {
        Ok(i) => SearchResult::Found(i),
        Err(i) => SearchResult::NotFound(i),
    }
}

fn probes_for(rng: &mut Rng, keys: &[Vec<u8>], nrand: usize) -> Vec<Vec<u8>> {
    let mut ps: Vec<Vec<u8>> = vec![vec![], vec![0], vec![0xff; 5]];
    for k in keys {
        ps.push(k.clone());
        let mut a = k.clone();
        a.push(0);
        ps.push(a);
        if !k.is_empty() {
            let mut b = k.clone();
            b.pop();
            ps.push(b);
            let mut c = k.clone();
            let l = c.len() - 1;
            c[l] = c[l].wrapping_add(1);
            ps.push(c);
            let mut d = k.clone();
            d[l] = d[l].wrapping_sub(1);
            ps.push(d);
            // same 4-byte prefix, smaller/larger than everything with that prefix
            let mut e: Vec<u8> = k.iter().take(4).cloned().collect();
            ps.push(e.clone());
            e.extend_from_slice(&[0xff, 0xff, 0xff, 0xff, 0xff]);
            ps.push(e);
        }
    }
    for _ in 0..nrand {
        if !keys.is_empty() && rng.chance(1, 2) {
            let mut k = rng.pick(keys).clone();
            if !k.is_empty() {
                let i = rng.usize(0, k.len() - 1);
                k[i] = rng.next() as u8;
            }
            ps.push(k);
        } else {
            let l = rng.usize(0, 8);
            ps.push(rng.bytes(l));
        }
    }
    ps
}

/// returns number of mismatches
pub fn check_page(ctx: &mut Ctx, keys: &[Vec<u8>], probes: &[Vec<u8>], label: &str) -> u64 {
    let page = match build_page(keys) {
        Some(p) => p,
        None => return 0,
    };
    let leaf = match LeafNode::from_page(&page) {
        Ok(l) => l,
        Err(e) => {
            ctx.violation("page_valid", "C30/page_rejected", json!({"err": e.to_string(), "n": keys.len()}));
            return 1;
        }
    };
    // the page really holds the sorted keys
    for (i, k) in keys.iter().enumerate() {
        if leaf.key_at(i).ok() != Some(k.as_slice()) {
            ctx.violation("page_valid", "C30/key_at_mismatch", json!({"i": i}));
            return 1;
        }
    }
    let n = keys.len();
    let mut bad = 0;
    for p in probes {
        ctx.eval();
        let want = model(keys, p);
        let got = catch(|| simd_scan::find_key_simd(&page, p, n));
        let got2 = catch(|| leaf.find_key(p));
        let ok = matches!((&got, &got2), (Ok(a), Ok(b)) if *a == want && *b == want);
        if !ok {
            bad += 1;
            let hexkeys: Vec<String> = keys.iter().map(|k| hex(k)).collect();
            ctx.violation(
                "search_eq_binary_search",
                "C30/find_key_mismatch",
                json!({"label": label, "n": n, "probe": hex(p), "want": format!("{:?}", want), "find_key_simd": format!("{:?}", got), "leaf.find_key": format!("{:?}", got2), "keys": hexkeys}),
            );
            if bad > 3 {
                break;
            }
        }
        // the narrowing kernels must bracket the answer (both of them, on this CPU)
        let pos = match want {
            SearchResult::Found(i) => i,
            SearchResult::NotFound(i) => i,
        };
        let tp = u32::from_be_bytes(turdb::btree::extract_prefix(p));
        let (l, r, _) = simd_scan::simd_prefix_search_scalar(&page, tp, n);
        let found = matches!(want, SearchResult::Found(_));
        if !(l <= pos && pos <= r && (!found || pos < r)) {
            bad += 1;
            ctx.violation("scalar_kernel_brackets", "C30/scalar_range_excludes_answer", json!({"label": label, "n": n, "probe": hex(p), "range": [l, r], "pos": pos}));
        }
        #[cfg(target_arch = "x86_64")]
        {
            if is_x86_feature_detected!("avx2") {
                let (l, r, _) = unsafe { simd_scan::simd_prefix_search_avx2(&page, tp, n) };
                if !(l <= pos && pos <= r.min(n) && (!found || pos < r)) {
                    bad += 1;
                    ctx.violation("avx2_kernel_brackets", "C30/avx2_range_excludes_answer", json!({"label": label, "n": n, "probe": hex(p), "range": [l, r], "pos": pos}));
                }
            }
        }
    }
    bad
}

pub fn hex(b: &[u8]) -> String {
    b.iter().map(|x| format!("{:02x}", x)).collect()
}

pub fn run(a: &Args) -> i32 {
    let miri = cfg!(miri);
    let mut ctx = Ctx::new(
        "C30",
        &a.tier,
        a.seed,
        "exploration",
        "leaf pages built through LeafNodeMut from sorted key sets (size 0..400; 8 adversarial prefix styles; plus an aligned sweep: equal-prefix runs of every length 1..40 at every offset 0..15 from the batch grid); probes = every stored key, its neighbours, same-prefix extremes, random. A case = (page, probe). distinct_nontrivial = distinct pages (hash of key set) with >= 8 keys, i.e. pages on which the vector kernel actually narrows",
    );
    let mut rng = Rng::derive(a.seed, 30);
    let avx2 = {
        #[cfg(target_arch = "x86_64")]
        {
            is_x86_feature_detected!("avx2")
        }
        #[cfg(not(target_arch = "x86_64"))]
        {
            false
        }
    };
    ctx.extra.insert("cpu_avx2_dispatch".into(), json!(avx2));
    let quick = ctx.quick();
    // aligned sweep
    let (max_run, max_lead) = if miri { (10, 9) } else if quick { (40, 16) } else { (40, 40) };
    let mut pages = 0u64;
    for run in 1..=max_run {
        for lead in 0..max_lead {
            for tail in [0usize, 3, 17] {
                let keys = gen_keys_aligned(lead, run, tail);
                let probes = probes_for(&mut rng, &keys, 4);
                check_page(&mut ctx, &keys, &probes, "aligned");
                pages += 1;
                if keys.len() >= 8 {
                    ctx.nontrivial(fnv(&keys.concat()));
                }
            }
        }
    }
    let npages = if miri { 40 } else if quick { 3000 } else { 200_000 };
    for i in 0..npages {
        let n = if i < 401 { i as usize } else { rng.usize(0, 400) };
        let n = if miri { n.min(60) } else { n };
        let keys = gen_keys(&mut rng, n);
        let probes = probes_for(&mut rng, &keys, if miri { 4 } else { 30 });
        check_page(&mut ctx, &keys, &probes, "generated");
        pages += 1;
        if keys.len() >= 8 {
            ctx.nontrivial(fnv(&keys.concat()));
        }
        if i == 57 {
            ctx.sample(json!({"n": keys.len(), "first_keys": keys.iter().take(12).map(|k| hex(k)).collect::<Vec<_>>()}));
        }
    }
    ctx.count("pages", pages);
    ctx.sample(json!({"aligned": {"lead": 5, "run": 9, "tail": 3}, "keys": gen_keys_aligned(5, 9, 3).iter().map(|k| hex(k)).collect::<Vec<_>>()}));
    ctx.assumptions.push("'regardless of CPU feature availability': native runs execute the AVX2 dispatch and additionally call the scalar kernel directly; the Miri stage (thorough) executes the scalar dispatch end-to-end".into());
    ctx.finish()
}
